#!/bin/sh
# usage: mut_worktree.sh add <name> | remove <name>     scratch git worktree of /repo under /tmp/mut_<name>
set -e
D=/tmp/mut_$2
case "$1" in
 add) git -C /repo worktree add -q "$D" HEAD; cp -r /repo/ThirdParty/googletest/. "$D/ThirdParty/googletest/"; echo "$D";;
 remove) git -C /repo worktree remove --force "$D"; rm -rf "$D";;
esac
