#!/usr/bin/env python3
"""Rewrite the seeded-changes table of DESIGN.md (between the SEEDED-TABLE markers) from seeded/*/meta.json
and seeded/RESULTS.txt (output of tools/run_seeded.py)."""
import json, os, re
ROOT = os.path.dirname(os.path.dirname(os.path.abspath(__file__)))
res = {}
for l in open(os.path.join(ROOT, 'seeded', 'RESULTS.txt')):
    m = re.match(r'(\S+)\s+(\S+)\s+(.*)', l)
    if m:
        res.setdefault(m.group(1), []).append((m.group(2), m.group(3)))
rows = []
for sid in sorted(os.listdir(os.path.join(ROOT, 'seeded')), key=lambda x: (x.split('-')[0], int(x.split('-')[1]) if '-' in x and x.split('-')[1].isdigit() else 0)):
    mp = os.path.join(ROOT, 'seeded', sid, 'meta.json')
    if not os.path.exists(mp):
        continue
    m = json.load(open(mp))
    out = []
    for pid, r in res.get(sid, []):
        if 'concrete replay' in r:
            mon = re.search(r'\) (\w+\.\w+):', r) or re.search(r'obligation (\w+\.\w+):', r)
            out.append('%s: concrete replay%s' % (pid, (' (`%s`)' % mon.group(1)) if mon else ''))
        elif 'no-failing-input-found' in r:
            out.append('%s: broken correspondence, no-failing-input-found' % pid)
        elif 'missed' in r:
            out.append('%s: MISSED' % pid)
        else:
            out.append('%s: %s' % (pid, r[:60]))
    summ = m.get('summary', '').replace('|', '/').replace('\n', ' ')
    needs = m.get('needs', '').replace('|', '/').replace('\n', ' ')
    rows.append('| %s | %s | %s | %s |' % (sid, summ[:220], needs[:200], '; '.join(out) or 'not run'))
table = '| id | change | needs, to manifest | caught by |\n|---|---|---|---|\n' + '\n'.join(rows) + '\n'
p = os.path.join(ROOT, 'DESIGN.md')
s = open(p).read()
a, b = '<!-- SEEDED-TABLE-BEGIN -->\n', '<!-- SEEDED-TABLE-END -->\n'
if a in s:
    s = s[:s.index(a) + len(a)] + table + s[s.index(b):]
    open(p, 'w').write(s)
    print('table rewritten: %d rows' % len(rows))
else:
    print(table)
