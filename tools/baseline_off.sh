#!/bin/sh
# Build /repo with the guard OFF (it is never defined by the build) in a scratch directory and run the test-suite.
set -e
B=$(mktemp -d /var/tmp/gmlc_baseline.XXXXXX)
trap 'rm -rf "$B"' EXIT
cmake -G Ninja -S /repo -B "$B" >/dev/null
cmake --build "$B" >/dev/null
ctest --test-dir "$B" -j8 --timeout 900
