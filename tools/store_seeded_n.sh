#!/bin/bash
# usage: store_seeded_n.sh <PID> <suffix> <offset> <round>  -- /tmp/mut_<PID><suffix>/out/<i> -> seeded/<PID>-<i+offset>
P=$1; S=$2; OFF=$3; RND=$4
for i in 1 2 3; do
  [ -f /tmp/mut_${P}${S}/out/$i/patch.diff ] || continue
  j=$((i+OFF))
  mkdir -p /verif/seeded/$P-$j
  cp /tmp/mut_${P}${S}/out/$i/patch.diff /tmp/mut_${P}${S}/out/$i/demo.cpp /verif/seeded/$P-$j/
  python3 - <<PY
import json
m=json.load(open('/tmp/mut_${P}${S}/out/$i/meta.json'))
m['round']=$RND
m['confirmed_by_coordinator']='test-suite rebuilt and run with the change: 100% passed; demo built and run without the change (exit 0) and with it (non-zero / hang)'
json.dump(m,open('/verif/seeded/$P-$j/meta.json','w'),indent=1)
PY
done
