#!/usr/bin/env python3
"""Regenerate MANIFEST.json from props/*.json (one check entry per claimed property)."""
import json, os, sys
ROOT = os.path.dirname(os.path.dirname(os.path.abspath(__file__)))
props = [json.loads(l) for l in open(os.path.join(ROOT, 'properties.jsonl'))]
specs = {}
for f in sorted(os.listdir(os.path.join(ROOT, 'props'))):
    if f.endswith('.json'):
        s = json.load(open(os.path.join(ROOT, 'props', f)))
        specs[s['id']] = s
na_path = os.path.join(ROOT, 'props', 'not_applicable.txt')
checks, na = [], []
for p in props:
    pid = p['id']
    s = specs.get(pid)
    if not s or not s.get('claimed'):
        na.append({'property_id': pid, 'reason': 'not yet claimed: the model, theorems and correspondence driver for this property are still being built (see DESIGN.md section 5); machine-checked proof does apply and is planned'})
        continue
    checks.append({
        'property_id': pid,
        'quick_cmd': './check %s --tier quick' % pid,
        'thorough_cmd': './check %s --tier thorough' % pid,
        'evidence_file': 'evidence/%s.json' % pid,
        'replay_cmd_template': './check %s --replay {path}' % pid,
        'engine': 'rocq+correspondence',
        'level_claimed': {
            'category': 'proof',
            'text': s.get('level_text', '%d theorems (%s%s) about executable Gallina models (components: %s) of the anchored code, proved in Coq 8.16 for every client program, thread count, schedule and fault plan the property quantifies over, each closed under the global context (Print Assumptions re-run on every check); the models are tied to /repo on every run by a step-by-step trace correspondence against the unmodified headers compiled over an instrumented std, and implementation-side monitors of the property search for a concrete failing input when a proof or the correspondence breaks.'
                           % (len(s['theorems']), ', '.join(s['theorems'][:6]), ', ...' if len(s['theorems']) > 6 else '', ', '.join(s['components']))),
            'design_ref': s.get('design_ref', 'DESIGN.md section 5, ' + pid),
        },
        'level_note': s.get('level_note', 'Trusted: Coq 8.16.1 kernel (no axioms); hand-written models of the std primitives (DESIGN 2.3) and of the code (tied by correspondence = differential testing, not proof); extraction with ExtrOcamlBasic only; ' + '; '.join(s.get('trusted_base', [])) + '. Carried only partially / modelled: ' + (s.get('partial') or 'nothing beyond the common trusted base (DESIGN section 7)')),
        'technique': s.get('technique', 'inductive invariant over an interleaving semantics in Coq + model/implementation trace correspondence'),
    })
man = {
    'version': 1,
    'setup_cmd': './setup.sh',
    'hooks': {
        'guard': 'GMLC_CONCURRENCY_VERIF',
        'enable': 'none needed: the unmodified headers are compiled against harness/vstd.hpp with `#define std vstd`; the guard name is reserved',
        'baseline_off_cmd': './tools/baseline_off.sh',
        'source_commits': [],
        'add_only': True,
    },
    'engines': [{'name': 'rocq+correspondence', 'path': 'check', 'serves_properties': [c['property_id'] for c in checks],
                 'kind_free_text': 'Coq 8.16 development (coq/) + extracted OCaml model drivers + instrumented C++ drivers (harness/) + orchestrator (lib/)'}],
    'checks': checks,
    'not_applicable': na,
    'notes': 'See DESIGN.md. Known findings: known_findings.json.',
}
json.dump(man, open(os.path.join(ROOT, 'MANIFEST.json'), 'w'), indent=1)
print('MANIFEST.json: %d checks, %d not yet claimed' % (len(checks), len(na)))
