#!/bin/bash
# usage: confirm_mut.sh <PID>  -- builds each demo with/without the patch, runs test suite with patch
P=$1; W=/tmp/mut_$P; cd $W
for i in 1 2 3; do
  git checkout -q -- .
  cmd=$(head -1 out/$i/demo.cpp | sed 's#^// *build+run: *##; s#^// *build: *##; s#^// *##')
  echo "--- $i: $cmd" | cut -c1-200
  case "$cmd" in cd*) pre="";; *) pre="cd $W/out/$i && ";; esac
  (eval "timeout 300 bash -c '$pre$cmd'" > out/$i/clean.log 2>&1; echo "clean rc=$?")
  git apply out/$i/patch.diff
  (eval "timeout 300 bash -c '$pre$cmd'" > out/$i/mut.log 2>&1; echo "mutated rc=$?")
  cmake --build _b > /dev/null 2>&1; ctest --test-dir _b -j8 2>&1 | grep "tests passed\|tests failed"
done
git checkout -q -- .
