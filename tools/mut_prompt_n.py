#!/usr/bin/env python3
"""usage: mut_prompt_n.py <PID> <suffix> <round-name>  -- prompt for a later round of seeded changes: the base prompt plus
the format detail and the list of earlier changes (summaries only) that touch the property's anchored files."""
import json, os, sys, glob, re
pid, suf, rnd = sys.argv[1], sys.argv[2], sys.argv[3]
p = {json.loads(l)['id']: json.loads(l) for l in open('/verif/properties.jsonl')}[pid]
wt = '/tmp/mut_' + pid + suf
base = open('/verif/docs/MUT_PROMPT.txt').read().format(wt=wt, title=p['title'], statement=p['statement'],
      qtext=p['quantifier']['text'], files=', '.join(p['anchors']['files']), pid=pid)
files = set(os.path.basename(f) for f in p['anchors']['files'])
prev = []
for d in sorted(glob.glob('/verif/seeded/*/')):
    patch = open(d + 'patch.diff').read()
    touched = set(os.path.basename(m) for m in re.findall(r'^\+\+\+ b/(\S+)', patch, re.M))
    if touched & files:
        prev.append('- ' + json.load(open(d + 'meta.json'))['summary'].strip())
print(base)
print("""
Format detail: the FIRST line of each demo.cpp must be `// build+run: <command>` where <command> builds and runs the demo when executed from the directory out/<i> (use absolute include paths), exiting 0 on success and non-zero (or hanging past 60 s) on failure. Use `timeout` around every test-suite or demo run that might hang; never use `pkill`/`killall` or `git stash` (other people work on this machine and the stash is shared between worktrees): kill only PIDs you started, and undo a change with `git checkout -- .` or `git apply -R`.

This is a %s round. The following changes were already produced by earlier rounds - do NOT repeat them or close variants. Look for genuinely different mechanisms: other methods / overloads / template instantiations of the anchored headers, interactions between two methods, rarely used API paths, type-trait or template-specialisation edits, exception paths, subtle lifetime issues, and changes whose trigger needs three or more steps:
%s""" % (rnd, '\n'.join(prev)))
