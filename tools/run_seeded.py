#!/usr/bin/env python3
"""Run the checks against every seeded breaking change in seeded/<id>/ (applied to a COPY of /repo's
gmlc tree, never to /repo itself) and print which check caught which change.
usage: tools/run_seeded.py [id ...]"""
import json, os, shutil, subprocess, sys, tempfile
ROOT = os.path.dirname(os.path.dirname(os.path.abspath(__file__)))
ids = sys.argv[1:] or sorted(d for d in os.listdir(os.path.join(ROOT, 'seeded')) if os.path.isdir(os.path.join(ROOT, 'seeded', d)))
rows = []
for sid in ids:
    d = os.path.join(ROOT, 'seeded', sid)
    meta = json.load(open(os.path.join(d, 'meta.json')))
    props = meta.get('checks') or [meta['property']]
    tmp = tempfile.mkdtemp(prefix='seeded_', dir='/var/tmp')
    try:
        subprocess.run('git -C /repo archive %s gmlc | tar -x -C %s' % (meta.get('base_commit', 'HEAD'), tmp), shell=True, check=True)
        r = subprocess.run(['git', 'apply', '--directory=' + os.path.relpath(tmp, '/'), '--unsafe-paths', os.path.join(d, 'patch.diff')], cwd='/', capture_output=True, text=True)
        if r.returncode != 0:
            r = subprocess.run(['patch', '-p1', '-d', tmp, '-i', os.path.join(d, 'patch.diff')], capture_output=True, text=True)
        if r.returncode != 0:
            rows.append((sid, '-', 'PATCH DOES NOT APPLY: ' + r.stderr[:200]))
            continue
        env = dict(os.environ, VERIF_REPO=tmp, VERIF_BUILD=os.path.join(tmp, 'build'), VERIF_OUT=os.path.join(tmp, 'out'))
        for pid in props:
            p = subprocess.run([os.path.join(ROOT, 'check'), pid], cwd=ROOT, env=env, capture_output=True, text=True)
            vio = [l for l in p.stdout.split('\n') if l.startswith('VIOLATION')]
            how = 'missed'
            if vio:
                how = 'no-failing-input-found' if all('no-failing-input-found' in v for v in vio) else 'concrete replay'
                rp = vio[0].split('replay=')[1].split()[0]
                try:
                    first = [l for l in open(rp) if l.startswith('#')][:2]
                    how += ' | ' + ' '.join(x.strip('# \n') for x in first)[:160]
                except OSError:
                    pass
            rows.append((sid, pid, 'exit %d: %s' % (p.returncode, how)))
    finally:
        shutil.rmtree(tmp, ignore_errors=True)
for r in rows:
    print('%-28s %-5s %s' % r)
