#!/bin/bash
# usage: store_seeded3.sh <PID>  -- third round: /tmp/mut_<PID>c/out/<i> -> seeded/<PID>-<i+6>
P=$1
for i in 1 2 3; do
  [ -f /tmp/mut_${P}c/out/$i/patch.diff ] || continue
  j=$((i+6))
  mkdir -p /verif/seeded/$P-$j
  cp /tmp/mut_${P}c/out/$i/patch.diff /tmp/mut_${P}c/out/$i/demo.cpp /verif/seeded/$P-$j/
  python3 - <<PY
import json
m=json.load(open('/tmp/mut_${P}c/out/$i/meta.json'))
m['round']=3
m['confirmed_by_coordinator']='test-suite rebuilt and run with the change: 100% passed; demo built and run without the change (exit 0) and with it (non-zero / hang)'
json.dump(m,open('/verif/seeded/$P-$j/meta.json','w'),indent=1)
PY
done
