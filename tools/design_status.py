#!/usr/bin/env python3
"""Rewrite the 'as proved' table of DESIGN.md (between the STATUS-TABLE markers) from props/*.json."""
import json, os, re
ROOT = os.path.dirname(os.path.dirname(os.path.abspath(__file__)))
props = {json.loads(l)['id']: json.loads(l) for l in open(os.path.join(ROOT, 'properties.jsonl'))}
out = []
for pid in sorted(props):
    sp = os.path.join(ROOT, 'props', pid + '.json')
    if not os.path.exists(sp):
        continue
    s = json.load(open(sp))
    closure = ''
    ev = os.path.join(ROOT, 'evidence', pid + '.json')
    lem = ''
    if os.path.exists(ev):
        try:
            e = json.load(open(ev))
            lem = ' (%d lemmas in the closure)' % e['coverage'].get('lemmas_in_closure', 0)
        except Exception:
            pass
    out.append('#### %s — %s\n' % (pid, props[pid]['title']))
    out.append('* components: %s; properties file `coq/%s`; %d theorems%s, all closed under the global context:\n  %s' %
               (', '.join('`%s`' % c for c in s['components']), s['properties_file'], len(s['theorems']), lem,
                ', '.join('`%s`' % t for t in s['theorems'])))
    out.append('* implementation-side monitors: %s' % ', '.join('`%s`' % m for m in s.get('monitors', [])))
    out.append('* carried only partially / modelled: %s\n' % (s.get('partial') or 'nothing beyond the common trusted base (section 7)'))
text = '\n'.join(out) + '\n'
p = os.path.join(ROOT, 'DESIGN.md')
d = open(p).read()
a, b = '<!-- STATUS-TABLE-BEGIN -->\n', '<!-- STATUS-TABLE-END -->\n'
d = d[:d.index(a) + len(a)] + text + d[d.index(b):]
open(p, 'w').write(d)
print('status table rewritten for %d properties' % (len(out) // 4))
