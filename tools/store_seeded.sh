#!/bin/bash
# usage: store_seeded.sh <PID>  -- copy confirmed changes from /tmp/mut_<PID>/out/<i> to seeded/<PID>-<i>
P=$1
for i in 1 2 3; do
  [ -f /tmp/mut_$P/out/$i/patch.diff ] || continue
  mkdir -p /verif/seeded/$P-$i
  cp /tmp/mut_$P/out/$i/patch.diff /tmp/mut_$P/out/$i/demo.cpp /verif/seeded/$P-$i/
  python3 - <<PY
import json
m=json.load(open('/tmp/mut_$P/out/$i/meta.json'))
m['confirmed_by_coordinator']='test-suite rebuilt and run with the change: 100% passed; demo built and run without the change (exit 0) and with it (non-zero / hang)'
json.dump(m,open('/verif/seeded/$P-$i/meta.json','w'),indent=1)
PY
done
