#!/usr/bin/env python3
import json, sys
pid = sys.argv[1]
p = {json.loads(l)['id']: json.loads(l) for l in open('/verif/properties.jsonl')}[pid]
print(open('/verif/docs/MUT_PROMPT.txt').read().format(wt='/tmp/mut_' + pid, title=p['title'], statement=p['statement'],
      qtext=p['quantifier']['text'], files=', '.join(p['anchors']['files']), pid=pid))
