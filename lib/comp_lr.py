"""lr_guarded: generator and implementation-side monitors (C03; lr parts of C14, C20, C07)."""
from events import K
import rng as R

NAME = 'lr'
DRIVER = 'harness/lr_drv.cpp'
EXTRACT = 'Extract/LRExtract.v'
ML = 'lr_model'
SANITIZE = False
ENUM = True

MODIFY, LOCK, TRY, TRY_FOR, TRY_UNTIL, READ, RELEASE = 0, 1, 2, 3, 4, 5, 6
LOCKS = (LOCK, TRY, TRY_FOR, TRY_UNTIL)
# own steps of the operations (for boundary-aimed schedules)
MODIFY_STEPS = 21   # invoke lock ldr | call rb re wb we call2 | str ldc d1 stc d2 | call rb re wb we call2 | unlock
LOCK_STEPS = 4      # invoke ldc inc ldr


def _reader_session(rng, ns, nreads_max=3):
    """lock into a free slot, read a few times, release; possibly nested with a second handle"""
    s = rng.below(ns)
    ops = [[rng.weighted([(5, LOCK), (1, TRY), (1, TRY_FOR), (1, TRY_UNTIL)]), s]]
    for _ in range(rng.range(0, nreads_max)):
        ops.append([READ, s])
    if rng.chance(1, 4):
        # "refresh" the held handle: release (flag 1) immediately followed by lock_shared into the same slot
        ops += [[RELEASE, s, 1], [LOCK, s], [READ, s]]
    if ns > 1 and rng.chance(1, 3):
        s2 = (s + 1 + rng.below(ns - 1)) % ns
        ops.append([LOCK, s2])
        for _ in range(rng.range(1, 2)):
            ops.append([READ, rng.pick([s, s2])])
        if rng.chance(1, 2):
            ops += [[RELEASE, s], [READ, s2], [RELEASE, s2]]
        else:
            ops += [[RELEASE, s2], [READ, s], [RELEASE, s]]
    else:
        # a quarter of the final releases run on a different OS thread than the acquisition (flag 2)
        ops.append([RELEASE, s, 2] if rng.chance(1, 4) else [RELEASE, s])
    return ops


def gen(rng, tier, spec):
    nt = rng.weighted([(1, 1), (5, 2), (6, 3), (3, 4)])
    ns = rng.range(1, 3)
    edge = rng.below(20)          # 0: handle kept for ever, 1: ops on slots in the wrong state
    fids = [1, 2, 3, 4, 5, 6, 7]
    for i in range(6, 0, -1):
        j = rng.below(i + 1)
        fids[i], fids[j] = fids[j], fids[i]
    progs, nmod = [], 0
    for t in range(nt):
        role = rng.weighted([(4, 'w'), (6, 'r'), (3, 'm')]) if nt > 1 else 'm'
        if t == 0 and nt > 1:
            role = 'w' if rng.chance(2, 3) else 'm'
        if t == 1:
            role = 'r' if rng.chance(3, 4) else 'm'
        p = []
        for _ in range(rng.range(1, 3)):
            if role == 'w' or (role == 'm' and rng.chance(1, 2)):
                if nmod < 7:
                    # a third of the modifies pass a value-category aware rvalue functor (flag 1)
                    # flag 2: the modify is issued from a destructor while an unrelated exception unwinds
                    fl = rng.weighted([(3, 0), (2, 1), (1, 2), (2, 3)])   # 3: the functor returns a value (0 for even fids)
                    p.append([MODIFY, fids[nmod], fl] if fl else [MODIFY, fids[nmod]])
                    nmod += 1
            else:
                p += _reader_session(rng, ns)
        if not p:
            p = _reader_session(rng, ns)
        progs.append(p)
    if edge == 0:
        # a handle that is never released (the writer then spins in a drain loop: verdict fuel);
        # sometimes the thread that holds it calls modify itself
        t = rng.below(nt)
        keep = [[LOCK, 0]] + ([[READ, 0]] if rng.chance(1, 2) else [])
        if rng.chance(1, 3) and nmod < 7:
            keep.append([MODIFY, fids[nmod]])
            nmod += 1
        progs[t] = (progs[t] if rng.chance(1, 2) else []) + keep
    elif edge == 1:
        # operations on slots in the wrong state / out of range: refused by the harness
        t = rng.below(nt)
        extra = [rng.pick([[READ, 0], [RELEASE, 0], [LOCK, ns], [READ, ns + 1], [LOCK, 0], [LOCK, 0], [RELEASE, 0], [RELEASE, 0]])
                 for _ in range(rng.range(1, 4))]
        if any(o[0] in LOCKS for o in extra):
            extra.append([RELEASE, 0])
        progs[t] = extra + progs[t] if rng.chance(1, 2) else progs[t] + extra
    plan = []
    if nmod and rng.chance(2, 5):
        for _ in range(rng.range(1, 2)):
            k = rng.below(4 * nmod)
            if k not in plan:
                plan.append(k)
    cw = ((20, 0), (1, 1), (1, 2), (1, 3))
    writers = [t for t, p in enumerate(progs) if any(o[0] == MODIFY for o in p)]
    readers = [t for t, p in enumerate(progs) if any(o[0] in LOCKS for o in p)]
    kind = rng.below(8)
    if kind <= 1 and writers and readers:
        # boundary-aimed: stop a writer at each pc of modify, let a reader run into / through its session, resume
        w, r = rng.pick(writers), rng.pick(readers)
        sched = [(w, 0)] * rng.range(1, MODIFY_STEPS + 2) + [(r, 0)] * rng.range(1, 12)
        sched += [(w, 0)] * rng.range(0, 12) + [(r, 0)] * rng.range(0, 8)
        sched += R.sched_random(rng, nt, rng.range(0, 40), cw)
    elif kind == 2 and writers and readers:
        # boundary-aimed: stop a reader inside lock_shared (after the counter-flag load / after the increment),
        # run a writer (possibly a whole modify, or two), resume the reader
        w, r = rng.pick(writers), rng.pick(readers)
        sched = [(r, 0)] * rng.range(1, LOCK_STEPS + 3) + [(w, 0)] * rng.range(1, 2 * MODIFY_STEPS + 4)
        sched += [(r, 0)] * rng.range(1, 10) + [(w, 0)] * rng.range(0, 25)
        sched += R.sched_random(rng, nt, rng.range(0, 30), cw)
    elif kind == 3:
        sched = R.sched_runs(rng, nt, rng.range(0, 140), 12, cw)
    else:
        sched = R.any_sched(rng, nt, 140, cw)
    # construction / mutex flavours (negative cfg entries: ignored by the throw plan and by the model)
    flags = []
    if rng.chance(1, 3):
        flags.append(-1)          # built from an rvalue payload with a destructive move
    if rng.chance(1, 4):
        flags.append(-4)          # Mutex = a mutex type with an overloaded lock()
    if rng.chance(1, 3):
        flags.append(-3)          # payload copy assignment throws part-way outside exception handlers
    if rng.chance(1, 3):
        flags.append(-2)          # Mutex = std::timed_mutex; then mostly the timed shared forms
        for p in progs:
            for o in p:
                if o[0] in LOCKS and rng.chance(2, 3):
                    o[0] = rng.pick([TRY_FOR, TRY_UNTIL])
    return {'cfg': [ns] + plan + flags, 'progs': progs, 'sched': sched}


def gen_small(rng, spec):
    """small programs for the exhaustive enumeration: one or two writers against one reader session"""
    shape = rng.below(5)
    f, g = rng.range(1, 7), rng.range(1, 7)
    lock = rng.pick([LOCK, LOCK, TRY, TRY_FOR, TRY_UNTIL])
    if shape == 0:
        progs = [[[MODIFY, f]], [[lock, 0], [READ, 0], [RELEASE, 0]]]
    elif shape == 1:
        progs = [[[MODIFY, f]], [[lock, 0], [RELEASE, 0], [LOCK, 0], [READ, 0], [RELEASE, 0]]]
    elif shape == 2:
        progs = [[[MODIFY, f]], [[MODIFY, g]], [[lock, 0], [READ, 0], [RELEASE, 0]]]
    elif shape == 3:
        progs = [[[MODIFY, f, 1], [MODIFY, g]], [[lock, 0], [READ, 0], [RELEASE, 0]]]
    else:
        progs = [[[MODIFY, f]], [[lock, 0], [LOCK, 1], [READ, 0], [READ, 1], [RELEASE, 0], [RELEASE, 1]]]
    nmod = sum(1 for p in progs for o in p if o[0] == MODIFY)
    plan = [rng.below(4 * nmod)] if rng.chance(1, 3) else []
    flags = ([-1] if rng.chance(1, 3) else []) + ([-2] if lock in (TRY_FOR, TRY_UNTIL) else [])
    if rng.chance(1, 4):
        progs[0][0] = [MODIFY, f, 2]
    return {'cfg': [2] + plan + flags, 'progs': progs, 'sched': []}


# ---------------------------------------------------------------------------- monitors

def _events(lines):
    for i, l in enumerate(lines):
        if len(l) == 5 and l[0] >= 0:
            yield i, l[0], l[1], l[2], l[3]


def _verdict(lines):
    for l in lines:
        if len(l) >= 2 and l[0] == -1:
            return l[1]
    return 3


def _final(lines):
    for l in lines:
        if len(l) >= 1 and l[0] == -2:
            return l[1:]
    return None


def _enc(fs):
    v = 0
    for f in fs:
        v = v * 8 + f
    return v


def _digits(v):
    out = []
    while v > 0:
        out.append(v % 8)
        v //= 8
    return out[::-1]


def _is_prefix(a, b):
    da, db = _digits(a), _digits(b)
    return len(da) <= len(db) and db[:len(da)] == da


class _Ops:
    """splits the trace into operations: per thread the running op (code, arg, invoke line, events so far)"""

    def __init__(self, case):
        self.case = case
        self.idx = {}      # tid -> index of the running op in its program
        self.cur = {}      # tid -> dict

    def feed(self, i, t, k, o, v):
        """returns the finished op record when this event is its RET/CATCH, else None"""
        if k == K['INVOKE']:
            n = self.idx.get(t, -1) + 1
            self.idx[t] = n
            prog = self.case['progs'][t] if t < len(self.case['progs']) else []
            arg = prog[n][1] if n < len(prog) and len(prog[n]) > 1 else 0
            self.cur[t] = {'tid': t, 'code': v, 'arg': arg, 'inv': i, 'evs': []}
            return None
        c = self.cur.get(t)
        if c is None:
            return None
        c['evs'].append((i, k, o, v))
        if k in (K['RET'], K['CATCH']):
            c['end'] = i
            c['ret'] = v if k == K['RET'] else None
            c['threw'] = k == K['CATCH']
            del self.cur[t]
            return c
        return None


def mon_fault(case, lines):
    """a VPay access window overlapped a write window (or read a half-written value)"""
    for i, t, k, o, v in _events(lines):
        if k == K['FAULT']:
            what = {1: 'write window opened while a read window is open', 2: 'read window opened while a write window is open',
                    3: 'two write windows open', 4: 'read of a half-written value'}.get(v, 'fault %d' % v)
            return 'thread %d at trace line %d: %s on copy obj%d' % (t, i, what, o)
    f = _final(lines)
    if f and len(f) >= 7 and f[6] != 0:
        return 'payload fault counter = %d' % f[6]
    return None


def mon_handle_untouched(case, lines):
    """while a shared handle is held, no write window is opened on the copy it reads"""
    ops = _Ops(case)
    held = {}      # (tid, slot) -> {'from': line, 'objs': set}
    writes = []    # (line, obj, tid) of WR_BEGIN / WR_END
    spans = []     # finished holds: (from, to, objs, tid)
    for i, t, k, o, v in _events(lines):
        if k in (K['WR_BEGIN'], K['WR_END']):
            writes.append((i, o, t))
        cur = ops.cur.get(t)
        if cur and cur['code'] == READ and k in (K['RD_BEGIN'], K['RD_END']) and (t, cur['arg']) in held:
            held[(t, cur['arg'])]['objs'].add(o)
        if k == K['INVOKE'] and v == RELEASE:
            ops.feed(i, t, k, o, v)
            key = (t, ops.cur[t]['arg'])
            if key in held:
                h = held.pop(key)
                spans.append((h['from'], i, h['objs'], t))
            continue
        done = ops.feed(i, t, k, o, v)
        if done and done['code'] in LOCKS and done['ret'] == 0:
            held[(t, done['arg'])] = {'from': i, 'objs': set()}
    for key, h in held.items():
        spans.append((h['from'], len(lines), h['objs'], key[0]))
    for a, b, objs, t in spans:
        for i, o, w in writes:
            if a < i < b and o in objs:
                return 'thread %d held a handle on copy obj%d from line %d to %d; thread %d wrote it at line %d' % (t, o, a, b, w, i)
    return None


def mon_reads_monotone(case, lines):
    """values read through one handle never change; a handle taken later never shows an older state;
       all observed values are states of one sequence"""
    ops = _Ops(case)
    acq = {}       # (tid, slot) -> acquisition line
    seen = {}      # tid -> [(acq line, value, read line)]
    allv = []
    for i, t, k, o, v in _events(lines):
        done = ops.feed(i, t, k, o, v)
        if not done:
            continue
        if done['code'] in LOCKS and done['ret'] == 0:
            acq[(t, done['arg'])] = i
        elif done['code'] == READ and done['ret'] is not None and done['ret'] >= 0:
            a = acq.get((t, done['arg']), -1)
            val = done['ret']
            for a2, v2, i2 in seen.get(t, []):
                if a2 == a and v2 != val:
                    return 'thread %d read %o then %o (octal logs) through the same handle (lines %d, %d)' % (t, v2, val, i2, i)
                if a2 < a and not _is_prefix(v2, val):
                    return 'thread %d read %o (line %d), then took a new handle and read %o (line %d): going backwards' % (t, v2, i2, val, i)
            seen.setdefault(t, []).append((a, val, i))
            for v2, i2 in allv:
                if not (_is_prefix(v2, val) or _is_prefix(val, v2)):
                    return 'values %o (line %d) and %o (line %d) are not states of one sequence of modifications' % (v2, i2, val, i)
            allv.append((val, i))
    return None


def mon_read_after_modify(case, lines):
    """a lock_shared invoked after modify(f) returned reads a state that contains f and everything before it"""
    ops = _Ops(case)
    returned = []          # fids of modifies that returned normally, in order
    need = {}              # (tid, slot) -> list of fids returned before the lock_shared was invoked
    for i, t, k, o, v in _events(lines):
        if k == K['INVOKE'] and v in LOCKS:
            ops.feed(i, t, k, o, v)
            need[(t, ops.cur[t]['arg'], 'pending')] = list(returned)
            continue
        done = ops.feed(i, t, k, o, v)
        if not done:
            continue
        if done['code'] == MODIFY and not done['threw']:
            returned.append(done['arg'])
        elif done['code'] in LOCKS:
            pend = need.pop((t, done['arg'], 'pending'), None)
            if done['ret'] == 0 and pend is not None:
                need[(t, done['arg'])] = pend
        elif done['code'] == READ and done['ret'] is not None and done['ret'] >= 0:
            want = need.get((t, done['arg']))
            if want is None:
                continue
            ds = _digits(done['ret'])
            j = 0
            for f in want:
                while j < len(ds) and ds[j] != f:
                    j += 1
                if j == len(ds):
                    return ('thread %d took its handle (slot %d) after modify(%d) had returned, but read %o (line %d), '
                            'which does not contain it' % (t, done['arg'], f, done['ret'], i))
                j += 1
    return None


def mon_serial(case, lines):
    """every modify leaves the copy it wrote last equal to the sequence of modifications that took effect
       (in the order of their readingLeft flips = write-mutex order): unchanged when the first application
       throws, completed when the second throws; at the end both copies equal that sequence"""
    ops = _Ops(case)
    eff = []
    for i, t, k, o, v in _events(lines):
        cur = ops.cur.get(t)
        if cur and cur['code'] == MODIFY and k == K['LOCK']:
            cur['base'] = list(eff)
        if cur and cur['code'] == MODIFY and k == K['WR_END'] and 'base' in cur:
            if v not in (_enc(cur['base']), _enc(cur['base'] + [cur['arg']])):
                return ('modify(%d) of thread %d wrote %o to a copy (line %d); the state it found is %o, so only %o or %o '
                        'are possible: the two copies had diverged' % (cur['arg'], t, v, i, _enc(cur['base']), _enc(cur['base']),
                                                                       _enc(cur['base'] + [cur['arg']])))
        if cur and cur['code'] == MODIFY and k == K['STORE'] and not cur.get('flipped'):
            cur['flipped'] = True
            eff.append(cur['arg'])
        done = ops.feed(i, t, k, o, v)
        if done and done['code'] == MODIFY:
            wr = [e for e in done['evs'] if e[1] == K['WR_END']]
            if wr and wr[-1][3] != _enc(eff):
                return ('modify(%d) of thread %d left (line %d, %s) the copy it wrote last at %o; the modifications '
                        'that took effect are %o' % (done['arg'], t, i, 'exception' if done['threw'] else 'return', wr[-1][3], _enc(eff)))
            if not done['threw'] and not done.get('flipped'):
                return 'modify(%d) of thread %d returned without flipping readingLeft' % (done['arg'], t)
    f = _final(lines)
    if _verdict(lines) == 0 and f and len(f) >= 2:
        if f[0] != f[1]:
            return 'final state: left = %o, right = %o differ' % (f[0], f[1])
        if f[0] != _enc(eff):
            return 'final state %o is not the sequence of modifications in write-mutex order %o' % (f[0], _enc(eff))
        if len(f) >= 6 and (f[4] != 0 or f[5] != 0):
            held = _outstanding(case, lines)
            if f[4] + f[5] != held:
                return 'final reader counters %d/%d but %d handles are held' % (f[4], f[5], held)
    return None


def mon_reader_mutex(case, lines):
    """no reader operation performs a mutex operation or yields / sleeps (C14)"""
    ops = _Ops(case)
    for i, t, k, o, v in _events(lines):
        cur = ops.cur.get(t)
        if cur and cur['code'] != MODIFY and (K['LOCK'] <= k <= K['TRYLOCK_SH_FOR'] or k in (K['YIELD'], K['SLEEP'], K['CV_SLEEP'])):
            return 'reader operation %d of thread %d performed a blocking operation (kind %d) at line %d' % (cur['code'], t, k, i)
        ops.feed(i, t, k, o, v)
    return None


def mon_lock_shared_steps(case, lines):
    """a read acquisition is a fixed, small number of own atomic operations (wait-free) and always returns a handle"""
    ops = _Ops(case)
    for i, t, k, o, v in _events(lines):
        done = ops.feed(i, t, k, o, v)
        if done and done['code'] in LOCKS and done['ret'] == 0:
            kinds = [e[1] for e in done['evs'][:-1]]
            if len(kinds) > 4 or any(not (K['LOAD'] <= x <= K['XCHG']) for x in kinds):
                return 'lock_shared of thread %d (line %d) performed %s: not a short sequence of atomic operations' % (t, i, kinds)
    return None


def _outstanding(case, lines):
    ops = _Ops(case)
    n = 0
    for i, t, k, o, v in _events(lines):
        done = ops.feed(i, t, k, o, v)
        if done and done['ret'] == 0:
            if done['code'] in LOCKS:
                n += 1
            elif done['code'] == RELEASE:
                n -= 1
    return n


def mon_progress(case, lines):
    """never a deadlock; the run ends unless a handle is held for ever (then a writer may spin in a drain loop)"""
    v = _verdict(lines)
    if v == 1:
        return 'deadlock: nothing is enabled although some thread has not finished'
    if v == 2 and _outstanding(case, lines) <= 0:
        return 'the run did not terminate within the fuel bound although every handle was released'
    return None


def mon_exn_lock(case, lines):
    """a modify that leaves by exception unlocks the write mutex (exactly one lock and one unlock per modify)"""
    ops = _Ops(case)
    for i, t, k, o, v in _events(lines):
        done = ops.feed(i, t, k, o, v)
        if done and done['code'] == MODIFY:
            nl = sum(1 for e in done['evs'] if e[1] == K['LOCK'])
            nu = sum(1 for e in done['evs'] if e[1] == K['UNLOCK'])
            if nl != 1 or nu != 1:
                return 'modify(%d) of thread %d (%s, line %d): %d lock / %d unlock operations' % (
                    done['arg'], t, 'exception' if done['threw'] else 'return', i, nl, nu)
    return None


def mon_seq_cst(case, lines):
    """every atomic operation of the library is seq_cst (C07 layer 2)"""
    for i, l in enumerate(lines):
        if len(l) == 5 and l[0] >= 0 and K['LOAD'] <= l[1] <= K['XCHG'] and l[4] != 5:
            return 'atomic operation (kind %d) on obj%d at line %d has memory order %d, not seq_cst' % (l[1], l[2], i, l[4])
    return None


def mon_new_reader_delays_writer(case, lines):
    """C14: a reader that starts while the writer already drains counter k must register in the other counter"""
    import lrmon
    return lrmon.new_reader_delays_writer(lines, LOCKS, (MODIFY,))


MONITORS = {'new_reader_delays_writer': mon_new_reader_delays_writer, 'fault': mon_fault, 'handle_untouched': mon_handle_untouched, 'reads_monotone': mon_reads_monotone,
            'read_after_modify': mon_read_after_modify, 'serial': mon_serial, 'reader_mutex': mon_reader_mutex,
            'lock_shared_steps': mon_lock_shared_steps, 'progress': mon_progress, 'exn_lock': mon_exn_lock,
            'seq_cst': mon_seq_cst}
