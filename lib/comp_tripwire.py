"""TripWire: generator and implementation-side monitors (C19).

cfg = [COUNT of indexed lines (3, fixed in the driver), explicit lines, data, disciplined?]
cfg[3] = 1 marks a generated/hand-written *publication* case: thread 0 is the only thread that attaches
triggers to the published line and the only writer of datum 0, it does not write after its first trigger
destruction, and the other threads touch datum 0 only through op 12 (read if the detector reports tripped).
The model ignores cfg[3]; the `publication` monitor uses it.
cfg[4] = 1 asks the driver for a process in which no static line has been used yet (first-use cases, see the driver).
"""
from events import K
import rng as R

NAME = 'tripwire'
DRIVER = 'harness/tripwire_drv.cpp'
EXTRACT = 'Extract/TripWireExtract.v'
ML = 'tripwire_model'
SANITIZE = True   # memory safety (moved-from destructor, at(index)) is part of C19
ENUM = True

COUNT = 3
(MK_E, MK_D, MK_I, MOVE_C, MOVE_A, DESTROY, DET_E, DET_D, DET_I, IS_TRIPPED, WRITE, READ, POLL_READ,
 RELEASE, SDET_E, SDET_D, SDET_I, S_IS_TRIPPED, S_POLL_READ) = range(19)
POLL_OPS = (IS_TRIPPED, POLL_READ, S_IS_TRIPPED, S_POLL_READ)
MO_RELAXED, MO_CONSUME, MO_ACQUIRE, MO_RELEASE, MO_ACQ_REL, MO_SEQ_CST = range(6)

CW = ((14, 0), (1, 1), (1, 3))   # choices are ignored by this component (no blocking, no weak CAS)


def _mk(kind, slot, spec):
    """spec = ('E', l) | ('D',) | ('I', i); kind = 'T' trigger / 'D' detector"""
    base = {'T': MK_E, 'D': DET_E, 'S': SDET_E}[kind]
    if spec[0] == 'E':
        return [base, slot, spec[1]]
    if spec[0] == 'D':
        return [base + 1, slot]
    return [base + 2, slot, spec[1]]


def _line_specs(nexp, with_bad=False):
    out = [('D',)] + [('I', i) for i in range(COUNT)] + [('E', l) for l in range(nexp)]
    if with_bad:
        # 100..103: selectors for UINT_MAX, 0x80000000, 0x80000002, COUNT + 2^31 (see the driver)
        out += [('I', COUNT), ('I', COUNT + 2), ('E', nexp), ('I', 100), ('I', 101), ('I', 102), ('I', 103)]
    return out


def _random_prog(rng, nexp, ndata, n):
    """mostly valid operations on slots 0..2, tracking which slots are occupied"""
    trig, det = set(), set()
    prog = []
    for _ in range(n):
        k = rng.weighted([(5, 'mk'), (3, 'movec'), (3, 'movea'), (6, 'destroy'), (4, 'det'), (7, 'poll'),
                          (2, 'data'), (2, 'wild'), (2, 'release'), (2, 'sdet'), (4, 'spoll')])
        free_t = [s for s in range(3) if s not in trig]
        free_d = [s for s in range(3) if s not in det]
        if k == 'mk' and free_t:
            s = rng.pick(free_t)
            spec = rng.pick(_line_specs(nexp, rng.chance(1, 4)))
            prog.append(_mk('T', s, spec))
            if not (spec[0] == 'I' and spec[1] >= COUNT) and not (spec[0] == 'E' and spec[1] >= nexp):
                trig.add(s)
        elif k == 'movec' and trig and free_t:
            s, d = rng.pick(sorted(trig)), rng.pick(free_t)
            prog.append([MOVE_C, s, d])
            trig.add(d)
        elif k == 'movea' and len(trig) >= 2:
            s = rng.pick(sorted(trig))
            d = rng.pick(sorted(trig - {s}))
            prog.append([MOVE_A, s, d])
        elif k == 'destroy' and trig:
            s = rng.pick(sorted(trig))
            prog.append([DESTROY, s])
            trig.discard(s)
        elif k == 'det' and free_d:
            s = rng.pick(free_d)
            spec = rng.pick(_line_specs(nexp, rng.chance(1, 5)))
            prog.append(_mk('D', s, spec))
            if not (spec[0] == 'I' and spec[1] >= COUNT) and not (spec[0] == 'E' and spec[1] >= nexp):
                det.add(s)
        elif k == 'poll' and det:
            s = rng.pick(sorted(det))
            if ndata and rng.chance(1, 3):
                prog.append([POLL_READ, s, rng.below(ndata)])
            else:
                prog.append([IS_TRIPPED, s])
        elif k == 'release' and nexp:
            prog.append([RELEASE, rng.below(nexp)])
        elif k == 'sdet':
            prog.append(_mk('S', rng.below(2), rng.pick(_line_specs(nexp, rng.chance(1, 6)))))
        elif k == 'spoll':
            if ndata and rng.chance(1, 3):
                prog.append([S_POLL_READ, rng.below(2), rng.below(ndata)])
            else:
                prog.append([S_IS_TRIPPED, rng.below(2)])
        elif k == 'data' and ndata:
            d = rng.below(ndata)
            prog.append([WRITE, d, rng.range(1, 9)] if rng.chance(1, 2) else [READ, d])
        else:
            # operations the harness refuses (or that are harmless): exercise the -1 paths
            prog.append(rng.pick([[DESTROY, rng.below(4)], [MOVE_C, rng.below(3), rng.below(3)], [MOVE_A, rng.below(3), rng.below(3)],
                                  [IS_TRIPPED, rng.below(4)], [MK_D, rng.below(3)], [READ, ndata], [POLL_READ, rng.below(3), 0]]))
            # keep the slot book-keeping exact for the harmless-but-effective ones
            o = prog[-1]
            if o[0] == DESTROY:
                trig.discard(o[1])
            elif o[0] == MK_D and o[1] not in trig:
                trig.add(o[1])
            elif o[0] == MOVE_C and o[1] in trig and o[2] not in trig and o[1] != o[2]:
                trig.add(o[2])
    return prog


def _publication(rng, nt, nexp, X=None):
    """thread 0 publishes datum 0 through line X; the others poll X and read when tripped"""
    specs = _line_specs(nexp)
    X = X or rng.pick(specs)
    others = [s for s in specs if s != X]
    val = 0
    p = [_mk('T', 0, X)]
    for _ in range(rng.range(1, 2)):
        val = rng.range(1, 9)
        p.append([WRITE, 0, val])
    if rng.chance(1, 3):
        p.append([READ, 0])
    shape = rng.below(5)
    if shape == 0:
        p.append([DESTROY, 0])
    elif shape == 1:                       # move-construct; the moved-from object dies first or last
        p.append([MOVE_C, 0, 1])
        p += rng.pick([[[DESTROY, 0], [DESTROY, 1]], [[DESTROY, 1], [DESTROY, 0]]])
    elif shape == 2:                       # move-assign over a trigger of another line (whose duty is dropped)
        p += [_mk('T', 2, rng.pick(others)), [MOVE_A, 0, 2], [DESTROY, 2], [DESTROY, 0]]
    elif shape == 3:                       # two triggers of the same thread on X
        p += [_mk('T', 1, X), [DESTROY, 1], [DESTROY, 0]]
    else:
        p += [[MOVE_C, 0, 1], [MOVE_C, 1, 2], [DESTROY, 2]]
    if rng.chance(1, 2):
        p.append([READ, 0])
    progs = [p]
    shared = rng.chance(1, 2)      # one detector object, created by thread 1 (or whoever comes first), polled by all readers
    for t in range(1, nt):
        if shared:
            q = [_mk('S', 0, X)] if (t == 1 or rng.chance(1, 3)) else []
        else:
            q = [_mk('D', 0, X)]
        if rng.chance(1, 3):
            Y = rng.pick(others)
            q += [_mk('T', 0, Y)]
        for _ in range(rng.range(1, 4)):
            if shared:
                q.append(rng.weighted([(5, [S_POLL_READ, 0, 0]), (2, [S_IS_TRIPPED, 0])]))
            else:
                q.append(rng.weighted([(5, [POLL_READ, 0, 0]), (2, [IS_TRIPPED, 0])]))
        if any(o[0] in (MK_E, MK_D, MK_I) for o in q) and rng.chance(1, 2):
            q.append([DESTROY, 0])
        progs.append(q)
    return progs


def _outlives(rng, nt, nexp):
    """a detector outlives every other owner of an explicit line: detector on l, trigger on l, the harness drops its
    own reference (as a client that moved its handle into the trigger), the trigger is destroyed (trips the line and
    gives up the last non-detector reference), the detector is polled - by its creator and, when shared, by others"""
    l = rng.below(nexp)
    shared = nt > 1 and rng.chance(2, 3)
    mkdet = _mk('S' if shared else 'D', 0, ('E', l))
    poll = [S_IS_TRIPPED, 0] if shared else [IS_TRIPPED, 0]
    a = [mkdet, [MK_E, 0, l]]
    if rng.chance(1, 3):
        a.append(poll)
    if rng.chance(1, 3):
        a += [[MOVE_C, 0, 1], [RELEASE, l], rng.pick([[DESTROY, 0], [DESTROY, 1]]), [DESTROY, rng.below(2)]]
    else:
        a += [[RELEASE, l], [DESTROY, 0]]
    a += [poll] * rng.range(1, 2)
    if rng.chance(1, 3):
        a.append([MK_E, 2, l])          # refused: the harness no longer has the line
    progs = [a]
    for _ in range(1, nt):
        q = []
        if not shared:
            q.append(_mk('D', 0, ('E', l)))
        for _ in range(rng.range(1, 3)):
            q.append(poll)
        if rng.chance(1, 4):
            q.append([RELEASE, l])
        progs.append(q)
    return progs


def _rearm(rng, nt, nexp):
    """a trigger object that was moved FROM is given a live trigger again by move assignment and must then carry that
    trigger's duty: (1) move X away, (2) move-assign a live trigger Z into X, (3) destroy X -> Z's line trips.
    Detectors on Z's line (own and shared) poll before and after; the other lines must stay as they are."""
    specs = _line_specs(nexp)
    A = rng.pick(specs)
    B = rng.pick([s for s in specs if s != A])
    C = rng.pick(specs)
    X, Y, Z = 0, 1, 2
    a = [_mk('T', X, A)]
    if rng.chance(1, 2):
        a.append([MOVE_C, X, Y])                           # (1) by move construction
    else:
        a += [_mk('T', Y, C), [MOVE_A, X, Y]]              # (1) by move assignment
    a += [_mk('T', Z, B), [MOVE_A, Z, X]]                  # (2)
    if rng.chance(1, 3):
        a.append([DESTROY, Z])                             # the moved-from Z trips nothing
    a.append([DESTROY, X])                                 # (3) must trip B
    a += rng.pick([[], [[DESTROY, Y]], [[DESTROY, Y], [DESTROY, Z]]])
    progs = [a]
    for t in range(1, nt):
        shared = rng.chance(1, 3)
        q = [_mk('S' if shared else 'D', 0, B)]
        if rng.chance(1, 2):
            q.append(_mk('D', 1, A))
        for _ in range(rng.range(2, 4)):
            q.append([S_IS_TRIPPED, 0] if shared else [IS_TRIPPED, 0])
            if len(q) > 2 and q[1][0] in (DET_E, DET_D, DET_I) and rng.chance(1, 3):
                q.append([IS_TRIPPED, 1])
        progs.append(q)
    return progs


def gen(rng, tier, spec):
    nexp = rng.range(0, 3)
    mode = rng.below(10)
    if mode == 6 and rng.chance(2, 3):
        nt = rng.weighted([(2, 1), (5, 2), (3, 3)])
        progs = _rearm(rng, nt, nexp)
        if rng.chance(1, 2):
            sched = R.sched_boundary(rng, nt, 0, rng.range(3, 12), rng.range(0, 40), CW)
        else:
            sched = R.any_sched(rng, nt, 60, CW)
        return {'cfg': [COUNT, nexp, 0, 0], 'progs': progs, 'sched': sched}
    if mode == 5 and rng.chance(4, 5):
        # first use of an indexed line: the trigger thread and the detector thread(s) construct their objects on an
        # index that nobody has touched in this process, in any interleaving (fresh process: cfg[4] = 1)
        nt = rng.weighted([(5, 2), (4, 3)])
        progs = _publication(rng, nt, nexp, ('I', rng.below(COUNT)))
        head = R.sched_random(rng, nt, rng.range(2, 10), CW)
        return {'cfg': [COUNT, nexp, 1, 1, 1], 'progs': progs, 'sched': head + R.any_sched(rng, nt, 40, CW)}
    if mode == 4:
        nexp = max(nexp, 1)
        nt = rng.weighted([(3, 1), (5, 2), (3, 3)])
        progs = _outlives(rng, nt, nexp)
        kind = rng.below(3)
        if kind == 0:
            sched = R.sched_boundary(rng, nt, 0, rng.range(4, 12), rng.range(0, 30), CW)
        else:
            sched = R.any_sched(rng, nt, 50, CW)
        return {'cfg': [COUNT, nexp, 0, 0], 'progs': progs, 'sched': sched}
    if mode < 4:
        nt = rng.weighted([(4, 2), (4, 3), (2, 4)])
        progs = _publication(rng, nt, nexp)
        cfg = [COUNT, nexp, 1, 1]
        kind = rng.below(3)
        if kind == 0:
            # boundary-aimed: stop the publisher between its last write and the store, or just after it
            sched = R.sched_boundary(rng, nt, 0, rng.range(2, 14), rng.range(0, 40), CW)
        elif kind == 1:
            # readers first (they must see false), then the publisher, then readers again
            first = R.sched_random(rng, nt - 1, rng.range(0, 12), CW)
            sched = [(t + 1, c) for t, c in first] + R.sched_boundary(rng, nt, 0, rng.range(0, 14), rng.range(0, 30), CW)
        else:
            sched = R.any_sched(rng, nt, 60, CW)
        return {'cfg': cfg, 'progs': progs, 'sched': sched}
    nt = rng.weighted([(1, 1), (5, 2), (5, 3), (2, 4)])
    ndata = rng.range(0, 2)
    progs = [_random_prog(rng, nexp, ndata, rng.range(1, 7)) for _ in range(nt)]
    return {'cfg': [COUNT, nexp, ndata, 0], 'progs': progs, 'sched': R.any_sched(rng, nt, 70, CW)}


# ----------------------------------------------------------------------------- monitors

def _ops(lines):
    """yield (first line index, tid, opcode, [event lines of the operation], ret) per completed or cut-off operation;
    ret = ('ret', v) | ('catch', v) | None"""
    cur = {}
    for i, l in enumerate(lines):
        if len(l) != 5 or l[0] < 0:
            continue
        t, k, o, v, m = l
        if k == K['INVOKE']:
            if t in cur:
                yield cur[t] + (None,)
            cur[t] = (i, t, v, [])
        elif t in cur:
            if k == K['RET'] or k == K['CATCH']:
                yield cur.pop(t) + (('ret' if k == K['RET'] else 'catch', v),)
            else:
                cur[t][3].append((i, l))
    for t in sorted(cur):
        yield cur[t] + (None,)


def _events(lines):
    for i, l in enumerate(lines):
        if len(l) == 5 and l[0] >= 0:
            yield i, l


def mon_true_before_trip(case, lines):
    """a detector reports true although no trigger attached to that line has been destroyed:
    a load of value 1 (or isTripped returning 1) on a line object before any store on it"""
    stored = set()
    pending = {}
    for i, (t, k, o, v, m) in _events(lines):
        if k == K['STORE']:
            stored.add(o)
        elif k == K['LOAD']:
            pending[t] = o
            if v != 0 and o not in stored:
                return 'thread %d loaded true from line obj%d at trace line %d before any trigger of that line was destroyed' % (t, o, i)
        elif k == K['INVOKE']:
            pending.pop(t, None)
            pending[('op', t)] = v
        elif k == K['RET'] and pending.get(('op', t)) in (IS_TRIPPED, S_IS_TRIPPED) and t in pending:
            if v == 1 and pending[t] not in stored:
                return 'isTripped of thread %d returned true at trace line %d before any trigger of line obj%d was destroyed' % (t, i, pending[t])
    return None


def mon_untripped(case, lines):
    """one-way: once a line has been stored to (or has been seen true) every later load / isTripped on it, in every
    thread, gives true (the harness executes sequentially consistent interleavings); no store writes false"""
    tripped = {}
    last_load = {}
    cur = {}
    for i, (t, k, o, v, m) in _events(lines):
        if k == K['INVOKE']:
            cur[t] = v
            last_load.pop(t, None)
        elif k == K['STORE']:
            if v == 0:
                return 'thread %d stored false to line obj%d at trace line %d: a trip line is one-way' % (t, o, i)
            tripped.setdefault(o, i)
        elif k == K['LOAD']:
            last_load[t] = (o, v)
            if v != 0:
                tripped.setdefault(o, i)
            elif o in tripped:
                return 'thread %d read false from line obj%d at trace line %d after it was tripped/seen true at line %d' % (t, o, i, tripped[o])
        elif k == K['RET'] and cur.get(t) in (IS_TRIPPED, S_IS_TRIPPED) and t in last_load:
            o2, v2 = last_load[t]
            if (v != 0) != (v2 != 0):
                return 'isTripped of thread %d returned %d at trace line %d but the line obj%d held %d' % (t, v, i, o2, v2)
    return None


def mon_lines_independent(case, lines):
    """a trigger destruction stores to exactly one line; the final value of a line is true iff it was stored to"""
    stores = {}
    for i, (t, k, o, v, m) in _events(lines):
        if k == K['STORE']:
            stores[o] = stores.get(o, 0) + 1
    nstored = len(stores)
    fin = [l for l in lines if len(l) >= 1 and l[0] == -2]
    verdict = [l[1] for l in lines if len(l) >= 2 and l[0] == -1]
    if fin and verdict and verdict[0] == 0:
        ntrue = sum(1 for x in fin[0][1:] if x == 1)
        nrel = sum(1 for x in fin[0][1:] if x == -1)      # released lines: the harness can no longer look at them
        if not (ntrue <= nstored <= ntrue + nrel):
            return '%d line(s) were stored to but %d line(s) are true at the end (%d released): lines are not independent / one-way' % (nstored, ntrue, nrel)
    for _, t, opc, evs, ret in _ops(lines):
        n = sum(1 for _, l in evs if l[1] == K['STORE'])
        if opc == DESTROY and n > 1:
            return 'one trigger destruction of thread %d stored to %d lines' % (t, n)
        if opc != DESTROY and n > 0:
            return 'operation %d of thread %d stored to a line (only a trigger destruction may)' % (opc, t)
    return None


def mon_index_range(case, lines):
    """an indexed trigger/detector with index >= COUNT must be rejected with an exception"""
    count = case['cfg'][0] if case['cfg'] else COUNT
    ptr = {}
    for _, t, opc, evs, ret in _ops(lines):
        prog = case['progs'][t] if t < len(case['progs']) else []
        j = ptr.get(t, 0)
        ptr[t] = j + 1
        if j >= len(prog) or prog[j][0] != opc:
            continue
        o = prog[j]
        if opc in (MK_I, DET_I, SDET_I) and o[2] >= count and ret is not None and ret == ('ret', 0):
            return 'thread %d: op %s with index %d >= %d returned normally instead of throwing' % (t, o, o[2], count)
    return None


def mon_moved_from(case, lines):
    """moving a trigger transfers the duty to trip: the moved-from object trips nothing when it is destroyed, the object
    that received the line does.  Per thread, follow which trigger objects hold a line through the operations that
    succeeded (return value 0) and compare with the stores each destruction performs; also, the number of stores never
    exceeds the number of triggers ever attached (moves create no new duty)."""
    made, stores, slots, ptr = {}, {}, {}, {}
    for i0, t, opc, evs, ret in _ops(lines):
        prog = case['progs'][t] if t < len(case['progs']) else []
        j = ptr.get(t, 0)
        ptr[t] = j + 1
        o = prog[j] if j < len(prog) and prog[j][0] == opc else None
        sl = slots.setdefault(t, {})
        n = sum(1 for _, l in evs if l[1] == K['STORE'])
        ok = ret == ('ret', 0)
        if opc in (MK_E, MK_D, MK_I) and ok:
            made[t] = made.get(t, 0) + 1
            if o:
                sl[o[1]] = True
        elif opc in (MOVE_C, MOVE_A) and ok and o:
            sl[o[2]] = sl.get(o[1], False)
            sl[o[1]] = False
        elif opc == DESTROY and o and ret is not None and ret[0] == 'ret' and ret[1] == 0 and o[1] in sl:
            holds = sl.pop(o[1])
            if not holds and n > 0:
                return ('thread %d destroyed the moved-from trigger in slot %d (trace line %d) and it tripped a line: the duty had been '
                        'transferred to another object' % (t, o[1], i0))
            if holds and n == 0:
                return ('thread %d destroyed the trigger in slot %d (trace line %d), which holds a line, and nothing was stored: '
                        'the duty to trip was lost' % (t, o[1], i0))
        stores[t] = stores.get(t, 0) + n
        if stores[t] > made.get(t, 0):
            return 'thread %d tripped %d times with only %d triggers ever attached: a moved-from trigger tripped a line' % (t, stores[t], made.get(t, 0))
    return None


def mon_publication(case, lines):
    """publication cases (cfg[3] = 1): no overlapping access window on the datum, and every read of the datum by a
    thread that observed the line tripped returns the last value the publisher wrote"""
    if len(case['cfg']) < 4 or case['cfg'][3] != 1:
        return None
    for i, (t, k, o, v, m) in _events(lines):
        if k == K['FAULT'] and v < 6:
            return 'overlapping access windows (fault code %d) on the published datum at trace line %d' % (v, i)
    last = None
    for o in case['progs'][0]:
        if o[0] == WRITE and o[1] == 0:
            last = o[2]
    for _, t, opc, evs, ret in _ops(lines):
        if t != 0 and opc in (POLL_READ, S_POLL_READ) and ret is not None and ret[0] == 'ret' and ret[1] != -1 and last is not None:
            if ret[1] != last:
                return 'thread %d observed the line tripped but read %d, the publisher wrote %d before tripping' % (t, ret[1], last)
    return None


def mon_mo_weakened(case, lines):
    """the trip store must be at least release, the detector load at least acquire (x86 cannot show the difference;
    the Views model can: Properties_C19.tw_relaxed_refuted is the failing history)"""
    for i, (t, k, o, v, m) in _events(lines):
        if k == K['STORE'] and m not in (MO_RELEASE, MO_ACQ_REL, MO_SEQ_CST):
            return ('trip-line store logged with memory order %d (weaker than release) at trace line %d. Model-level failing history '
                    '(theorem tw_relaxed_refuted, store side): t0: trigger on line; write datum; destroy trigger | t1: detector; '
                    'isTripped reads true; read datum  ==> data race (no happens-before from the write to the read)' % (m, i))
        if k == K['LOAD'] and m not in (MO_ACQUIRE, MO_ACQ_REL, MO_SEQ_CST):
            return ('detector load logged with memory order %d (weaker than acquire) at trace line %d. Model-level failing history '
                    '(theorem tw_relaxed_refuted, load side): t0: trigger on line; write datum; destroy trigger | t1: detector; '
                    'isTripped reads true; read datum  ==> data race (no happens-before from the write to the read)' % (m, i))
    return None


def mon_no_acquire_load(case, lines):
    """publication clause: a thread may take a line for tripped (isTripped returns true / the guarded datum is read)
    only on the strength of an atomic load of the line with order >= acquire in that same operation - or, at the
    very least, of such a load returning true that this same thread performed earlier (then it already synchronised).
    An answer handed over through anything else (a cached flag in a detector object shared between threads) carries
    no happens-before edge from the trip to this thread."""
    ptr, line_of, acquired = {}, {}, {}
    for i0, t, opc, evs, ret in _ops(lines):
        prog = case['progs'][t] if t < len(case['progs']) else []
        j = ptr.get(t, 0)
        ptr[t] = j + 1
        if opc not in POLL_OPS or j >= len(prog) or prog[j][0] != opc or len(prog[j]) < 2:
            continue
        key = ('s', prog[j][1]) if opc in (S_IS_TRIPPED, S_POLL_READ) else ('t', t, prog[j][1])
        acq = False
        for _, l in evs:
            if l[1] == K['LOAD']:
                line_of[key] = l[2]
                if l[4] in (MO_ACQUIRE, MO_ACQ_REL, MO_SEQ_CST):
                    acq = True
                    if l[3] != 0:
                        acquired.setdefault(t, set()).add(l[2])
        if opc in (IS_TRIPPED, S_IS_TRIPPED):
            positive = ret == ('ret', 1)
        else:
            positive = any(l[1] == K['RD_BEGIN'] for _, l in evs)
        if positive and not acq:
            line = line_of.get(key)
            if line is None or line not in acquired.get(t, set()):
                return ('operation %s of thread %d (trace line %d) took the line for tripped without an acquire load of it, and thread %d '
                        'never acquired a true value from that line itself: nothing orders the publisher\'s writes before this '
                        'thread\'s reads. Model-level failing history (theorem tw_relaxed_refuted, load side): t0: trigger on line; '
                        'write datum; destroy trigger | t1: detector; isTripped reads true WITHOUT acquire; read datum  ==> data race'
                        % (prog[j], t, i0, t))
    return None


def mon_slot_assigned(case, lines):
    """line handles shared between threads (the static declared line, the slots of the indexed-line table, the harness's
    explicit lines) are read-only while client threads run: a client thread assigns only to shared_ptr instances it
    constructed itself (harness/tripwire_extra.hpp logs K_FAULT <instance> 6 otherwise, before the assignment)"""
    for i, (t, k, o, v, m) in _events(lines):
        if k == K['FAULT'] and v == 6:
            return ('thread %d assigned to a shared line handle (obj%d) that it does not own at trace line %d: unsynchronised write to '
                    'a slot other threads read or assign (data race; two threads can each install and keep their own flag)' % (t, o, i))
    return None


def mon_static_init(case, lines):
    """the declared and the indexed lines exist whenever a client can reach them, also during the static initialisation
    of the client's own global objects: the driver's EarlyUser (a global defined before the DECLARE_* macros) attaches a
    trigger and a detector to the declared line and to a valid index at that time and logs K_FAULT 700+bits on failure"""
    for i, (t, k, o, v, m) in _events(lines):
        if k == K['FAULT'] and 700 < v < 716:
            b = v - 700
            what = [w for bit, w in ((1, 'the trigger on the declared line got no line (it will never trip it)'),
                                     (2, 'the detector on the declared line got no line (isTripped would dereference null)'),
                                     (4, 'a trigger on a valid index was rejected or got no line'),
                                     (8, 'a detector on a valid index was rejected or got no line')) if b & bit]
            return 'a global object used the static trip lines during static initialisation: ' + '; '.join(what)
    return None


def _line_key(o):
    """abstract line named by a Make operation"""
    k = o[0]
    if k in (MK_E, DET_E, SDET_E):
        return ('E', o[2])
    if k in (MK_D, DET_D, SDET_D):
        return ('D',)
    return ('I', o[2])


def mon_trip_visible(case, lines):
    """every detector on a line, in every thread, reports true once a trigger attached to THAT line (same explicit line
    number / declared / same index) has been destroyed: follow, from the operations that succeeded, which line each
    trigger and detector object is attached to; an isTripped that starts after such a destruction returned must give
    true (the harness executes sequentially consistent interleavings)"""
    ptr, cur, trig, det, sdet, tripped, snap = {}, {}, {}, {}, {}, {}, {}
    for i, (t, k, ob, v, m) in _events(lines):
        prog = case['progs'][t] if t < len(case['progs']) else []
        if k == K['INVOKE']:
            j = ptr.get(t, 0)
            ptr[t] = j + 1
            cur[t] = prog[j] if j < len(prog) and prog[j][0] == v else None
            snap[t] = dict(tripped)
            continue
        if k not in (K['RET'], K['CATCH']) or cur.get(t) is None:
            continue
        o, cur[t] = cur[t], None
        ok = k == K['RET'] and v == 0
        T, D = trig.setdefault(t, {}), det.setdefault(t, {})
        c = o[0]
        if c in (MK_E, MK_D, MK_I) and ok:
            T[o[1]] = _line_key(o)
        elif c in (DET_E, DET_D, DET_I) and ok:
            D[o[1]] = _line_key(o)
        elif c in (SDET_E, SDET_D, SDET_I) and ok:
            sdet[o[1]] = _line_key(o)
        elif c in (MOVE_C, MOVE_A) and ok:
            T[o[2]] = T.get(o[1])
            T[o[1]] = None
        elif c == DESTROY and ok and o[1] in T:
            key = T.pop(o[1])
            if key is not None:
                tripped.setdefault(key, i)
        elif (c in (IS_TRIPPED, S_IS_TRIPPED) and k == K['RET'] and v == 0) or \
                (c in (POLL_READ, S_POLL_READ) and k == K['RET'] and v == -1 and len(case['cfg']) > 2 and 0 <= o[2] < case['cfg'][2]):
            key = (D if c in (IS_TRIPPED, POLL_READ) else sdet).get(o[1])
            if key is not None and key in snap.get(t, {}):
                return ('thread %d: isTripped / read-if-tripped on a detector of line %s reported false at trace line %d although a trigger attached to '
                        'that line had been destroyed (destruction returned at trace line %d): the detector does not watch the '
                        'flag its line\'s trigger trips' % (t, key, i, snap[t][key]))
    return None


def mon_crash(case, lines):
    for l in lines:
        if len(l) >= 2 and l[0] == -1 and l[1] == 3:
            return 'the implementation crashed (sanitizer report / signal): memory safety is part of C19'
    if not any(len(l) >= 2 and l[0] == -1 for l in lines):
        return 'the implementation died without a verdict'
    return None


MONITORS = {
    'true_before_trip': mon_true_before_trip, 'untripped': mon_untripped, 'lines_independent': mon_lines_independent,
    'index_range': mon_index_range, 'moved_from': mon_moved_from, 'publication': mon_publication,
    'mo_weakened': mon_mo_weakened, 'no_acquire_load': mon_no_acquire_load,
    'slot_assigned': mon_slot_assigned, 'static_init': mon_static_init, 'trip_visible': mon_trip_visible, 'crash': mon_crash,
}
