"""DelayedDestructor / DelayedDestructorSingleThread: generator and implementation-side monitors (C16)."""
from events import K
import rng as R

NAME = 'delayeddestructor'
DRIVER = 'harness/delayeddestructor_drv.cpp'
EXTRACT = 'Extract/DelayedDestructorExtract.v'
ML = 'delayeddestructor_model'
SANITIZE = True
ENUM = True

ADD, DROP, DESTROY, DESTROY_DELAY, SIZE, DESTROY_CONTAINER, READD = 1, 2, 3, 4, 5, 6, 7
MODES = [(8, 0), (1, 1), (1, 2), (2, 3), (1, 4), (1, 5), (1, 6)]
CHAIN = [(1, 2), (3, 5), (3, 6)]      # hand a child / a chain of children to the same container
DELAYS = [0, 3, 100, 150]     # 0 is legitimate: destroyObjects(0ms) passes a zero limit to try_lock_for
CW = ((12, 0), (3, 2))


def gen_chain(rng):
    """element destructors / callbacks hand children (parent -> child -> grandchild) to the same container, which
    is then destroyed: every object handed over must be reaped (callback, then destructor) by a sweep of
    destroyObjects() or of ~DelayedDestructor; no client owners, no throws"""
    locked = 0 if rng.chance(1, 3) else 1
    nt = 1 if not locked else rng.weighted([(3, 1), (2, 2)])
    progs = []
    for t in range(nt):
        p = []
        for _ in range(rng.range(1, 3)):
            k = rng.weighted([(6, ADD), (2, DESTROY), (1, DESTROY_DELAY), (1, SIZE)])
            if k == ADD:
                via_cb = rng.chance(1, 3)
                m = rng.weighted(CHAIN)
                p.append([ADD, 0, 0 if via_cb else m, m if via_cb else rng.weighted([(4, 0), (1, 1), (1, 3)])])
            elif k == DESTROY_DELAY:
                p.append([k, rng.pick(DELAYS)])
            else:
                p.append([k])
        progs.append(p)
    if not any(op[0] == ADD for p in progs for op in p):
        progs[0].insert(0, [ADD, 0, rng.weighted(CHAIN), 0])
    progs[0].append([DESTROY_CONTAINER])
    sched = R.any_sched(rng, nt, 80, CW) if rng.chance(1, 2) else []
    return {'cfg': [locked, 1, 0, 1 if rng.chance(1, 4) else 0], 'progs': progs, 'sched': sched}


BULK = [(4, 63), (4, 64), (6, 65), (2, 129), (1, 385), (1, 400)]


def gen_bulk(rng):
    """size boundaries: N sole-owned objects handed over, then one sweep (it must reap them all: the next Size is 0), then
    possibly the destruction of the container (every object gets its callback whatever N is); one thread, no re-entry"""
    locked = 0 if rng.chance(1, 4) else 1
    hascb = 1 if rng.chance(2, 3) else 0
    n = rng.weighted(BULK)
    p = [[ADD, 0, 0, 0] for _ in range(n)]
    if n < 300 or rng.chance(1, 2):
        p += [[DESTROY], [SIZE]]
    if n >= 300 or rng.chance(1, 2):
        p.append([DESTROY_CONTAINER])
    return {'cfg': [locked, hascb, 0, 1 if rng.chance(1, 4) else 0], 'progs': [p], 'sched': []}


def gen(rng, tier, spec):
    if rng.chance(1, 40):
        return gen_bulk(rng)
    if rng.chance(1, 6):
        return gen_chain(rng)
    locked = 0 if rng.chance(1, 4) else 1
    nt = 1 if not locked else rng.weighted([(2, 1), (5, 2), (4, 3)])
    hascb = 1 if rng.chance(3, 5) else 0
    throws = []
    if hascb and rng.chance(1, 3):
        throws = sorted(set(rng.range(0, 4) for _ in range(rng.range(1, 2))))
    heavy = rng.chance(1, 3)          # many re-entrant destructors / callbacks
    nslot = 0
    slots = []
    progs = []
    for t in range(nt):
        p = []
        for _ in range(rng.range(2, 5)):
            k = rng.weighted([(6, ADD), (3, DROP), (4, DESTROY), (2, DESTROY_DELAY), (2, SIZE), (1, READD)])
            if k == ADD:
                s = 0
                if rng.chance(1, 2):
                    nslot += 1
                    s = nslot
                    slots.append(s)
                dm = rng.weighted(MODES) if heavy or rng.chance(1, 4) else 0
                cm = rng.weighted(MODES) if hascb and (heavy or rng.chance(1, 4)) else 0
                p.append([ADD, s, dm, cm])
            elif k in (DROP, READD):
                s = rng.pick(slots) if slots and rng.chance(5, 6) else rng.range(1, 4)
                p.append([k, s])
            elif k == DESTROY_DELAY:
                p.append([k, rng.pick(DELAYS)])
            else:
                p.append([k])
        progs.append(p)
    if rng.chance(3, 5):
        # the container is destroyed by thread 0 once every other container operation is over (the driver's
        # gate); afterwards threads only drop their references
        progs[0].append([DESTROY_CONTAINER])
        for t in range(nt):
            for _ in range(rng.range(0, 2)):
                if slots:
                    progs[t].append([DROP, rng.pick(slots)])
    kind = rng.below(6)
    if kind == 5:
        # boundary-aimed: stop one thread between unlock / callbacks / clear / relock of destroyObjects
        sched = R.sched_boundary(rng, nt, rng.below(nt), rng.range(1, 14), rng.range(0, 80), CW)
    else:
        sched = R.any_sched(rng, nt, 140, CW)
    # element kind 1: trivially destructible element with a custom shared_ptr deleter as the user code (the driver's Y)
    kind = 1 if rng.chance(1, 4) else 0
    return {'cfg': [locked, hascb, len(throws)] + throws + [kind], 'progs': progs, 'sched': sched}



# ----------------------------------------------------------------------------- monitors (implementation trace only)

def _scan(case, lines):
    """replay the implementation trace; returns a dict of observations or a violation string under 'bad'"""
    progs = case['progs']
    cfg = case['cfg']
    hascb = len(cfg) > 1 and cfg[1] != 0
    nthrow = cfg[2] if len(cfg) > 2 else 0
    # pre-scan: object id returned by every Add (thread, op index) -> oid
    opidx = {}
    add_oid = {}
    for l in lines:
        if len(l) != 5 or l[0] < 0:
            continue
        t, k, o, v, m = l
        if k == K['INVOKE']:
            opidx[t] = opidx.get(t, -1) + 1
        elif k == K['RET'] and t in opidx:
            op = progs[t][opidx[t]] if opidx[t] < len(progs[t]) else None
            if op and op[0] == ADD:
                add_oid[(t, opidx[t])] = v
    # no client owners, no double adds, no throws: every object that is destroyed was reaped by a sweep, so its
    # callback ran exactly once before (also for objects handed over by re-entrant destructors / callbacks and
    # during ~DelayedDestructor)
    strict = hascb and nthrow == 0 and not any(op[0] == READD or (op[0] == ADD and op[1] != 0) for p in progs for op in p)
    obs = {'bad': [], 'dtor': {}, 'cb': {}, 'slots': {}, 'faults': 0, 'throws': 0, 'unlocked': None, 'readds': {}, 'lost': None}
    owner = None
    depth = 0
    alive = True          # until ~DelayedDestructor starts (the gate event)
    opidx = {}
    cur = {}
    readds = obs['readds']
    slots = obs['slots']
    for i, l in enumerate(lines):
        if len(l) != 5 or l[0] < 0:
            continue
        t, k, o, v, m = l
        if k == K['INVOKE']:
            opidx[t] = opidx.get(t, -1) + 1
            op = progs[t][opidx[t]] if opidx[t] < len(progs[t]) else [v]
            cur[t] = op
            if op[0] == ADD and op[1] != 0 and op[1] not in slots:
                slots[op[1]] = add_oid.get((t, opidx[t]), -1)
            elif op[0] == DROP and op[1] in slots:
                del slots[op[1]]
            elif op[0] == READD and op[1] in slots and alive:
                readds[slots[op[1]]] = readds.get(slots[op[1]], 0) + 1
        elif k == K['LOCK'] or (k in (K['TRYLOCK_FOR'], K['TRYLOCK']) and v == 1):
            if owner is not None and owner != t:
                obs['bad'].append('line %d: thread %d acquired destructionLock while thread %d owns it' % (i, t, owner))
            depth = depth + 1 if owner == t else 1      # a recursive mutex may be locked again by its owner
            owner = t
        elif k == K['UNLOCK']:
            depth -= 1
            if depth <= 0:
                owner, depth = None, 0
        elif k == K['DESTROY']:
            alive = False
        elif k == K['FAULT']:
            obs['faults'] += 1
            if v == 5 and obs['unlocked'] is None:
                obs['unlocked'] = 'line %d: thread %d accesses ElementsToBeDestroyed without holding destructionLock' % (i, t)
        elif k == K['THROW']:
            obs['throws'] += 1
        elif k == K['CALL']:
            oid, iscb = v // 2, v % 2 == 1
            if owner == t:
                obs['bad'].append('line %d: %s of object %d runs while its thread %d holds destructionLock'
                                  % (i, 'callback' if iscb else 'destructor', oid, t))
            if iscb:
                obs['cb'][oid] = obs['cb'].get(oid, 0) + 1
                if not hascb:
                    obs['bad'].append('line %d: callback although none was given' % i)
                if obs['cb'][oid] > 1:
                    obs['bad'].append('line %d: callback of object %d called twice' % (i, oid))
                if oid in obs['dtor']:
                    obs['bad'].append('line %d: callback of object %d after its destructor' % (i, oid))
            else:
                obs['dtor'][oid] = obs['dtor'].get(oid, 0) + 1
                if obs['dtor'][oid] > 1:
                    obs['bad'].append('line %d: destructor of object %d runs twice' % (i, oid))
                if oid in slots.values():
                    obs['bad'].append('line %d: object %d destroyed while a client slot still owns it' % (i, oid))
                top = cur.get(t, [0])[0]
                if top == DROP and alive:
                    # a client-owned object that was handed over keeps its vector entry while the container lives, so a
                    # client Drop can never be the last owner: the object has silently left the container
                    msg = ('line %d: object %d destroyed by a client Drop while the container is alive: it was handed over '
                           'but is no longer in the container%s' % (i, oid, ' (a callback had thrown)' if obs['throws'] else ''))
                    obs['lost'] = obs['lost'] or msg
                    if hascb:
                        obs['bad'].append(msg + '; it never got its callback')
                if hascb and nthrow == 0 and top in (DESTROY, DESTROY_DELAY) and obs['cb'].get(oid, 0) != 1:
                    obs['bad'].append('line %d: object %d reaped by destroyObjects with %d callback calls before its destructor'
                                      % (i, oid, obs['cb'].get(oid, 0)))
                elif strict and obs['cb'].get(oid, 0) != 1:
                    obs['bad'].append('line %d: object %d (sole owner: the container) destroyed with %d callback calls: it was not '
                                      'reaped by a sweep' % (i, oid, obs['cb'].get(oid, 0)))
    return obs


def _first(obs, words):
    for b in obs['bad']:
        if any(w in b for w in words):
            return b
    return None


def mon_destroyed_twice(case, lines):
    """an element destructor ran twice"""
    return _first(_scan(case, lines), ['runs twice'])


def mon_destroyed_while_owned(case, lines):
    """an element destructor ran while a client slot still held the object"""
    return _first(_scan(case, lines), ['still owns'])


def mon_user_code_under_lock(case, lines):
    """callback or destructor while the calling thread holds destructionLock; or two owners of the mutex"""
    return _first(_scan(case, lines), ['holds destructionLock', 'acquired destructionLock'])


def mon_callback(case, lines):
    """callback count per reaped object != 1 (no-throw cases), callback twice, after the destructor, or without function"""
    return _first(_scan(case, lines), ['callback'])


def mon_ledger(case, lines):
    """final ledger: destroyed <=> use_count 0; after DestroyContainer only client-owned objects survive"""
    verdict = [l[1] for l in lines if len(l) >= 2 and l[0] == -1]
    if not verdict or verdict[0] != 0:
        return None
    fin = [l for l in lines if l and l[0] == -2]
    if not fin:
        return None
    obs = _scan(case, lines)
    head = fin[0]
    dead = len(head) > 3 and head[3] != 0
    owned = set(obs['slots'].values())
    if not dead and len(head) > 2:
        # the container is alive and idle: it holds one entry per push of every object not yet destroyed
        want = sum(1 + obs['readds'].get(l[1], 0) for l in fin[1:] if len(l) >= 5 and l[3] == 0)
        if head[2] != want:
            return ('the container holds %d entries but %d are accounted for by the objects handed over and not yet destroyed'
                    '%s' % (head[2], want, ' (a callback had thrown: objects left the container)' if obs['throws'] else ''))
    for l in fin[1:]:
        if len(l) < 5:
            continue
        _, oid, rc, d, cb = l[:5]
        if d > 1:
            return 'object %d destroyed %d times' % (oid, d)
        if (rc == 0) != (d == 1):
            return 'object %d: use_count %d but destructor calls %d (leak or premature destruction)' % (oid, rc, d)
        if d != obs['dtor'].get(oid, 0):
            return 'object %d: %d destructor calls in the ledger, %d in the trace' % (oid, d, obs['dtor'].get(oid, 0))
        if dead and oid not in owned and d != 1:
            return 'object %d has no client owner and the container is destroyed, but it was not destroyed' % oid
        if oid in owned and d != 0:
            return 'object %d is still owned by a client slot but was destroyed' % oid
    return None


def mon_progress(case, lines):
    """deadlock / fuel / fault: none is possible for the generated programs"""
    verdict = [l[1] for l in lines if len(l) >= 2 and l[0] == -1]
    if verdict and verdict[0] == 1:
        return 'deadlock: some thread is blocked for ever (self-deadlock on destructionLock?)'
    if verdict and verdict[0] == 2:
        return 'the run did not terminate within the fuel bound'
    obs = _scan(case, lines)
    if obs['faults'] and not any(op[0] == DESTROY_CONTAINER for p in case['progs'] for op in p):
        return 'a fault was logged'
    return None



def mon_op_unlocked(case, lines):
    """C16 (locked class): destroyObjects / destroyObjects(delay) / size / addObjectsToBeDestroyed that complete with a
    value other than size_t(-1) must have acquired destructionLock at least once: otherwise they read or changed the
    shared vector without the lock (concurrent add / size / destroyObjects could lose or duplicate an object)"""
    if not case['cfg'] or case['cfg'][0] != 1:
        return None
    cur, got, depth = {}, {}, {}
    for i, l in enumerate(lines):
        if len(l) != 5 or l[0] < 0:
            continue
        t, k, o, v, mo = l
        if k == K['INVOKE']:
            cur[t], got[t] = v, False
        elif k == K['LOCK'] or (k == K['TRYLOCK_FOR'] and v == 1):
            got[t] = True
        elif k == K["RET"] and cur.get(t) in (DESTROY, DESTROY_DELAY, SIZE):
            if not got.get(t) and v != -1:
                return 'thread %d: operation %d returned %d at trace line %d without ever acquiring the container lock' % (t, cur[t], v, i)
            cur.pop(t, None)
    return None


def mon_sweep_complete(case, lines):
    """one thread, no client owners, no double adds, no user code that adds: a sweep that got the lock reaps every object
    present, so destroyObjects() returns 0 and a following size() is 0"""
    progs = case['progs']
    if len(progs) != 1:
        return None
    for op in progs[0]:
        if op[0] == READD or (op[0] == ADD and (op[1] != 0 or op[2] in (2,) or op[2] >= 5 or op[3] in (2,) or op[3] >= 5)):
            return None
    idx, swept = -1, False
    for i, l in enumerate(lines):
        if len(l) != 5 or l[0] < 0:
            continue
        t, k, o, v, m = l
        if k == K['INVOKE']:
            idx += 1
        elif k == K['RET'] and 0 <= idx < len(progs[0]):
            op = progs[0][idx][0]
            if op in (DESTROY, DESTROY_DELAY) and v != -1:
                if v != 0:
                    return 'line %d: the sweep left %d sole-owned objects behind (nothing else owns or adds objects)' % (i, v)
                swept = True
            elif op == SIZE and swept and v != 0:
                return 'line %d: size() is %d after a complete sweep' % (i, v)
            elif op == ADD:
                swept = False
    return None


def mon_lost_on_throw(case, lines):
    """C20: after a sweep ended by a callback's exception every handed-over object that is still referenced elsewhere must
    still be in the container: no destruction by a client Drop while the container lives, and the final size accounts
    for every live object"""
    obs = _scan(case, lines)
    if obs['lost']:
        return obs['lost']
    if obs['throws']:
        r = mon_ledger(case, lines)
        if r and 'entries' in r:
            return r
    return None


def mon_unlocked_access(case, lines):
    """lockset rule (harness/delayeddestructor_extra.hpp): between construction and the start of ~DelayedDestructor the
    vector ElementsToBeDestroyed is touched only by the thread that owns destructionLock"""
    return _scan(case, lines)['unlocked']


MONITORS = {'sweep_complete': mon_sweep_complete, 'lost_on_throw': mon_lost_on_throw, 'unlocked_access': mon_unlocked_access, 'op_unlocked': mon_op_unlocked, 'destroyed_twice': mon_destroyed_twice, 'destroyed_while_owned': mon_destroyed_while_owned,
            'user_code_under_lock': mon_user_code_under_lock, 'callback': mon_callback, 'ledger': mon_ledger,
            'progress': mon_progress}
