"""DelayedDestructor / DelayedDestructorSingleThread: generator and implementation-side monitors (C16)."""
from events import K
import rng as R

NAME = 'delayeddestructor'
DRIVER = 'harness/delayeddestructor_drv.cpp'
EXTRACT = 'Extract/DelayedDestructorExtract.v'
ML = 'delayeddestructor_model'
SANITIZE = True

ADD, DROP, DESTROY, DESTROY_DELAY, SIZE, DESTROY_CONTAINER, READD = 1, 2, 3, 4, 5, 6, 7
MODES = [(8, 0), (1, 1), (1, 2), (2, 3), (1, 4)]
DELAYS = [0, 3, 100, 150]
CW = ((12, 0), (3, 2))


def gen(rng, tier, spec):
    locked = 0 if rng.chance(1, 4) else 1
    nt = 1 if not locked else rng.weighted([(2, 1), (5, 2), (4, 3)])
    hascb = 1 if rng.chance(3, 5) else 0
    throws = []
    if hascb and rng.chance(1, 3):
        throws = sorted(set(rng.range(0, 4) for _ in range(rng.range(1, 2))))
    heavy = rng.chance(1, 3)          # many re-entrant destructors / callbacks
    nslot = 0
    slots = []
    progs = []
    for t in range(nt):
        p = []
        for _ in range(rng.range(2, 5)):
            k = rng.weighted([(6, ADD), (3, DROP), (4, DESTROY), (2, DESTROY_DELAY), (2, SIZE), (1, READD)])
            if k == ADD:
                s = 0
                if rng.chance(1, 2):
                    nslot += 1
                    s = nslot
                    slots.append(s)
                dm = rng.weighted(MODES) if heavy or rng.chance(1, 4) else 0
                cm = rng.weighted(MODES) if hascb and (heavy or rng.chance(1, 4)) else 0
                p.append([ADD, s, dm, cm])
            elif k in (DROP, READD):
                s = rng.pick(slots) if slots and rng.chance(5, 6) else rng.range(1, 4)
                p.append([k, s])
            elif k == DESTROY_DELAY:
                p.append([k, rng.pick(DELAYS)])
            else:
                p.append([k])
        progs.append(p)
    if rng.chance(3, 5):
        # the container is destroyed by thread 0 once every other container operation is over (the driver's
        # gate); afterwards threads only drop their references
        progs[0].append([DESTROY_CONTAINER])
        for t in range(nt):
            for _ in range(rng.range(0, 2)):
                if slots:
                    progs[t].append([DROP, rng.pick(slots)])
    kind = rng.below(6)
    if kind == 5:
        # boundary-aimed: stop one thread between unlock / callbacks / clear / relock of destroyObjects
        sched = R.sched_boundary(rng, nt, rng.below(nt), rng.range(1, 14), rng.range(0, 80), CW)
    else:
        sched = R.any_sched(rng, nt, 140, CW)
    return {'cfg': [locked, hascb, len(throws)] + throws, 'progs': progs, 'sched': sched}


MONITORS = {}
