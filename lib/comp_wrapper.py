"""Wrapper (guarded / guarded_opt / shared_guarded / shared_guarded_opt / ordered_guarded / atomic_guarded
+ handles.hpp): generator and implementation-side monitors (C01, C08; also used by C02, C15, C20).

cfg = [flavour, mutexkind, enabled, init, payloadkind, throw_k...]; op encoding: see harness/wrapper_drv.cpp.
payloadkind 0 = instrumented vs::WPay (every access is a window), 1 = plain long (accesses invisible),
2 = vs::TPay, trivially copyable with a non-bitwise operator== (accesses invisible; plain for the model).
Assign takes an optional third value: 1 = assign from the caller's lvalue.  Modify's functor shape is (fid / 2) % 3.
The generator appends explicit Destroy ops for the handles a thread still has at the end of its program
(the driver / model do not destroy leftovers on the client thread); a small share of cases leaves one alive.
"""
from events import K
import rng as R

NAME = 'wrapper'
DRIVER = 'harness/wrapper_drv.cpp'
EXTRACT = 'Extract/WrapperExtract.v'
ML = 'wrapper_model'
SANITIZE = False
ENUM = True

GUARDED, GUARDED_OPT, SHARED, SHARED_OPT, ORDERED, ATOMIC = range(6)
PLAIN, TIMED, SHMUTEX, SHTIMED = range(4)
(LOCK, TRYLOCK, TRYLOCK_FOR, TRYLOCK_UNTIL, LOCK_SH, TRYLOCK_SH, TRYLOCK_SH_FOR, TRYLOCK_SH_UNTIL, CONST_LOCK,
 UNLOCK, DESTROY, MOVE_CTOR, MOVE_ASSIGN, USE, BOOL, LOAD, STORE, ASSIGN, MODIFY, READ, EXCHANGE, CAS, CAST) = range(23)
NSLOTS = 3
ACQ_X = (LOCK, TRYLOCK, TRYLOCK_FOR, TRYLOCK_UNTIL)
ACQ_S = (LOCK_SH, TRYLOCK_SH, TRYLOCK_SH_FOR, TRYLOCK_SH_UNTIL, CONST_LOCK)
ACQ = ACQ_X + ACQ_S
BLOCKING = (LOCK, LOCK_SH, CONST_LOCK)
TRYING = (TRYLOCK, TRYLOCK_FOR, TRYLOCK_UNTIL, TRYLOCK_SH, TRYLOCK_SH_FOR, TRYLOCK_SH_UNTIL)
TIMED_OPS = (TRYLOCK_FOR, TRYLOCK_UNTIL, TRYLOCK_SH_FOR, TRYLOCK_SH_UNTIL)
WHOLE = (LOAD, STORE, ASSIGN, MODIFY, READ, EXCHANGE, CAS, CAST)
LOCK_KINDS = (K['LOCK'], K['TRYLOCK'], K['TRYLOCK_FOR'], K['LOCK_SH'], K['TRYLOCK_SH'], K['TRYLOCK_SH_FOR'])
TRY_KINDS = (K['TRYLOCK'], K['TRYLOCK_FOR'], K['TRYLOCK_SH'], K['TRYLOCK_SH_FOR'])
SH_KINDS = (K['LOCK_SH'], K['TRYLOCK_SH'], K['TRYLOCK_SH_FOR'])


def is_opt(fl):
    return fl in (GUARDED_OPT, SHARED_OPT)


def locking(cfg):
    return (not is_opt(cfg[0])) or cfg[2] != 0


def plain(cfg):
    return len(cfg) > 4 and cfg[4] != 0


def available(cfg, code):
    fl, mk = cfg[0], cfg[1]
    timed = mk in (TIMED, SHTIMED)
    if code in (LOCK, TRYLOCK):
        return fl <= SHARED_OPT
    if code in (TRYLOCK_FOR, TRYLOCK_UNTIL):
        return fl <= SHARED_OPT and timed
    if code in (LOCK_SH, TRYLOCK_SH):
        return fl in (SHARED, SHARED_OPT, ORDERED)
    if code in (TRYLOCK_SH_FOR, TRYLOCK_SH_UNTIL):
        return fl in (SHARED, SHARED_OPT, ORDERED) and timed
    if code == CONST_LOCK:
        return fl in (SHARED, SHARED_OPT)
    if code in (LOAD, STORE, ASSIGN):
        return fl in (GUARDED, GUARDED_OPT, ORDERED, ATOMIC)
    if code in (MODIFY, READ):
        return fl == ORDERED
    if code in (EXCHANGE, CAS):
        return fl == ATOMIC
    if code == CAST:
        return fl in (ORDERED, ATOMIC)
    return 0 <= code <= BOOL


# ----------------------------------------------------------------------------- static client analysis
# abstract slot states: E empty, L owns (blocking acquisition), T try result (owns and non-null, or neither),
# M moved-from (non-null possible, owns nothing), U unlocked / certainly null, D disabled-mode handle

def _walk_prog(cfg, prog):
    """yield (op, states-before) and finally (None, final states)"""
    st = ['E'] * NSLOTS
    en = locking(cfg)
    for op in prog:
        yield op, list(st)
        code = op[0]
        a = list(op[1:]) + [0, 0, 0, 0]
        h = a[0]
        if code in ACQ:
            if available(cfg, code) and 0 <= h < NSLOTS:
                st[h] = ('L' if code in BLOCKING else 'T') if en else 'D'
        elif code == UNLOCK and 0 <= h < NSLOTS and st[h] != 'E':
            st[h] = 'U'
        elif code == DESTROY and 0 <= h < NSLOTS:
            st[h] = 'E'
        elif code in (MOVE_CTOR, MOVE_ASSIGN):
            d = a[1]
            if 0 <= h < NSLOTS and 0 <= d < NSLOTS and h != d and st[h] != 'E' and (code == MOVE_CTOR or st[d] != 'E'):
                # (a type mismatch refuses a MoveAssign; treating it as performed only makes the analysis stricter)
                st[d] = st[h]
                st[h] = 'U' if st[h] == 'U' else ('D' if st[h] == 'D' else 'M')
    yield None, list(st)


def uses_unowned(case):
    """some Use may go through a non-null handle that owns nothing (moved-from): a client error"""
    for prog in case['progs']:
        for op, st in _walk_prog(case['cfg'], prog):
            if op is not None and op[0] == USE and 0 <= op[1] < NSLOTS and st[op[1]] == 'M':
                return True
    return False


def wf_release(case):
    """no blocking acquisition while the thread may hold a handle's lock, and no handle kept at the end"""
    for prog in case['progs']:
        for op, st in _walk_prog(case['cfg'], prog):
            holding = any(s in ('L', 'T') for s in st)
            if op is None:
                if holding:
                    return False
            elif holding and (op[0] in BLOCKING or op[0] in WHOLE) and available(case['cfg'], op[0]):
                return False
    return True


def only_incr_writes(case):
    for prog in case['progs']:
        for op in prog:
            if op[0] in (STORE, ASSIGN, EXCHANGE, CAS):
                return False
            if op[0] == USE and len(op) > 2 and op[2] == 2:
                return False
    return True


# ----------------------------------------------------------------------------- generator

def _acq_choices(cfg, want_shared, nonblocking):
    xs = [c for c in (ACQ_S if want_shared else ACQ_X) if available(cfg, c)]
    if nonblocking:
        xs = [c for c in xs if c in TRYING] or xs
    return xs


def _gen_prog(rng, cfg, counter_only, edge, handle_share=55):
    fl = cfg[0]
    en = locking(cfg)
    has_h = fl != ATOMIC
    whole = [c for c in WHOLE if available(cfg, c)]
    if counter_only:
        whole = [c for c in whole if c in (LOAD, MODIFY, READ, CAST)]
    ops = []
    st = ['E'] * NSLOTS      # as in _walk_prog
    sh = [False] * NSLOTS    # shared handle type
    target = rng.range(1, 6)

    def holding():
        return any(s in ('L', 'T') for s in st)

    def use(h, guard=None):
        if sh[h]:
            acc = 0
        elif counter_only:
            acc = rng.weighted([(1, 0), (4, 1)])
        else:
            acc = rng.weighted([(3, 0), (4, 1), (2, 2)])
        g = guard if guard is not None else (1 if st[h] in ('T', 'U') or rng.chance(1, 4) else 0)
        ops.append([USE, h, acc, rng.range(0, 5) if acc == 2 else 0, g])

    def whole_op():
        c = rng.pick(whole)
        # TPay (payload kind 2): now and then the NaN-like value 7, which is unequal to itself
        val = 7 if (plain(cfg) and cfg[4] == 2 and rng.chance(1, 8)) else rng.range(0, 5)
        if c in (ASSIGN, STORE):
            ops.append([c, val, rng.below(2)])                 # from an rvalue / from the caller's lvalue
        elif c == EXCHANGE:
            ops.append([c, val])
        elif c in (MODIFY, READ):
            ops.append([c, rng.range(1, 12)])                  # all functor shapes, void / value-returning
        elif c == CAS:
            ops.append([c, rng.range(0, 5), rng.range(0, 5)])
        else:
            ops.append([c])

    def handle_block():
        free = [i for i in range(NSLOTS) if st[i] == 'E']
        h = rng.pick(free) if free and rng.chance(5, 6) else rng.below(NSLOTS)
        can_x = bool(_acq_choices(cfg, False, False))
        can_s = bool(_acq_choices(cfg, True, False))
        want_s = can_s and (not can_x or rng.chance(1, 2))
        nonblock = en and holding() and not (edge and rng.chance(1, 3))
        code = rng.pick(_acq_choices(cfg, want_s, nonblock))
        if not nonblock and rng.chance(1, 2):
            tr = [c for c in _acq_choices(cfg, want_s, True) if c in TRYING]
            if tr:
                code = rng.pick(tr)
        # the deadline forms: sometimes with `time_point::max()` ("no deadline") as the deadline
        if code in (TRYLOCK_UNTIL, TRYLOCK_SH_UNTIL):
            ops.append([code, h, rng.below(2)])
        elif code in (TRYLOCK_FOR, TRYLOCK_SH_FOR):
            ops.append([code, h, rng.below(4)])     # the limit as 1ms / 900us / 250000ns / 0.9 (double) ms
        else:
            ops.append([code, h])
        st[h] = ('L' if code in BLOCKING else 'T') if en else 'D'
        sh[h] = want_s
        for _ in range(rng.weighted([(2, 0), (5, 1), (2, 2)])):
            use(h)
        if rng.chance(1, 5):
            ops.append([BOOL, h])
        cur = h
        if rng.chance(1, 4):
            d = rng.pick([i for i in range(NSLOTS) if i != h])
            if st[d] != 'E' and sh[d] == sh[h] and rng.chance(4, 5):
                ops.append([MOVE_ASSIGN, h, d])
            else:
                ops.append([MOVE_CTOR, h, d])
            st[d], sh[d] = st[h], sh[h]
            st[h] = 'D' if st[h] == 'D' else 'M'
            cur = d
            if rng.chance(1, 3):
                ops.append([BOOL, h])
            if edge and rng.chance(1, 3):
                use(h, 0)            # through the moved-from handle (client error; the model predicts the faults)
            if rng.chance(1, 2):
                use(cur)
            if rng.chance(1, 2):
                ops.append([DESTROY, h])
                st[h] = 'E'
        r = rng.below(20)
        if r < 11:
            ops.append([DESTROY, cur])
            st[cur] = 'E'
        elif r < 17:
            ops.append([UNLOCK, cur])
            st[cur] = 'U'
            if rng.chance(1, 4):
                ops.append([UNLOCK, cur])   # a second unlock() of the same handle: nothing happens, nothing throws
            if rng.chance(1, 3):
                ops.append([BOOL, cur])
            if rng.chance(1, 4):
                use(cur, 1)
        # else: keep the handle for later

    def edge_op():
        c = rng.below(23)
        if c <= BOOL:
            op = [c, rng.range(0, NSLOTS - 1)]
            if c in (MOVE_CTOR, MOVE_ASSIGN):
                op.append(rng.range(0, NSLOTS - 1))
            if c == USE:
                op += [rng.below(3), rng.range(0, 5), rng.below(2)]
        elif c == CAS:
            op = [c, rng.range(0, 5), rng.range(0, 5)]
        elif c in (STORE, ASSIGN, MODIFY, READ, EXCHANGE):
            op = [c, rng.range(0, 5)]
        else:
            op = [c]
        ops.append(op)
        # edge ops may do anything: recompute the abstract slot states from scratch
        for o2, s2 in _walk_prog(cfg, ops):
            if o2 is None:
                st[:] = s2

    while len(ops) < target:
        r = rng.below(100)
        if edge and r < 12:
            edge_op()
        elif has_h and (r < handle_share or not whole):
            handle_block()
        elif whole:
            whole_op()
        else:
            handle_block()
    # release what is left (explicit: neither the driver nor the model destroys leftovers on the client thread)
    keep = edge and rng.chance(1, 3)
    for h in range(NSLOTS):
        if st[h] != 'E' and not (keep and st[h] in ('L', 'T')):
            ops.append([DESTROY, h])
    return ops


def _user_calls(cfg, progs):
    n = 0
    for p in progs:
        for op in p:
            if available(cfg, op[0]) and op[0] in WHOLE:
                if plain(cfg):
                    n += 1 if op[0] in (MODIFY, READ) else 0
                else:
                    n += 2 if op[0] in (EXCHANGE, CAS) else 1
    return n


def gen(rng, tier, spec):
    """spec['id'] tunes the mix: C08 more try / timed forms and disabled mode, C02 the shared flavours,
    C15 the whole-object (register) operations, C20 throw plans in half of the cases"""
    pid = (spec or {}).get('id', 'C01')
    fl = rng.weighted([(4, GUARDED), (3, GUARDED_OPT), (4, SHARED), (3, SHARED_OPT), (4, ORDERED), (3, ATOMIC)])
    if pid == 'C08' and rng.chance(1, 4):
        fl = rng.pick([GUARDED_OPT, SHARED_OPT])
    elif pid == 'C02' and rng.chance(3, 4):
        fl = rng.pick([SHARED, SHARED_OPT, ORDERED])
    elif pid == 'C15' and rng.chance(3, 4):
        fl = rng.pick([ATOMIC, ATOMIC, ATOMIC, GUARDED, GUARDED_OPT, ORDERED])
    elif pid == 'C20' and rng.chance(1, 2):
        fl = rng.pick([ORDERED, ATOMIC, GUARDED])
    mk = rng.below(4)
    if pid == 'C08':
        en = 1 if rng.chance(1, 2) else 0
    else:
        en = 1 if rng.chance(3, 4) else 0
    init = rng.range(0, 5)
    pk = rng.weighted([(14, 0), (3, 1), (3, 2)])     # plain long / trivially copyable struct in ~15 % of the cases each
    cfg = [fl, mk, en, init, pk]
    edge = rng.chance(1, 6)
    counter_only = rng.chance(2, 5) and pid not in ('C15', 'C20')
    nt = rng.weighted([(5, 2), (5, 3), (3, 4)])
    progs = [_gen_prog(rng, cfg, counter_only, edge, 25 if pid in ('C15', 'C20') else 55) for _ in range(nt)]
    ncalls = _user_calls(cfg, progs)
    # a throw plan: the payload's move assignment is noexcept (it never throws), so no plan when the case uses
    # exchange / compare_exchange (they move-assign), and every store / operator= is made from the caller's
    # lvalue (copy assignment, which may throw)
    moves = any(op[0] in (EXCHANGE, CAS) and available(cfg, op[0]) for p in progs for op in p)
    if ncalls and not moves and rng.chance(1, 2 if pid == 'C20' else 10):
        ks = sorted(set(rng.below(ncalls) for _ in range(rng.range(1, 2))))
        cfg = cfg + ks
        for p in progs:
            for op in p:
                if op[0] in (STORE, ASSIGN):
                    while len(op) < 3:
                        op.append(0)
                    op[2] = 1
    if pid == 'C02' and rng.chance(1, 25):
        # one thread keeps a shared handle while another takes and drops 60..130 shared handles in a row
        n = rng.pick([63, 64, 65, 127, 128, 129, rng.range(60, 130)])
        cfg = [SHARED, rng.pick([SHMUTEX, SHTIMED]), 1, init, 0]
        acq = rng.pick([LOCK_SH, CONST_LOCK])
        progs = [[[LOCK_SH, 0], [USE, 0, 0, 0, 0], [DESTROY, 0]], sum(([[acq, 1], [DESTROY, 1]] for _ in range(n)), [])]
        return {'cfg': cfg, 'progs': progs, 'sched': [(0, 0), (0, 0)] + [(1, 0)] * rng.range(0, 40)}
    cw = ((14, 0), (3, 2))
    kind = rng.below(6)
    if rng.chance(1, 10):
        # first-use race: the threads' FIRST operations on the fresh wrapper interleave step by step
        pre = []
        for i in range(rng.range(4, 12)):
            pre.append((i % nt if rng.chance(3, 4) else rng.below(nt), 0))
        sched = pre + R.any_sched(rng, nt, 60, cw)
    elif kind >= 4:
        # boundary-aimed: stop one thread right after its k-th step (inside an acquisition, between the
        # two edges of a window, between a try-lock and the use of its result), then let the others run
        first = rng.below(nt)
        sched = R.sched_boundary(rng, nt, first, rng.range(1, 14), rng.range(0, 60), cw)
    else:
        sched = R.any_sched(rng, nt, 90, cw)
    return {'cfg': cfg, 'progs': progs, 'sched': sched}


# ----------------------------------------------------------------------------- monitors

def _verdict(lines):
    for l in lines:
        if len(l) >= 2 and l[0] == -1:
            return l[1]
    return 3


def _final(lines):
    for l in lines:
        if len(l) >= 2 and l[0] == -2:
            return l[1:]
    return None


def _ops(case, lines):
    """group the event lines per operation: yields dicts {t, op, events:[(i,k,o,v)], ret, caught}"""
    idx = {}
    cur = {}
    done = []
    for i, l in enumerate(lines):
        if len(l) != 5 or l[0] < 0:
            continue
        t, k, o, v, m = l
        if k == K['INVOKE']:
            n = idx.get(t, 0)
            idx[t] = n + 1
            prog = case['progs'][t] if t < len(case['progs']) else []
            cur[t] = {'t': t, 'op': prog[n] if n < len(prog) else [v], 'events': [], 'ret': None, 'caught': False, 'at': i}
            done.append(cur[t])
        elif t in cur:
            if k == K['RET']:
                cur[t]['ret'] = v
            elif k == K['CATCH']:
                cur[t]['caught'] = True
            else:
                cur[t]['events'].append((i, k, o, v))
    return done


def mon_window_fault(case, lines):
    """overlapping / torn accesses of the wrapped object although locking is enabled"""
    if not locking(case['cfg']) or uses_unowned(case):
        return None
    for i, l in enumerate(lines):
        if len(l) == 5 and l[1] == K['FAULT'] and 1 <= l[3] <= 4:
            return 'thread %d: payload fault %d (1 write-while-read 2 read-while-write 3 write-while-write 4 torn read) at trace line %d' % (l[0], l[3], i)
    # independent of VPay's own detection: windows per object from the trace
    opened = {}
    for i, l in enumerate(lines):
        if len(l) != 5 or l[0] < 0:
            continue
        t, k, o, v, m = l
        if k in (K['RD_BEGIN'], K['WR_BEGIN']):
            w = k == K['WR_BEGIN']
            for (t2, o2), w2 in opened.items():
                if o2 == o and t2 != t and (w or w2):
                    return 'threads %d and %d are inside conflicting accesses of object %d at trace line %d' % (t2, t, o, i)
            opened[(t, o)] = w
        elif k in (K['RD_END'], K['WR_END']):
            opened.pop((t, o), None)
    return None


def mon_lost_update(case, lines):
    """every write is a read-increment-write under the lock: final value = initial + number of writes"""
    cfg = case['cfg']
    if not locking(cfg) or uses_unowned(case) or not only_incr_writes(case):
        return None
    fin = _final(lines)
    if fin is None:
        return None
    writes = 0
    for o in _ops(case, lines):
        if o['op'][0] in (USE, MODIFY):
            if plain(cfg):
                # no window events: count the completed increments (an increment in flight cannot be pre-empted)
                done = o['ret'] is not None and not o['caught'] and available(cfg, o['op'][0])
                if o['op'][0] == USE:
                    done = done and len(o['op']) > 2 and o['op'][2] == 1 and o['ret'] >= 0
                writes += 1 if done else 0
            else:
                writes += sum(1 for (_, k, _, _) in o['events'] if k == K['WR_END'])
    if fin[0] != cfg[3] + writes:
        return 'final payload %d, expected %d + %d completed increments' % (fin[0], cfg[3], writes)
    return None


def _track(case, lines):
    """handle table per thread, driven by the observed lock events: (truth, owns, shared-type)"""
    tab = {}
    out = []
    for o in _ops(case, lines):
        t, op = o['t'], o['op']
        sl = tab.setdefault(t, [None] * NSLOTS)
        code = op[0]
        a = list(op[1:]) + [0, 0, 0, 0]
        h = a[0]
        complete = o['ret'] is not None or o['caught']
        out.append((o, [None if x is None else tuple(x) for x in sl]))
        if not (0 <= h < NSLOTS) or not complete and code not in ACQ:
            continue
        if code in ACQ and available(case['cfg'], code):
            acq = [(k, v) for (_, k, _, v) in o['events'] if k in LOCK_KINDS]
            if locking(case['cfg']):
                if not acq:
                    continue    # still blocked in the constructor
                k, v = acq[0]
                ok = True if k in (K['LOCK'], K['LOCK_SH']) else bool(v)
            else:
                ok = None
            if complete:
                sl[h] = [True if ok is None else ok, bool(ok), code in ACQ_S]
        elif code == UNLOCK and sl[h] is not None:
            sl[h] = [False, False, sl[h][2]]
        elif code == DESTROY:
            sl[h] = None
        elif code in (MOVE_CTOR, MOVE_ASSIGN):
            d = a[1]
            if 0 <= d < NSLOTS and d != h and sl[h] is not None and (code == MOVE_CTOR or (sl[d] is not None and sl[d][2] == sl[h][2])):
                sl[d] = list(sl[h])
                sl[h] = [sl[h][0], False, sl[h][2]]
    return out, tab


def mon_handle_truth(case, lines):
    """a handle is true exactly when its acquisition obtained the lock; false after unlock(); moves copy the truth value"""
    cfg = case['cfg']
    for o, sl in _track(case, lines)[0]:
        op, code = o['op'], o['op'][0]
        if o['ret'] is None:
            continue
        if code in ACQ and available(cfg, code) and 0 <= op[1] < NSLOTS:
            if not locking(cfg):
                if o['ret'] != 1:
                    return 'disabled mode: acquisition %s of thread %d returned a null handle' % (op, o['t'])
                continue
            acq = [(k, v) for (_, k, _, v) in o['events'] if k in LOCK_KINDS]
            if not acq:
                return 'acquisition %s of thread %d completed without any mutex operation (line %d)' % (op, o['t'], o['at'])
            k, v = acq[0]
            ok = 1 if k in (K['LOCK'], K['LOCK_SH']) else v
            if o['ret'] != ok:
                return 'thread %d: %s returned a %s handle although the lock was %s (trace line %d)' % (
                    o['t'], op, 'true' if o['ret'] else 'null', 'obtained' if ok else 'not obtained', o['at'])
        elif code == BOOL and 0 <= op[1] < NSLOTS and sl[op[1]] is not None:
            if o['ret'] != (1 if sl[op[1]][0] else 0):
                return 'thread %d: bool(handle %d) = %d, expected %d (trace line %d)' % (o['t'], op[1], o['ret'], 1 if sl[op[1]][0] else 0, o['at'])
    return None


def mon_try_blocks(case, lines):
    """try / timed acquisitions must use a non-blocking (resp. timed) mutex operation, blocking ones a blocking one"""
    cfg = case['cfg']
    if not locking(cfg):
        return None
    for o in _ops(case, lines):
        code = o['op'][0]
        if code in ACQ and available(cfg, code):
            for (i, k, _, v) in o['events'][:1]:
                if k not in LOCK_KINDS:
                    continue
                want_try = code in TRYING
                if want_try != (k in TRY_KINDS):
                    return 'thread %d: %s performed mutex operation kind %d (trace line %d)' % (o['t'], o['op'], k, i)
                if (code in TIMED_OPS) != (k in (K['TRYLOCK_FOR'], K['TRYLOCK_SH_FOR'])):
                    return 'thread %d: %s performed mutex operation kind %d (trace line %d)' % (o['t'], o['op'], k, i)
    return None


def mon_release_balance(case, lines):
    """every obtained lock is released exactly once: acquisitions - releases = what the mutex still shows,
    and that is exactly what the live handles own"""
    fin = _final(lines)
    if fin is None or _verdict(lines) == 3 or fin[1] == -2 or fin[2] == -2:
        return None     # (-2: the driver could not find the mutex member to peek at)
    ax = ux = as_ = us = 0
    for l in lines:
        if len(l) != 5 or l[0] < 0:
            continue
        k, v = l[1], l[3]
        if k == K['LOCK'] or (k in (K['TRYLOCK'], K['TRYLOCK_FOR']) and v):
            ax += 1
        elif k == K['UNLOCK']:
            ux += 1
        elif k == K['LOCK_SH'] or (k in (K['TRYLOCK_SH'], K['TRYLOCK_SH_FOR']) and v):
            as_ += 1
        elif k == K['UNLOCK_SH']:
            us += 1
    owner, sharers = fin[1], fin[2]
    if ax - ux != (1 if owner != -1 else 0) or as_ - us != sharers:
        return 'exclusive: %d acquired, %d released, mutex %s at the end; shared: %d acquired, %d released, %d sharers at the end' % (
            ax, ux, 'owned by %d' % owner if owner != -1 else 'free', as_, us, sharers)
    if _verdict(lines) != 0:
        return None
    # live handles at the end, by the tracked table
    _, tab = _track(case, lines)
    shcap = case['cfg'][1] in (SHMUTEX, SHTIMED)
    ox = sum(1 for sl in tab.values() for x in sl if x is not None and x[1] and not (x[2] and shcap))
    os_ = sum(1 for sl in tab.values() for x in sl if x is not None and x[1] and x[2] and shcap)
    if (1 if owner != -1 else 0) != ox or sharers != os_:
        return 'at the end the mutex is %s with %d sharers, but the live handles own %d exclusive / %d shared locks' % (
            'owned by %d' % owner if owner != -1 else 'free', sharers, ox, os_)
    return None


def mon_deadlock(case, lines):
    """clients that never block while holding a handle and release every handle always finish"""
    v = _verdict(lines)
    if v == 2:
        return 'the run did not terminate within the fuel bound'
    if v == 1 and (not locking(case['cfg']) or wf_release(case)):
        return 'deadlock although no thread blocks while holding a handle and every handle is released'
    return None


def mon_disabled_mode(case, lines):
    """locking disabled at construction: handle operations perform no mutex operation and never wait"""
    cfg = case['cfg']
    if locking(cfg):
        return None
    for o in _ops(case, lines):
        if o['op'][0] <= BOOL:
            for (i, k, _, _) in o['events']:
                if k in LOCK_KINDS or k in (K['UNLOCK'], K['UNLOCK_SH']):
                    return 'disabled mode: %s of thread %d performed mutex operation kind %d (trace line %d)' % (o['op'], o['t'], k, i)
    return None


def mon_unlock_after_throw(case, lines):
    """(C20) an operation that ends with an exception has released the lock it took"""
    for o in _ops(case, lines):
        if o['caught']:
            a = sum(1 for (_, k, _, v) in o['events'] if k in (K['LOCK'], K['LOCK_SH']))
            u = sum(1 for (_, k, _, v) in o['events'] if k in (K['UNLOCK'], K['UNLOCK_SH']))
            if a != u:
                return 'thread %d: %s threw after %d lock and %d unlock operations (trace line %d)' % (o['t'], o['op'], a, u, o['at'])
    return None


def _shared_type_op(cfg, op):
    """the operation takes the mutex through shared_locker (a shared-type lock object)"""
    return op[0] in ACQ_S or op[0] == READ or (op[0] == LOAD and cfg[0] == ORDERED)


def mon_rw_overlap(case, lines):
    """(C02) a reader is inside the object while a writer is (either order)"""
    if not locking(case['cfg']) or uses_unowned(case):
        return None
    for i, l in enumerate(lines):
        if len(l) == 5 and l[1] == K['FAULT'] and l[3] in (1, 2, 4):
            return 'thread %d: reader / writer overlap (payload fault %d) at trace line %d' % (l[0], l[3], i)
    opened = {}
    for i, l in enumerate(lines):
        if len(l) != 5 or l[0] < 0:
            continue
        t, k, o, v, m = l
        if k in (K['RD_BEGIN'], K['WR_BEGIN']):
            w = k == K['WR_BEGIN']
            for (t2, o2), w2 in opened.items():
                if o2 == o and t2 != t and w != w2:
                    return 'threads %d and %d: a read window and a write window of object %d are open together (trace line %d)' % (t2, t, o, i)
            opened[(t, o)] = w
        elif k in (K['RD_END'], K['WR_END']):
            opened.pop((t, o), None)
    return None


def mon_reader_blocked(case, lines):
    """(C02) shared-capable mutex: a shared acquisition fails, or stays blocked for ever, although every current
    holder of the mutex got it through a shared acquisition (a reader blocked merely by other readers)"""
    cfg = case['cfg']
    if not locking(cfg) or cfg[1] not in (SHMUTEX, SHTIMED):
        return None
    held = {}      # thread -> list of 'S' / 'X': the kind of OPERATION that took each lock the thread holds
    cur = {}       # thread -> [op, finished, saw a lock event]
    idx = {}
    for i, l in enumerate(lines):
        if len(l) != 5 or l[0] < 0:
            continue
        t, k, ob, v, m = l
        if k == K['INVOKE']:
            n = idx.get(t, 0)
            idx[t] = n + 1
            prog = case['progs'][t] if t < len(case['progs']) else []
            cur[t] = [prog[n] if n < len(prog) else [v], False, False]
            continue
        if t not in cur:
            continue
        if k in (K['RET'], K['CATCH']):
            cur[t][1] = True
            continue
        op = cur[t][0]
        kind = 'S' if _shared_type_op(cfg, op) else 'X'
        if kind == 'S' and available(cfg, op[0]) and k in (K['LOCK'], K['TRYLOCK'], K['TRYLOCK_FOR']):
            return 'thread %d: the shared acquisition %s took the mutex exclusively (it waits for other readers; trace line %d)' % (t, op, i)
        if k in LOCK_KINDS:
            cur[t][2] = True
            ok = True if k in (K['LOCK'], K['LOCK_SH']) else bool(v)
            if ok:
                held.setdefault(t, []).append(kind)
            elif kind == 'S' and 'X' not in [x for xs in held.values() for x in xs]:
                return 'thread %d: %s failed although only readers hold the mutex (trace line %d)' % (t, op, i)
        elif k in (K['UNLOCK'], K['UNLOCK_SH']):
            xs = held.get(t, [])
            if len(set(xs)) > 1:
                return None     # mixed holdings of one thread: which one was released is not observable
            if xs:
                xs.pop()
    if _verdict(lines) == 1 and 'X' not in [x for xs in held.values() for x in xs]:
        for t, (op, finished, locked) in cur.items():
            if not finished and not locked and _shared_type_op(cfg, op) and op[0] not in TRYING and available(cfg, op[0]):
                return 'thread %d: %s is blocked for ever although only readers hold the mutex' % (t, op)
    return None


def _register_history(case, lines):
    """[(thread, start line, end line or None, kind, args, result or None)] of the completed / pending operations
    that read or write the wrapped object, or None when the case is outside the register view"""
    cfg = case['cfg']
    hist = []
    cur = {}
    idx = {}
    for i, l in enumerate(lines):
        if len(l) != 5 or l[0] < 0:
            continue
        t, k, ob, v, m = l
        if k == K['INVOKE']:
            n = idx.get(t, 0)
            idx[t] = n + 1
            prog = case['progs'][t] if t < len(case['progs']) else []
            cur[t] = [prog[n] if n < len(prog) else [v], i]
        elif k in (K['RET'], K['CATCH']) and t in cur:
            op, start = cur.pop(t)
            if k == K['CATCH']:
                continue                      # an operation that threw has no effect
            e = _regop(cfg, op, v)
            if e is not None:
                hist.append((t, start, i, e[0], e[1], e[2]))
    for t, (op, start) in cur.items():
        e = _regop(cfg, op, None)
        if e is not None:
            hist.append((t, start, None, e[0], e[1], None))
    return hist


def _regop(cfg, op, ret):
    """(kind, args, expected result or None = unchecked) ; None: not an access of the wrapped object"""
    code = op[0]
    a = list(op[1:]) + [0, 0, 0, 0]
    if not available(cfg, code):
        return None
    if code in (LOAD, CAST):
        return ('load', (), ret)
    if code == READ:
        return ('load', (), ret if a[0] % 2 else None)
    if code in (STORE, ASSIGN):
        return ('store', (a[0],), None)
    if code == MODIFY:
        return ('incr', (), ret if a[0] % 2 else None)
    if code == EXCHANGE:
        return ('xchg', (a[0],), ret)
    if code == CAS:
        return ('cas', (a[0], a[1]), ret)
    if code == USE:
        if ret is not None and ret < 0:
            return None                       # refused / skipped / null handle: no access
        if a[1] == 0:
            return ('load', (), ret)
        if a[1] == 1:
            return ('incr', (), ret)
        if a[1] == 2:
            return ('store', (a[2],), None)
    return None


def _apply(x, kind, args):
    if kind == 'load':
        return x, x
    if kind == 'store':
        return args[0], 0
    if kind == 'incr':
        return x + 1, x + 1
    if kind == 'xchg':
        return args[0], x
    if x == args[0]:
        return args[1], 2 * args[0] + 1
    return x, 2 * x


def mon_linearizable(case, lines):
    """(C15) brute force: the history of register operations (invoke / return positions and values) has a
    linearization against the sequential register; pending operations may or may not have taken effect"""
    cfg = case['cfg']
    if not locking(cfg) or uses_unowned(case):
        return None
    hist = _register_history(case, lines)
    n = len(hist)
    if n == 0 or n > 12:
        return None
    fin = _final(lines)
    memo = set()

    def search(x, done):
        if (x, done) in memo:
            return False
        if all(done >> i & 1 or hist[i][2] is None for i in range(n)):
            if fin is None or _verdict(lines) != 0 or fin[0] == x:
                return True
        # candidates: not yet linearized, and no unlinearized completed operation ended before they started
        first_end = min([hist[i][2] for i in range(n) if not done >> i & 1 and hist[i][2] is not None] or [10 ** 9])
        for i in range(n):
            if done >> i & 1 or hist[i][1] > first_end:
                continue
            y, r = _apply(x, hist[i][3], hist[i][4])
            if hist[i][5] is not None and hist[i][5] != r:
                continue
            if search(y, done | 1 << i):
                return True
        memo.add((x, done))
        return False

    if search(cfg[3], 0):
        return None
    return 'no linearization of the %d register operations %s explains the returned values%s' % (
        n, [(h[0], h[3], h[4], h[5]) for h in hist], '' if fin is None else ' and the final value %d' % fin[0])


def mon_torn_load(case, lines):
    """(C15) a load / read closes its read window while the object is half-written"""
    if not locking(case['cfg']) or uses_unowned(case):
        return None
    for i, l in enumerate(lines):
        if len(l) == 5 and l[1] == K['FAULT'] and l[3] in (2, 4):
            return 'thread %d read a half-written object (payload fault %d) at trace line %d' % (l[0], l[3], i)
    return None


def mon_whole_object_op_unlocked(case, lines):
    """(C01) load / store / operator= / modify / read / exchange / compare_exchange / operator T completed
    without acquiring the wrapper's mutex between its K_INVOKE and its K_RET"""
    cfg = case['cfg']
    if not locking(cfg):
        return None
    for o in _ops(case, lines):
        if o['op'][0] in WHOLE and available(cfg, o['op'][0]) and (o['ret'] is not None or o['caught']):
            got = any(k in (K['LOCK'], K['LOCK_SH']) or (k in TRY_KINDS and v) for (_, k, _, v) in o['events'])
            if not got:
                return 'thread %d: %s completed without acquiring the mutex (trace line %d)' % (o['t'], o['op'], o['at'])
    return None


def mon_unexpected_exception(case, lines):
    """an operation ends in K_CATCH although no user-code invocation of the throw plan threw inside it"""
    for o in _ops(case, lines):
        if o['caught'] and not any(k == K['THROW'] for (_, k, _, _) in o['events']):
            return 'thread %d: %s ended with an exception that no user code threw (trace line %d)' % (o['t'], o['op'], o['at'])
    return None


def mon_writer_lock_mode(case, lines):
    """(C01 / C02) an operation that may modify the object (lock, try_lock*, store, operator=, modify, exchange,
    compare_exchange, ...) took the mutex in shared mode"""
    cfg = case['cfg']
    if not locking(cfg):
        return None
    for o in _ops(case, lines):
        code = o['op'][0]
        if (code in ACQ_X or code in (STORE, ASSIGN, MODIFY, EXCHANGE, CAS, CAST)) and available(cfg, code):
            for (i, k, _, v) in o['events']:
                if k in SH_KINDS:
                    return 'thread %d: %s took the mutex in shared mode (event kind %d, trace line %d)' % (o['t'], o['op'], k, i)
    return None


def mon_assign_steals_source(case, lines):
    """(C15) `wrapper = lvalue;` left the caller's object moved-from (the driver logs K_FAULT 0 8)"""
    for i, l in enumerate(lines):
        if len(l) == 5 and l[1] == K['FAULT'] and l[3] == 8:
            return 'thread %d: assignment from an lvalue stole the source object (trace line %d)' % (l[0], i)
    return None


def mon_cas_truth(case, lines):
    """(C15) compare_exchange succeeds exactly when the current value equals the expected one: a failing CAS
    reports the current value through `expected`, so failure with expected_out == expected (or success with
    expected_out != expected) is impossible"""
    cfg = case['cfg']
    for o in _ops(case, lines):
        if o['op'][0] == CAS and available(cfg, CAS) and o['ret'] is not None and len(o['op']) >= 3:
            ok, out = o['ret'] & 1, o['ret'] >> 1
            e = o['op'][1]
            if (ok == 0 and out == e) or (ok == 1 and out != e):
                return 'thread %d: compare_exchange(expected=%d, desired=%d) returned %s with expected=%d afterwards (trace line %d)' % (
                    o['t'], e, o['op'][2], 'true' if ok else 'false', out, o['at'])
    return None


def mon_timeout_overflow(case, lines):
    """a timed acquisition handed the mutex a relative timeout that overflows when added to now()
    (undefined behaviour inside the standard library; the instrumented mutex logs K_FAULT <mutex> 10)"""
    for i, l in enumerate(lines):
        if len(l) == 5 and l[1] == K['FAULT'] and l[3] == 10:
            return 'thread %d: try_lock_for / try_lock_shared_for called with a timeout that overflows steady_clock::now() + timeout (trace line %d)' % (l[0], i)
    return None


def mon_exchange_returns_replaced(case, lines):
    """(C15) exchange returns exactly the object it replaced: no object is returned by two exchanges (the driver
    checks the tags of the trivially copyable payload and logs K_FAULT 0 11)"""
    for i, l in enumerate(lines):
        if len(l) == 5 and l[1] == K['FAULT'] and l[3] == 11:
            return 'thread %d: exchange returned an object that an earlier exchange had already returned (trace line %d)' % (l[0], i)
    return None


def mon_timed_gave_up_early(case, lines):
    """a timed acquisition with a positive limit reached the mutex with a limit <= 0 (it then gives up at once
    although no time-out occurred; the instrumented mutex logs K_FAULT <mutex> 12)"""
    for i, l in enumerate(lines):
        if len(l) == 5 and l[1] == K['FAULT'] and l[3] == 12:
            return 'thread %d: a positive time limit reached the mutex as a limit <= 0 (trace line %d)' % (l[0], i)
    return None


def mon_list_init_copy(case, lines):
    """(C15) a copy of the wrapped object was made with braces and went through T's initializer_list constructor"""
    for i, l in enumerate(lines):
        if len(l) == 5 and l[1] == K['FAULT'] and l[3] == 13:
            return 'thread %d: the payload was list-initialised from a payload instead of copied (trace line %d)' % (l[0], i)
    return None


ATOMIC_KINDS = (K['LOAD'], K['STORE'], K['RMW'], K['CAS_OK'], K['CAS_FAIL'], K['XCHG'])


def mon_mo_weakened(case, lines):
    """an atomic operation inside a wrapper operation is relaxed / consume: lock and unlock must synchronise
    (acquire / release) for the lock discipline to imply race freedom (SC-for-DRF, Lockset.lockset_race_free)"""
    for i, l in enumerate(lines):
        if len(l) == 5 and l[0] >= 0 and (l[1] in ATOMIC_KINDS or l[1] - 100 in ATOMIC_KINDS) and l[4] in (0, 1):
            return 'thread %d: atomic operation kind %d with memory order %d inside a wrapper operation (trace line %d)' % (l[0], l[1], l[4], i)
    return None


WINDOW_KINDS = (K['RD_BEGIN'], K['RD_END'], K['WR_BEGIN'], K['WR_END'], K['CALL'])


def mon_write_outside_section(case, lines):
    """every payload access (and every call of the payload's copy / assignment or of the functor) of a whole-object
    operation lies between that operation's own acquisition of the mutex and its release"""
    cfg = case['cfg']
    for o in _ops(case, lines):
        if o['op'][0] not in WHOLE or not available(cfg, o['op'][0]):
            continue
        ev = o['events']
        locks = [j for j, (_, k, _, v) in enumerate(ev) if k in (K['LOCK'], K['LOCK_SH']) or (k in TRY_KINDS and v)]
        unlocks = [j for j, (_, k, _, _) in enumerate(ev) if k in (K['UNLOCK'], K['UNLOCK_SH'])]
        if not locks:
            continue        # wrapper.whole_object_op_unlocked reports that
        first = locks[0]
        last = unlocks[-1] if unlocks else len(ev)
        for j, (i, k, _, _) in enumerate(ev):
            if k in WINDOW_KINDS and (j < first or j > last):
                return 'thread %d: %s touches the payload (event kind %d, trace line %d) outside its critical section' % (o['t'], o['op'], k, i)
    return None


MONITORS = {
    'window_fault': mon_window_fault, 'lost_update': mon_lost_update, 'handle_truth': mon_handle_truth,
    'try_blocks': mon_try_blocks, 'release_balance': mon_release_balance, 'deadlock': mon_deadlock,
    'disabled_mode': mon_disabled_mode, 'unlock_after_throw': mon_unlock_after_throw,
    'rw_overlap': mon_rw_overlap, 'reader_blocked': mon_reader_blocked,
    'linearizable': mon_linearizable, 'torn_load': mon_torn_load,
    'whole_object_op_unlocked': mon_whole_object_op_unlocked, 'unexpected_exception': mon_unexpected_exception,
    'write_outside_section': mon_write_outside_section, 'timed_gave_up_early': mon_timed_gave_up_early, 'list_init_copy': mon_list_init_copy, 'mo_weakened': mon_mo_weakened,
    'exchange_returns_replaced': mon_exchange_returns_replaced, 'timeout_overflow': mon_timeout_overflow, 'writer_lock_mode': mon_writer_lock_mode, 'assign_steals_source': mon_assign_steals_source, 'cas_truth': mon_cas_truth,
}
