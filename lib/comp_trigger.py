"""TriggerVariable: generator and implementation-side monitors (C11)."""
from events import K
import rng as R

NAME = 'trigger'
DRIVER = 'harness/trigger_drv.cpp'
EXTRACT = 'Extract/TriggerExtract.v'
ML = 'trigger_model'
SANITIZE = False
ENUM = True

ACTIVATE, TRIGGER, ISTRIG, WAIT, WAITFOR, WAITACT, WAITFORACT, RESET, ISACTIVE = range(9)
OPNAME = ['activate', 'trigger', 'isTriggered', 'wait', 'wait_for', 'waitActivation', 'wait_forActivation', 'reset',
          'isActive']


# ----------------------------------------------------------------------------- generator

def _role_prog(rng, role, n):
    if role == 'waiter':
        w = [(5, WAIT), (4, WAITFOR), (1, ISTRIG), (1, WAITACT)]
    elif role == 'actwaiter':
        w = [(5, WAITACT), (4, WAITFORACT), (2, WAIT), (1, ISACTIVE)]
    elif role == 'driver':   # the thread that arms and fires
        w = [(5, ACTIVATE), (5, TRIGGER), (2, RESET), (1, ISTRIG)]
    elif role == 'resetter':
        w = [(5, RESET), (3, ACTIVATE), (2, TRIGGER), (1, ISACTIVE)]
    else:
        w = [(3, ACTIVATE), (3, TRIGGER), (1, ISTRIG), (3, WAIT), (3, WAITFOR), (2, WAITACT), (2, WAITFORACT), (3, RESET),
             (1, ISACTIVE)]
    return [[rng.weighted(w)] for _ in range(n)]


def gen(rng, tier, spec):
    if rng.below(50) == 0:
        # the known finding (known_findings.json): a blocked waitActivation notified by activate(), whose
        # activation a reset() revokes before the woken waiter re-tests the flag
        progs = [[[WAITACT]], [[ACTIVATE], [RESET]] + _role_prog(rng, 'driver', rng.range(0, 1))]
        if rng.chance(1, 2):
            progs.append(_role_prog(rng, 'waiter', 1))
        sched = [(0, 0)] * 5 + [(1, 0)] * rng.range(21, 26) + [(0, 0)] * rng.range(0, 4)
        sched += R.sched_random(rng, len(progs), rng.range(0, 10), ((14, 0), (2, 1), (2, 2)))
        return {'cfg': [0], 'progs': progs, 'sched': sched}
    if rng.below(14) == 0:
        # boundary-aimed: a wait_for / wait_forActivation with a zero or negative duration (a "poll") on a variable
        # whose event happened long ago, issued exactly while another thread owns the matching mutex (inside
        # trigger() / wait() / wait_for(), resp. activate() / waitActivation()): the poll must still report the event
        dur = rng.pick([0, 0, -5])
        if rng.chance(2, 3):
            holder = rng.pick([[TRIGGER], [WAIT], [WAITFOR], [WAITFOR, 0]])
            progs = [[[TRIGGER]], [holder] + _role_prog(rng, 'waiter', rng.range(0, 1)),
                     [[WAITFOR, dur]] + _role_prog(rng, 'waiter', rng.range(0, 1))]
            first, hold = 6, 3
        else:
            holder = rng.pick([[WAITACT], [WAITFORACT], [WAITFORACT, 0], [RESET]])
            progs = [[[ISACTIVE]], [holder] + _role_prog(rng, 'actwaiter', rng.range(0, 1)),
                     [[WAITFORACT, dur]] + _role_prog(rng, 'actwaiter', rng.range(0, 1))]
            first, hold = 2, 2
        sched = [(0, 0)] * first + [(1, 0)] * (hold + rng.range(0, 1)) + [(2, 0)] * rng.range(2, 5)
        sched += R.sched_random(rng, 3, rng.range(0, 20), ((14, 0), (2, 1), (2, 2)))
        return {'cfg': [1], 'progs': progs, 'sched': sched}
    if rng.below(12) == 0:
        # boundary-aimed: the time-out (choice 2) of a sleeping timed waiter fires exactly while the setter owns the
        # matching mutex, between its lock and its flag store / between the store and the notify; the waiter then
        # re-acquires the mutex after the flag was set and must re-evaluate the predicate (returns true)
        if rng.chance(1, 2):
            progs = [[[WAITFOR]] + _role_prog(rng, 'waiter', rng.range(0, 1)),
                     [[TRIGGER]] + _role_prog(rng, 'driver', rng.range(0, 1))]
            cfg, ksleep, khold = [1], 6, rng.range(3, 4)
        else:
            progs = [[[WAITFORACT]] + _role_prog(rng, 'actwaiter', rng.range(0, 1)),
                     [[ACTIVATE]] + _role_prog(rng, 'driver', rng.range(0, 1))]
            cfg, ksleep, khold = [0], 5, rng.range(6, 7)
        if rng.chance(1, 3):
            progs.append(_role_prog(rng, 'any', rng.range(1, 2)))
        sched = [(0, 0)] * ksleep + [(1, 0)] * khold + [(0, 2)]
        if rng.chance(1, 2):
            sched += [(1, 0)] * rng.range(1, 4) + [(0, 0)] * rng.range(0, 4)
        sched += R.sched_random(rng, len(progs), rng.range(0, 20), ((14, 0), (2, 1), (2, 2)))
        return {'cfg': cfg, 'progs': progs, 'sched': sched}
    if rng.below(15) == 0:
        # boundary-aimed: two overlapping reset() calls, the first one pre-empted around the unlock / trigger() /
        # re-lock of its loop while the second completes (so the first one's trigger() finds the variable inactive),
        # a third thread re-activates and blocks in wait() before the first reset() re-acquires activeLock: that
        # reset() must re-test `triggered`, trigger the new cycle and only then deactivate
        progs = [[[RESET]] + _role_prog(rng, 'resetter', rng.range(0, 1)),
                 [[RESET]] + _role_prog(rng, 'driver', rng.range(0, 1)),
                 [[ACTIVATE], [rng.pick([WAIT, WAIT, WAITFOR])]] + _role_prog(rng, 'waiter', rng.range(0, 1))]
        sched = [(0, 0)] * rng.range(4, 6) + [(1, 0)] * rng.range(12, 15) + [(0, 0)] * rng.range(0, 2)
        sched += [(2, 0)] * rng.range(13, 17) + [(0, 0)] * rng.range(2, 12)
        sched += R.sched_random(rng, 3, rng.range(0, 15), ((14, 0), (2, 1), (2, 2)))
        return {'cfg': [1], 'progs': progs, 'sched': sched}
    nt = rng.weighted([(1, 1), (5, 2), (6, 3), (3, 4)])
    shape = rng.below(10)
    progs = []
    if shape < 3:
        # the canonical use: activate ; trigger on one thread, waiters on the others
        progs.append([[ACTIVATE], [TRIGGER]] + _role_prog(rng, 'driver', rng.range(0, 2)))
        for _ in range(nt - 1):
            progs.append(_role_prog(rng, rng.pick(['waiter', 'waiter', 'actwaiter']), rng.range(1, 3)))
    elif shape < 5:
        # reset against waiters and a (re-)activator
        progs.append(_role_prog(rng, 'resetter', rng.range(1, 3)))
        for _ in range(nt - 1):
            progs.append(_role_prog(rng, rng.pick(['waiter', 'driver', 'actwaiter', 'resetter']), rng.range(1, 3)))
    elif shape < 7:
        roles = ['driver', 'waiter', 'actwaiter', 'resetter']
        for i in range(nt):
            progs.append(_role_prog(rng, roles[(i + shape) % 4], rng.range(1, 4)))
    else:
        for _ in range(nt):
            progs.append(_role_prog(rng, 'any', rng.range(1, 4)))
    active = 1 if rng.chance(2, 5) else 0
    cw = ((14, 0), (2, 1), (2, 2))
    kind = rng.below(6)
    if kind >= 4:
        # boundary-aimed: stop a thread at each point of its first operation (between the unlocked
        # check of `activated` and the lock, between the predicate test and the sleep, between
        # activate's clear and its set, between reset's unlock and the nested trigger, ...)
        first = rng.below(nt)
        sched = R.sched_boundary(rng, nt, first, rng.range(1, 10), rng.range(0, 50), cw)
        if kind == 5 and nt >= 2:
            # ... and then a second thread at a chosen point as well
            second = (first + 1 + rng.below(nt - 1)) % nt
            k1 = rng.range(1, 8)
            sched = sched[:rng.range(1, 10)] + [(second, 0)] * k1 + sched[10:]
    else:
        sched = R.any_sched(rng, nt, 70, cw)
    # now and then a timed wait gets an explicit duration, including the degenerate ones (zero, negative)
    for pr in progs:
        for o in pr:
            if o[0] in (WAITFOR, WAITFORACT) and len(o) == 1 and rng.below(4) == 0:
                o.append(rng.pick([0, 0, -5, 10]))
    return {'cfg': [active], 'progs': progs, 'sched': sched}


# ----------------------------------------------------------------------------- trace reading

def _events(lines):
    """[(index, tid, kind, obj, val, mo, opcode, opinstance)] for event lines"""
    cur, inst, out = {}, {}, []
    n = 0
    for i, l in enumerate(lines):
        if len(l) != 5 or l[0] < 0:
            continue
        t, k, o, v, m = l
        if k == K['INVOKE']:
            cur[t] = v
            n += 1
            inst[t] = n
        out.append((i, t, k, o, v, m, cur.get(t), inst.get(t)))
    return out


def _roles(evs):
    """object id -> 'A' (activated) | 'T' (triggered), from how each operation uses its atomics"""
    votes = {}
    nload = {}
    for i, t, k, o, v, m, op, ins in evs:
        r = None
        if k == K['INVOKE']:
            nload[t] = 0
        elif k == K['LOAD']:
            n = nload.get(t, 0)
            nload[t] = n + 1
            if op in (ACTIVATE, TRIGGER, ISACTIVE, WAITACT, WAITFORACT):
                r = 'A'
            elif op == ISTRIG:
                r = 'T'
            elif op in (WAIT, WAITFOR):
                r = 'A' if n == 0 else 'T'
        elif k == K['STORE']:
            if op == ACTIVATE:
                r = 'A' if v == 1 else 'T'
            elif op == TRIGGER:
                r = 'T'
            elif op == RESET:
                r = 'T' if v == 1 else 'A'
        if r:
            d = votes.setdefault(o, {'A': 0, 'T': 0})
            d[r] += 1
    role = {}
    for o, d in votes.items():
        role[o] = 'A' if d['A'] >= d['T'] else 'T'
    # the class has exactly two atomics: an object seen only in reset()'s loads is the other one
    atoms = []
    for i, t, k, o, v, m, op, ins in evs:
        if k in (K['LOAD'], K['STORE']) and o not in atoms:
            atoms.append(o)
    if len(atoms) == 2:
        a, b = atoms
        if a in role and b not in role:
            role[b] = 'T' if role[a] == 'A' else 'A'
        elif b in role and a not in role:
            role[a] = 'T' if role[b] == 'A' else 'A'
    return role


def _verdict(lines):
    for l in lines:
        if len(l) >= 2 and l[0] == -1:
            return l[1]
    return 3


class _View:
    """the trace as seen by the monitors: stores to the two flags, per-operation summaries"""

    def __init__(self, case, lines):
        self.evs = _events(lines)
        self.role = _roles(self.evs)
        self.active0 = 1 if (case['cfg'] and case['cfg'][0]) else 0
        self.stores = {'A': [], 'T': []}   # (index, val, tid, opinstance)
        for i, t, k, o, v, m, op, ins in self.evs:
            if k == K['STORE'] and self.role.get(o) in ('A', 'T'):
                self.stores[self.role[o]].append((i, v, t, ins))

    def value_before(self, flag, index):
        """value of the flag just before trace line `index` (last store, else the constructor's value)"""
        val = self.active0 if flag == 'A' else 0
        for i, v, t, ins in self.stores[flag]:
            if i < index:
                val = v
        return val

    def last_store_before(self, flag, index, val=None):
        best = None
        for s in self.stores[flag]:
            if s[0] < index and (val is None or s[1] == val):
                best = s
        return best


# ----------------------------------------------------------------------------- monitors

def mon_wait_early(case, lines):
    """wait()/wait_for() returned true after observing activated = true, although no triggered=true store
    follows the triggered=false store of the activate() call whose activation it observed"""
    vw = _View(case, lines)
    firstload = {}
    for i, t, k, o, v, m, op, ins in vw.evs:
        if op not in (WAIT, WAITFOR):
            continue
        if k == K['INVOKE']:
            firstload.pop(t, None)
        elif k == K['LOAD'] and t not in firstload:
            firstload[t] = (i, v)
        elif k == K['RET'] and v == 1 and t in firstload and firstload[t][1] == 1:
            li = firstload[t][0]
            act = vw.last_store_before('A', li, 1)      # the activation this wait observed
            if act is None:
                c = -1                                   # constructed active: any trigger counts
            else:
                clears = [s[0] for s in vw.stores['T'] if s[1] == 0 and s[3] == act[3]]
                c = max(clears) if clears else len(lines)
            if not any(s[1] == 1 and c < s[0] < i for s in vw.stores['T']):
                return ('thread %d: %s returned true at trace line %d having seen activated=true at line %d, but no '
                        'triggered=true store lies between the clear of that activation (line %s) and the return'
                        % (t, OPNAME[op], i, li, c if c < len(lines) else 'none yet'))
    return None


def mon_timed_false(case, lines):
    """wait_for / wait_forActivation returned false although the awaited flag was true when it gave up"""
    vw = _View(case, lines)
    for i, t, k, o, v, m, op, ins in vw.evs:
        if k == K['RET'] and v == 0 and op == WAITFOR and vw.value_before('T', i) == 1:
            return 'thread %d: wait_for returned false at line %d although triggered was true' % (t, i)
        if k == K['RET'] and v == 0 and op == WAITFORACT and vw.value_before('A', i) == 1:
            return 'thread %d: wait_forActivation returned false at line %d although activated was true' % (t, i)
    return None


def mon_activation_early(case, lines):
    """waitActivation returned (wait_forActivation returned true) while the variable was not active"""
    vw = _View(case, lines)
    for i, t, k, o, v, m, op, ins in vw.evs:
        if k == K['RET'] and ((op == WAITACT) or (op == WAITFORACT and v == 1)) and vw.value_before('A', i) == 0:
            return 'thread %d: %s returned at line %d while activated was false' % (t, OPNAME[op], i)
    return None


def mon_trigger_reset(case, lines):
    """trigger() on an inactive variable returns false and does nothing else; a true trigger() stored the flag;
    the variable is inactive at the moment reset() returns"""
    vw = _View(case, lines)
    seen = {}
    for i, t, k, o, v, m, op, ins in vw.evs:
        if k == K['INVOKE']:
            seen[t] = {'load': None, 'other': 0, 'store1': 0}
        elif op == TRIGGER and t in seen:
            if k == K['LOAD'] and seen[t]['load'] is None:
                seen[t]['load'] = v
            elif k == K['RET']:
                s = seen[t]
                if s['load'] == 0 and (v != 0 or s['other']):
                    return 'thread %d: trigger() saw activated=false but returned %d / touched the state (line %d)' % (t, v, i)
                if s['load'] == 1 and (v != 1 or not s['store1']):
                    return 'thread %d: trigger() saw activated=true but returned %d without storing triggered (line %d)' % (t, v, i)
            else:
                seen[t]['other'] += 1
                if k == K['STORE'] and v == 1:
                    seen[t]['store1'] += 1
        elif op == RESET and k == K['RET'] and vw.value_before('A', i) == 1:
            return 'thread %d: reset() returned at line %d while activated was true' % (t, i)
    return None


def mon_lost_wakeup(case, lines):
    """deadlock with a thread asleep on cv_trigger (cv_active) although the flag it waits for is true, or
    although a triggered=true (activated=true) store happened after it went to sleep; fuel verdict"""
    vd = _verdict(lines)
    if vd == 2:
        return 'the run did not terminate within the fuel bound'
    if vd != 1:
        return None
    vw = _View(case, lines)
    last, invoke_line, opof = {}, {}, {}
    for e in vw.evs:
        last[e[1]] = e
        if e[2] == K['INVOKE']:
            invoke_line[e[7]] = e[0]
            opof[e[7]] = e[6]
    end = len(lines)
    for t, (i, _, k, o, v, m, op, ins) in sorted(last.items()):
        if k != K['CV_SLEEP']:
            continue
        flag = 'T' if op in (WAIT, WAITFOR) else 'A' if op in (WAITACT, WAITFORACT) else None
        if flag is None:
            continue
        name = 'triggered' if flag == 'T' else 'activated'
        if vw.value_before(flag, end) == 1:
            return 'deadlock: thread %d sleeps in %s (since line %d) although %s is true' % (t, OPNAME[op], i, name)
        later = [s for s in vw.stores[flag] if s[0] > i and s[1] == 1]
        if later:
            return ('deadlock: thread %d sleeps in %s since line %d and was never woken by the %s=true store at line %d'
                    % (t, OPNAME[op], i, name, later[0][0]))
        if flag == 'T':
            # reset() deactivates only after it has seen (or made) triggered = true, and that load cannot lie after
            # the moment a still-blocked waiter went to sleep: a reset() that stores activated=false while the waiter
            # sleeps must have released it
            for j, v2, t2, ins2 in vw.stores['A']:
                if v2 != 0 or j <= i or opof.get(ins2) != RESET:
                    continue
                seen = [e for e in vw.evs if e[7] == ins2 and e[2] == K['LOAD'] and vw.role.get(e[3]) == 'T' and e[0] < j]
                if not seen or seen[-1][4] == 0 or seen[-1][0] > i:
                    why = ('without having loaded triggered' if not seen else
                           'although its last load of triggered (line %d) read false' % seen[-1][0] if seen[-1][4] == 0 else
                           'having read triggered=true at line %d' % seen[-1][0])
                    return ('deadlock: thread %d sleeps in %s since line %d although the reset() invoked at line %d '
                            'deactivated the variable at line %d %s: reset did not release the waiter'
                            % (t, OPNAME[op], i, invoke_line.get(ins2, -1), j, why))
    return None


def mon_activate_lost_to_reset(case, lines):
    """KNOWN FINDING (known_findings.json, tv_no_lost_wakeup_activate_refuted): a thread asleep on cv_active was
    notified by a successful activate(), a reset() stored activated=false before the woken thread re-tested the
    flag, the thread went back to sleep and ends the run blocked although the variable was never re-activated
    while it was blocked"""
    if _verdict(lines) != 1:
        return None
    vw = _View(case, lines)
    last, mine = {}, {}
    for e in vw.evs:
        last[e[1]] = e
        mine.setdefault(e[1], []).append(e)
    end = len(lines)
    for t, (i, _, k, o, v, m, op, ins) in sorted(last.items()):
        if k != K['CV_SLEEP'] or op not in (WAITACT, WAITFORACT):
            continue
        if vw.value_before('A', end) == 1 or any(s[0] > i and s[1] == 1 for s in vw.stores['A']):
            continue          # a genuine lost wake-up: left to the generic monitor
        evs = [e for e in mine[t] if e[7] == ins]
        # the sleep / wake / re-test cycles of this call
        for n, e in enumerate(evs):
            if e[2] != K['CV_WAKE'] or e[4] != 0:
                continue
            sl = [x for x in evs[:n] if x[2] == K['CV_SLEEP']]
            rt = [x for x in evs[n + 1:] if x[2] == K['LOAD']]
            if not sl or not rt or rt[0][4] != 0:
                continue
            s_line, w_line, r_line = sl[-1][0], e[0], rt[0][0]
            acts = [a for a in vw.stores['A'] if a[1] == 1 and s_line < a[0] < w_line]
            for a in acts:
                notified = any(x[2] == K['NOTIFY_ALL'] and x[1] == a[2] and a[0] < x[0] < w_line for x in vw.evs)
                revoked = [d for d in vw.stores['A'] if d[1] == 0 and a[0] < d[0] < r_line]
                if notified and revoked:
                    return ('waitActivation missed an activation that reset() revoked before the re-test: thread %d slept '
                            'at line %d, activate() stored activated=true at line %d and notified, reset() stored '
                            'activated=false at line %d, the waiter re-tested at line %d and sleeps since line %d'
                            % (t, s_line, a[0], revoked[0][0], r_line, i))
    return None


def mon_mo_weakened(case, lines):
    """C07: every atomic operation of TriggerVariable is seq_cst, except the acquire load of `triggered` in reset()'s
    retry loop (TriggerMO.trigger_mo_table).  wait()/wait_for() read `activated` in an unlocked fast path, so the
    activated=false store of reset() is the only happens-before edge for a consumer that returns through it
    (TriggerMO.fast_path_publishes; relaxed variants race: reset_store_relaxed_refuted, fast_path_load_relaxed_refuted)"""
    atomic = (K['LOAD'], K['STORE'], K['RMW'], K['XCHG'], K['CAS_OK'], K['CAS_FAIL'])
    for i, t, k, o, v, m, op, ins in _events(lines):
        if k not in atomic or m == 5:
            continue
        if k == K['LOAD'] and m == 2 and op == RESET:
            continue
        return ('atomic operation (kind %d, value %d) of %s at trace line %d has memory order %d, not seq_cst: a consumer whose '
                'wait() returns through the unlocked `activated` check is then no longer ordered after the producer '
                '(Coq witness TriggerMO.reset_store_relaxed_refuted)' % (k, v, OPNAME[op] if op is not None and 0 <= op < 9 else '?', i, m))
    return None


def mon_notify_outside_lock(case, lines):
    """C07 (lifetime): every notify_all is issued while the notifying thread owns the mutex paired with the condition
    variable (TriggerMO.notify_under_lock).  A waiter can return only after taking that mutex, i.e. after the notifier's
    last access but the unlock; notifying after the unlock lets the waiter return - and destroy the variable - while
    notify_all on its condition variable is still to come."""
    held, pending, asleep, cvm = {}, {}, {}, {}
    for i, t, k, o, v, m, op, ins in _events(lines):
        if t in pending:          # an untimed cv wake re-acquires in the same step; a timed one logs its own LOCK next
            mtx = pending.pop(t)
            if not (k == K['LOCK'] and o == mtx):
                held.setdefault(t, set()).add(mtx)
        h = held.setdefault(t, set())
        if k == K['LOCK']:
            h.add(o)
        elif k == K['UNLOCK']:
            h.discard(o)
        elif k == K['CV_SLEEP']:
            mtx = next(iter(h)) if len(h) == 1 else cvm.get(o)
            if mtx is not None:
                cvm.setdefault(o, mtx)
                h.discard(mtx)
                asleep[t] = mtx
        elif k == K['CV_WAKE']:
            if t in asleep:
                pending[t] = asleep.pop(t)
        elif k in (K['NOTIFY_ALL'], K['NOTIFY_ONE']):
            want = cvm.get(o)
            if (want is not None and want not in h) or (want is None and not h):
                return ('thread %d (%s) called notify on condition variable obj%d at trace line %d without owning its mutex: a '
                        'waiter can take the mutex, return and destroy the variable before this notify (TriggerMO.notify_under_lock)'
                        % (t, OPNAME[op] if op is not None and 0 <= op < 9 else '?', o, i))
    return None


def mon_refused_activate_effect(case, lines):
    """an activate() that returns false (the variable was already active) has no effect: in particular it does not
    store to `triggered`, so it cannot wipe the trigger of the running cycle (TriggerProofs.refused_activate_noop:
    the refused call is one load and changes nothing)"""
    seen = {}
    for i, t, k, o, v, m, op, ins in _events(lines):
        if op != ACTIVATE:
            continue
        if k == K['INVOKE']:
            seen[t] = []
        elif k == K['RET']:
            bad = [e for e in seen.get(t, []) if e[1] in (K['STORE'], K['NOTIFY_ALL'], K['NOTIFY_ONE'], K['RMW'], K['XCHG'], K['CAS_OK'])]
            if v == 0 and bad:
                return ('thread %d: activate() returned false at trace line %d (already active) but wrote shared state at line %d '
                        '(kind %d, value %d): a refused activate() must not clear the trigger of the running cycle'
                        % (t, i, bad[0][0], bad[0][1], bad[0][2]))
        else:
            seen.setdefault(t, []).append((i, k, v))
    return None


MONITORS = {'wait_early': mon_wait_early, 'timed_false': mon_timed_false, 'activation_early': mon_activation_early,
            'trigger_reset': mon_trigger_reset, 'lost_wakeup': mon_lost_wakeup,
            'activate_lost_to_reset': mon_activate_lost_to_reset,
            'mo_weakened': mon_mo_weakened, 'notify_outside_lock': mon_notify_outside_lock,
            'refused_activate_effect': mon_refused_activate_effect}
