"""DelayedObjects: generator and implementation-side monitors (C18).

The monitors replay the API sequentially, in the order of the K_LOCK events of the implementation
trace (the critical sections of promiseLock are totally ordered by them), against a small reference
implementation of the *specification* (life cycle Unknown / Pending / Completed per key; a future
gets the first value set while it was pending, else the fulfil-all value, else 0 at destruction).
They read only the case and the implementation trace.
"""
from events import K
import rng as R

NAME = 'delayedobjects'
DRIVER = 'harness/delayedobjects_drv.cpp'
EXTRACT = 'Extract/DelayedObjectsExtract.v'
ML = 'delayedobjects_model'
SANITIZE = False
ENUM = True
# an uninitialised automatic in the library gets a fixed non-zero pattern instead of whatever is on the stack
CXXFLAGS = '-ftrivial-auto-var-init=pattern'

GETF, SETC, SETM, FULFILL, ISREC, ISCOMP, FINISHED, FREADY, FGET = range(9)
LOCKING = (GETF, SETC, SETM, FULFILL, ISREC, ISCOMP, FINISHED)
EMPTY, NOTREADY, BROKEN, RV_FAULT = -2, -1, -3, -99


# ----------------------------------------------------------------------------- generator

def gen(rng, tier, spec):
    nt = rng.weighted([(1, 1), (5, 2), (6, 3), (3, 4)])
    nslots = rng.range(1, 3)
    nkeys = rng.weighted([(3, 1), (5, 2), (3, 3)])
    once = rng.below(10) < 6       # each (kind,key) requested at most once / anything goes
    allkeys = [(a, b) for a in (0, 1) for b in range(nkeys)]
    requested = []
    val = [0]

    def fresh_val(t):
        val[0] += 1
        return 100 * (t + 1) + val[0]          # distinctive: who set it, and which call

    def key():
        # mostly keys somebody asks for; sometimes any key (unknown / never requested)
        if requested and rng.chance(4, 5):
            return rng.pick(requested)
        return rng.pick(allkeys)

    roles = [rng.weighted([(4, 'consumer'), (4, 'producer'), (3, 'mixed')]) for _ in range(nt)]
    if nt >= 2 and 'consumer' not in roles and 'mixed' not in roles:
        roles[rng.below(nt)] = 'consumer'
    progs = [[] for _ in range(nt)]
    held = [[] for _ in range(nt)]
    # consumers first decide what they ask for, so that producers can aim at it
    plan = []
    for t in range(nt):
        n = rng.range(1, 5)
        ops = []
        for i in range(n):
            if roles[t] == 'consumer':
                o = GETF if i == 0 else rng.weighted([(3, GETF), (3, FREADY), (5, FGET), (1, ISREC), (1, ISCOMP), (2, FINISHED), (1, SETC)])
            elif roles[t] == 'producer':
                o = rng.weighted([(4, SETC), (4, SETM), (2, FULFILL), (1, ISREC), (2, ISCOMP), (1, FINISHED), (1, GETF)])
            else:
                o = rng.weighted([(3, GETF), (2, SETC), (2, SETM), (1, FULFILL), (2, ISREC), (2, ISCOMP), (2, FINISHED),
                                  (2, FREADY), (3, FGET)])
            if o == GETF:
                free = [kk for kk in allkeys if kk not in requested]
                if once and not free:
                    o = FGET
                else:
                    kk = rng.pick(free) if (once or (free and rng.chance(1, 2))) else rng.pick(allkeys)
                    requested.append(kk)
                    ops.append((GETF, kk))
                    continue
            ops.append((o, None))
        plan.append(ops)
    for t in range(nt):
        for o, kk in plan[t]:
            if o == GETF:
                sl = rng.below(nslots)
                held[t].append(sl)
                progs[t].append([GETF, kk[0], kk[1], sl])
            elif o in (SETC, SETM):
                kd, ky = key()
                progs[t].append([o, kd, ky, fresh_val(t)])
            elif o == FULFILL:
                progs[t].append([FULFILL, 5000 + fresh_val(t)])
            elif o in (ISREC, ISCOMP, FINISHED):
                kd, ky = key()
                progs[t].append([o, kd, ky])
            else:
                sl = rng.pick(held[t]) if held[t] and rng.chance(9, 10) else rng.below(nslots)
                progs[t].append([o, sl])
    # variant 1 (about one case in eight): X = long.  No const X& setter, no fulfillAllPromises (no copies exist
    # for a scalar), fewer setters: futures of both key kinds are still pending when the container is destroyed
    variant = 1 if rng.chance(1, 8) else 0
    if variant == 1:
        for t, p in enumerate(progs):
            for op in p:
                if op[0] == SETC:
                    op[0] = SETM
                if op[0] == FULFILL:
                    kd, ky = key()
                    op[:] = [ISCOMP, kd, ky]
                elif op[0] == SETM and rng.chance(1, 2):
                    op[:] = [FGET, rng.pick(held[t]) if held[t] else rng.below(nslots)]
        if len(requested) < 2:
            t = rng.below(nt)
            for kk in [kk for kk in ((0, 0), (1, 0)) if kk not in requested][:2]:
                sl = rng.below(nslots)
                progs[t].insert(0, [GETF, kk[0], kk[1], sl])
                requested.append(kk)
    # throw plan (about 15% of the cases): global indices of the copies of X that throw; aimed at the
    # const X& setters and at fulfillAllPromises (one copy per pending promise)
    plan = []
    if variant == 0 and rng.chance(3, 20):
        for p in progs:
            for op in p:
                if op[0] == SETM and rng.chance(2, 3):
                    op[0] = SETC
        if not any(op[0] in (SETC, FULFILL) for p in progs for op in p):
            t = rng.below(nt)
            kd, ky = key()
            progs[t].append([SETC, kd, ky, fresh_val(t)] if rng.chance(1, 2) else [FULFILL, 5000 + fresh_val(t)])
        ncopy = sum(1 for p in progs for op in p if op[0] == SETC) + \
            sum(min(len(requested), 3) for p in progs for op in p if op[0] == FULFILL)
        n = rng.weighted([(3, 1), (2, 2), (1, 3)])
        plan = sorted(set(rng.below(max(1, ncopy)) for _ in range(n)))
    cw = ((1, 0),)
    kind = rng.below(8)
    if kind == 4:
        # boundary-aimed: stop one thread right after its invoke (1), inside its critical section (2),
        # or after the unlock (3) of its j-th operation, and let the others run
        first = rng.below(nt)
        k = 3 * rng.below(len(progs[first])) + rng.range(1, 4)
        sched = R.sched_boundary(rng, nt, first, k, rng.range(0, 40), cw)
    elif kind == 5:
        sched = []                 # the fair tail only (round robin)
    elif kind in (6, 7):
        # phased: the requests first, then the producers (one of them possibly stopped inside its critical
        # section), then everybody: consumers observe values set while they were not running
        sched = []
        cons = [t for t in range(nt) if roles[t] != 'producer'] or [0]
        prod = [t for t in range(nt) if roles[t] == 'producer'] or list(range(nt))
        for t in cons:
            ng = 0
            for op in progs[t]:
                if op[0] != GETF:
                    break
                ng += 1
            sched += [(t, 0)] * (3 * ng)
        for t in prod:
            sched += [(t, 0)] * rng.range(2, 3 * len(progs[t]))
        sched += R.sched_random(rng, nt, rng.range(0, 30), cw)
    else:
        sched = R.any_sched(rng, nt, 50, cw)
    return {'cfg': [nslots, variant] + plan, 'progs': progs, 'sched': sched}


# ----------------------------------------------------------------------------- reference specification

class Spec:
    """sequential specification of DelayedObjects<X> + std::promise/std::future, X's copy may throw.
    A throwing copy in setDelayedValue leaves everything as it was (the key stays pending).
    A throwing copy in fulfillAllPromises ends the call: the keys served so far (int keys first, then
    string keys, each in key order) are completed, the others are still pending."""

    def __init__(self, nthreads, nslots):
        self.pending = {}      # (kind,key) -> future id
        self.completed = {}    # (kind,key) -> future id
        self.fut = []          # future id -> None (not ready) | value | 'broken'
        self.key_of = []       # future id -> (kind,key)
        self.slots = [[None] * nslots for _ in range(nthreads)]
        self.nslots = nslots
        self.sect = {}         # thread -> the part of its critical section that waits for a copy

    def lock(self, t, op):
        """the critical section starts; returns the value the call will return"""
        o = op[0]
        self.sect.pop(t, None)
        if o == GETF:
            kk = (1 if op[1] else 0, op[2])
            fid = len(self.fut)
            self.fut.append(None)
            self.key_of.append(kk)
            old = self.pending.get(kk)
            if old is not None and self.fut[old] is None:
                self.fut[old] = 'broken'          # re-request of a pending key: outside the property, std semantics
            self.pending[kk] = fid
            if 0 <= op[3] < self.nslots:
                self.slots[t][op[3]] = fid
            return 0
        if o == SETM:
            self._set((1 if op[1] else 0, op[2]), op[3])
            return 0
        if o == SETC:
            kk = (1 if op[1] else 0, op[2])
            if kk in self.pending:
                self.sect[t] = {'todo': [kk], 'v': op[3], 'done': 0}
            return 0
        if o == FULFILL:
            # int map first, then string map, each in key order
            self.sect[t] = {'todo': sorted(self.pending.keys()), 'v': op[1], 'done': 0}
            return 0
        kk = (1 if op[1] else 0, op[2])
        if o == ISREC:
            return 1 if (kk in self.pending or kk in self.completed) else 0
        if o == ISCOMP:
            return 1 if kk in self.completed else 0
        if o == FINISHED:
            self.completed.pop(kk, None)
            return 0
        return 0

    def _set(self, kk, v):
        fid = self.pending.pop(kk, None)
        if fid is not None:
            self.fut[fid] = v
            self.completed[kk] = fid

    def copy(self, t, op, throws):
        """one copy of X inside thread t's critical section"""
        sc = self.sect.get(t)
        if sc is None or not sc['todo']:
            return
        if throws:
            self.sect.pop(t, None)
            return
        self._set(sc['todo'].pop(0), sc['v'])
        sc['done'] += 1

    def unlock(self, t, op):
        """the section ends normally: whatever it still owes is due now"""
        sc = self.sect.pop(t, None)
        if sc:
            for kk in sc['todo']:
                self._set(kk, sc['v'])

    def code(self, fid):
        if fid is None:
            return EMPTY
        s = self.fut[fid]
        return NOTREADY if s is None else BROKEN if s == 'broken' else s

    def peek(self, t, op):
        sl = op[1]
        fid = self.slots[t][sl] if 0 <= sl < self.nslots else None
        c = self.code(fid)
        if op[0] == FGET:
            return c
        return EMPTY if c == EMPTY else 0 if c == NOTREADY else 1

    def destroy(self):
        for kk, fid in self.pending.items():
            self.fut[fid] = 0
        self.pending = {}


def _replay(case, lines):
    """walk the implementation trace; yield (line index, tid, what, op, observed, expected, spec)"""
    progs = case['progs']
    nslots = case['cfg'][0] if case['cfg'] else 0
    sp = Spec(len(progs), nslots)
    nxt = [0] * len(progs)
    cur = [None] * len(progs)
    exp = [None] * len(progs)
    threw = [False] * len(progs)
    for i, l in enumerate(lines):
        if len(l) != 5 or l[0] < 0:
            continue
        t, k, o, v, m = l
        if t >= len(progs):
            continue
        if k == K['INVOKE']:
            threw[t] = False
            if nxt[t] < len(progs[t]):
                cur[t] = progs[t][nxt[t]]
                nxt[t] += 1
                exp[t] = sp.peek(t, cur[t]) if cur[t][0] in (FREADY, FGET) else None
            else:
                cur[t] = None
        elif k == K['LOCK']:
            if cur[t] is not None and cur[t][0] in LOCKING:
                exp[t] = sp.lock(t, cur[t])
        elif k == K['CALL']:
            nl = lines[i + 1] if i + 1 < len(lines) else []
            th = len(nl) == 5 and nl[0] == t and nl[1] == K['THROW']
            if cur[t] is not None:
                sp.copy(t, cur[t], th)
            threw[t] = threw[t] or th
        elif k == K['UNLOCK']:
            if cur[t] is not None and not threw[t]:
                sp.unlock(t, cur[t])
        elif k == K['RET']:
            if cur[t] is not None:
                yield i, t, 'ret', cur[t], v, exp[t], sp
            cur[t] = None
        elif k == K['CATCH']:
            yield i, t, ('catch' if threw[t] else 'fault'), cur[t], v, None, sp
            cur[t] = None
        elif k == K['FAULT']:
            yield i, t, 'fault', cur[t], v, None, sp
    for i, l in enumerate(lines):
        if len(l) >= 2 and l[0] == -2 and l[1] in (998, 999):
            yield i, -1, 'terminate', None, l[1], None, sp
    sp.destroy()
    for i, l in enumerate(lines):
        if len(l) == 4 and l[0] == -2:
            _, t, sl, code = l
            if t < len(progs) and 0 <= sl < nslots:
                yield i, t, 'final', [FGET, sl], code, sp.code(sp.slots[t][sl]), sp


# ----------------------------------------------------------------------------- monitors

def mon_fault(case, lines):
    """an exception other than the one thrown by a copy of X (std::future_error: promise_already_satisfied,
    no_state, ...) escaped a library call, or would escape the destructor"""
    for i, t, what, op, obs, exp, sp in _replay(case, lines):
        if what == 'fault' and obs == 7:
            return 'thread %d: operation %s touched a promise stored in the container without owning promiseLock (trace line %d)' % (t, op, i)
        if what == 'fault' or (what == 'ret' and obs == RV_FAULT):
            return 'thread %d: an exception escaped operation %s at trace line %d' % (t, op, i)
        if what == 'terminate':
            return '~DelayedObjects would throw (a pending map holds a promise that cannot be set): std::terminate'
    return None


def mon_value(case, lines):
    """a future yields something else than the first value set while its key was pending /
    the fulfil-all value / 0 at destruction"""
    for i, t, what, op, obs, exp, sp in _replay(case, lines):
        if what in ('ret', 'final') and op[0] in (FREADY, FGET) and obs != exp:
            return 'thread %d %s slot %d at trace line %d: observed %s, the specification gives %s' % (
                t, 'final state of' if what == 'final' else ('get' if op[0] == FGET else 'ready'), op[1], i, obs, exp)
    return None


def mon_stable(case, lines):
    """(independent of the reference) one future observed with two different values, or ready and later not ready"""
    progs = case['progs']
    nslots = case['cfg'][0] if case['cfg'] else 0
    nxt = [0] * len(progs)
    cur = [None] * len(progs)
    seen = {}   # (t, slot) -> first definite observation of the future currently in the slot
    for i, l in enumerate(lines):
        obs = None
        if len(l) == 5 and l[0] >= 0 and l[0] < len(progs):
            t, k, o, v, m = l
            if k == K['INVOKE']:
                cur[t] = progs[t][nxt[t]] if nxt[t] < len(progs[t]) else None
                nxt[t] += 1
            elif k == K['RET'] and cur[t] is not None:
                op = cur[t]
                cur[t] = None
                if op[0] == GETF and len(op) == 4:
                    seen.pop((t, op[3]), None)
                elif op[0] == FGET:
                    obs = (t, op[1], v)
                elif op[0] == FREADY and v == 0 and (t, op[1]) in seen:
                    return 'thread %d slot %d: ready earlier, not ready at trace line %d' % (t, op[1], i)
        elif len(l) == 4 and l[0] == -2:
            obs = (l[1], l[2], l[3])
        if obs is not None:
            t, sl, v = obs
            if v in (EMPTY,):
                continue
            if (t, sl) in seen:
                if seen[(t, sl)] != v:
                    return 'thread %d slot %d: the future held %d and later %d (trace line %d)' % (t, sl, seen[(t, sl)], v, i)
            elif v != NOTREADY:
                seen[(t, sl)] = v
    return None


def mon_query(case, lines):
    """isRecognized / isCompleted disagree with the life cycle Unknown -> Pending -> Completed -> Unknown"""
    for i, t, what, op, obs, exp, sp in _replay(case, lines):
        if what == 'ret' and op[0] in LOCKING and exp is not None and obs != exp:
            return 'thread %d: %s returned %s at trace line %d, the specification gives %s' % (t, op, obs, i, exp)
    return None


def mon_hang(case, lines):
    """after the destruction of the container a future is still not ready, or (key requested once) broken"""
    rq = {}
    for p in case['progs']:
        for op in p:
            if op[0] == GETF:
                kk = (1 if op[1] else 0, op[2])
                rq[kk] = rq.get(kk, 0) + 1
    for i, t, what, op, obs, exp, sp in _replay(case, lines):
        if what == 'final':
            if obs == NOTREADY:
                return 'thread %d slot %d: the future is still not ready after ~DelayedObjects' % (t, op[1])
            fid = sp.slots[t][op[1]]
            if obs == BROKEN and fid is not None and rq.get(sp.key_of[fid], 0) <= 1:
                return 'thread %d slot %d: broken promise for a key requested once' % (t, op[1])
    return None


def mon_atomic(case, lines):
    """every library method runs exactly one critical section of promiseLock, and the sections do not overlap"""
    progs = case['progs']
    owner = None
    nxt = [0] * len(progs)
    cur = [None] * len(progs)
    nlock = [0] * len(progs)
    for i, l in enumerate(lines):
        if len(l) != 5 or l[0] < 0 or l[0] >= len(progs):
            continue
        t, k, o, v, m = l
        if k == K['INVOKE']:
            cur[t] = progs[t][nxt[t]] if nxt[t] < len(progs[t]) else None
            nxt[t] += 1
            nlock[t] = 0
        elif k == K['LOCK']:
            if owner is not None:
                return 'thread %d locked promiseLock at trace line %d while thread %d owned it' % (t, i, owner)
            owner = t
            nlock[t] += 1
        elif k == K['UNLOCK']:
            if owner != t:
                return 'thread %d unlocked promiseLock at trace line %d without owning it' % (t, i)
            owner = None
        elif k == K['RET'] and cur[t] is not None:
            want = 1 if cur[t][0] in LOCKING else 0
            if nlock[t] != want or owner == t:
                return 'thread %d: %s ran %d critical sections (expected %d) before returning at trace line %d' % (
                    t, cur[t], nlock[t], want, i)
    return None


def mon_progress(case, lines):
    """deadlock or non-termination: no method of DelayedObjects may block for ever"""
    verdict = [l[1] for l in lines if len(l) >= 2 and l[0] == -1]
    if verdict and verdict[0] == 1:
        return 'deadlock'
    if verdict and verdict[0] == 2:
        return 'the run did not terminate within the fuel bound'
    return None


MONITORS = {'fault': mon_fault, 'value': mon_value, 'stable': mon_stable, 'query': mon_query, 'hang': mon_hang,
            'atomic': mon_atomic, 'progress': mon_progress}
