"""Two deferred_guarded objects A and B of one type, with modification functions of A that submit a modification
to B while they run (C02: no modification of an object while a shared handle on THAT object is alive, also when
the submission comes from inside another object's modification function).

cfg = [mutex kind]; ops: see harness/deferred2_drv.cpp (c = op c of deferred_drv on A, 20+c on B, 12..15 nested).
Functor ids are unique per case (1..15); each payload is the base-16 log of the functors applied to that object.
"""
from events import K
import rng as R

NAME = 'deferred2'
DRIVER = 'harness/deferred2_drv.cpp'
EXTRACT = 'Extract/Deferred2Extract.v'
ML = 'deferred2_model'
SANITIZE = False
ENUM = True

(DETACH, ASYNC, LOCK_SH, TRY_SH, TRY_SH_FOR, TRY_SH_UNTIL, READ, BOOL, RELEASE, LOAD, FUT_READY, FUT_GET) = range(12)
NESTED = (12, 13, 14, 15, 16, 17, 18, 19)      # 16..19: the nested functor re-submits to A itself
SELF = (16, 17, 18, 19)
OB = 20
MAXFID = 15
MUTEX_KINDS = (K['TRYLOCK'], K['TRYLOCK_FOR'], K['LOCK'], K['LOCK_SH'], K['TRYLOCK_SH'], K['TRYLOCK_SH_FOR'])


def shcap(cfg):
    return cfg[0] in (0, 1)


def op_obj(code):
    """object (0 = A, 1 = B) and base op code of a top-level operation"""
    if code in NESTED:
        return 0, (DETACH if code in (12, 13, 16, 17) else ASYNC)
    if code >= OB:
        return 1, code - OB
    return 0, code


# ----------------------------------------------------------------------------- generator

def gen_selfnest(rng):
    """a modification function of A that re-submits to A, queued behind a reader of A and applied by a drain:
    the inner submission finds A's mutex owned by the drainer, is queued again and applied by a LATER drain"""
    mk = rng.weighted([(5, 0), (4, 1), (1, 2), (1, 3)])
    c = rng.pick(SELF)
    reader = [[LOCK_SH, 0], [READ, 0], [RELEASE, 0], rng.pick([[LOAD], [LOCK_SH, 1], [TRY_SH, 1]]), [LOAD], [LOAD]]
    sub = [[c, 1, 2] + ([0] if c in (18, 19) else [])]
    if rng.chance(1, 2):
        sub.append([LOAD])
    progs = [reader, sub]
    if rng.chance(1, 3):
        progs.append([[DETACH, 3], [LOAD]])
    nt = len(progs)
    cw = ((14, 0), (2, 2))
    sched = [(0, 0)] * 3 + [(1, 0)] * rng.range(5, 8) + R.sched_random(rng, nt, rng.range(0, 100), cw)
    return {'cfg': [mk], 'progs': progs, 'sched': sched}


def gen(rng, tier, spec):
    if rng.chance(1, 6):
        return gen_selfnest(rng)
    nt = rng.weighted([(5, 2), (6, 3), (2, 4)])
    mk = rng.weighted([(5, 0), (4, 1), (1, 2), (1, 3)])
    fid = [0]

    def nf():
        fid[0] += 1
        return fid[0]

    def reader(prog, base, n):
        h = rng.below(2)
        kinds = [(4, LOCK_SH), (3, TRY_SH)] + ([(2, TRY_SH_FOR), (1, TRY_SH_UNTIL)] if mk in (0, 2) else [])
        prog.append([base + rng.weighted(kinds), h])
        for _ in range(n):
            prog.append([base + rng.pick([READ, READ, BOOL]), h])
        if not rng.chance(1, 15):
            prog.append([base + RELEASE, h])

    progs = []
    for t in range(nt):
        prog = []
        role = rng.weighted([(4, 'readerB'), (4, 'nester'), (2, 'readerA'), (2, 'mix')]) if t > 1 else ('readerB' if t == 0 else 'nester')
        for _ in range(rng.range(1, 3)):
            r = role if role != 'mix' else rng.pick(['readerB', 'nester', 'readerA', 'plain'])
            if r == 'readerB':
                if rng.chance(1, 5):
                    prog.append([OB + LOAD])
                else:
                    reader(prog, OB, rng.range(1, 3))
            elif r == 'readerA':
                # a reader of A drains A's queue on entry: this is how queued nested functors get applied
                if rng.chance(1, 3):
                    prog.append([LOAD])
                else:
                    reader(prog, 0, rng.below(2))
            elif r == 'nester' and fid[0] + 2 <= MAXFID:
                c = rng.pick(NESTED)
                prog.append([c, nf(), nf()] + ([rng.below(2)] if c in (14, 15, 18, 19) else []))
                if rng.chance(1, 3):
                    prog.append([rng.pick([LOAD, OB + LOAD])])
            elif fid[0] < MAXFID:
                base = rng.pick([0, OB])
                if rng.chance(1, 2):
                    prog.append([base + DETACH, nf()])
                else:
                    prog.append([base + ASYNC, nf(), rng.below(2)])
        progs.append(prog)
    # settle: accesses with nothing held
    t = rng.below(nt)
    for _ in range(rng.below(3)):
        progs[t].append([rng.pick([LOAD, OB + LOAD])])
    cw = ((14, 0), (2, 2))
    kind = rng.below(5)
    if kind == 4:
        # the reader of B first (it holds its handle), then the nesting thread, then the rest
        sched = [(0, 0)] * rng.range(3, 5) + [(1, 0)] * rng.range(1, 16) + R.sched_random(rng, nt, rng.range(0, 80), cw)
    elif kind == 3:
        sched = R.sched_boundary(rng, nt, rng.below(nt), rng.range(1, 14), rng.range(0, 90), cw)
    else:
        sched = R.any_sched(rng, nt, 140, cw)
    return {'cfg': [mk], 'progs': progs, 'sched': sched}


def gen_small(rng, spec):
    mk = rng.pick([0, 1])
    a = [[OB + rng.pick([LOCK_SH, TRY_SH]), 0], [OB + READ, 0], [OB + RELEASE, 0]]
    c = rng.pick([12, 13])
    return {'cfg': [mk], 'progs': [a, [[c, 1, 2]]], 'sched': []}


# ----------------------------------------------------------------------------- trace analysis (implementation side)

class Walk2:
    def __init__(self, case, lines):
        self.problems = []
        self.verdict = next((l[1] for l in lines if len(l) >= 2 and l[0] == -1), 3)
        self.finals = [l[1:] for l in lines if len(l) >= 2 and l[0] == -2]
        nt = len(case['progs'])
        cap = shcap(case['cfg'])
        objof = {}                       # fid -> object
        for p in case['progs']:
            for op in p:
                x, base = op_obj(op[0])
                if op[0] in NESTED:
                    objof[op[1]], objof[op[2]] = 0, (0 if op[0] in SELF else 1)
                elif base in (DETACH, ASYNC):
                    objof[op[1]] = x
        nested_outer = {op[1] for p in case['progs'] for op in p if op[0] in NESTED}
        nested_inner = {op[1]: op[2] for p in case['progs'] for op in p if op[0] in NESTED}
        inner_entered = set()
        outer = [None, None]             # trace id of each object's wrapper mutex
        owner, sharers = {}, {}
        held = [[0, 0] for _ in range(nt)]
        opidx, cur, first_mutex_seen = [-1] * nt, [None] * nt, [False] * nt
        stack = [[] for _ in range(nt)]  # functors the thread is inside (a nested one below its inner one)
        self.submitted, self.called, self.wrote = [set(), set()], [set(), set()], [[], []]
        for i, l in enumerate(lines):
            if len(l) != 5 or l[0] < 0:
                continue
            t, k, o, v, m = l
            if k == K['INVOKE']:
                opidx[t] += 1
                prog = case['progs'][t]
                cur[t] = prog[opidx[t]] if opidx[t] < len(prog) else None
                first_mutex_seen[t] = False
                op = cur[t]
                if op is not None:
                    x, base = op_obj(op[0])
                    if base in (DETACH, ASYNC):
                        self.submitted[x].add(op[1])
                continue
            op = cur[t]
            if k in (K['RET'], K['CATCH']):
                if op is not None:
                    x, base = op_obj(op[0])
                    if base in (LOCK_SH, TRY_SH, TRY_SH_FOR, TRY_SH_UNTIL) and v == 1:
                        held[t][x] += 1
                cur[t] = None
                continue
            if k in MUTEX_KINDS and op is not None and not first_mutex_seen[t] and not stack[t]:
                first_mutex_seen[t] = True
                x, _ = op_obj(op[0])
                if outer[x] is None:
                    outer[x] = o
            elif k in MUTEX_KINDS and stack[t] and stack[t][-1] in nested_outer and stack[t][-1] not in inner_entered:
                # the first mutex operation of a nested functor after its invocation is the inner call's try-lock of B
                inner_entered.add(stack[t][-1])
                x = objof.get(nested_inner.get(stack[t][-1]), 1)
                if outer[x] is None:
                    outer[x] = o
            if o in outer and o != 0:
                x = outer.index(o)
                if k in (K['TRYLOCK'], K['TRYLOCK_FOR'], K['LOCK']) and (k == K['LOCK'] or v == 1):
                    owner[x] = t
                elif k in (K['LOCK_SH'], K['TRYLOCK_SH'], K['TRYLOCK_SH_FOR']) and (k == K['LOCK_SH'] or v == 1):
                    sharers[x] = sharers.get(x, 0) + 1
                elif k == K['UNLOCK']:
                    owner.pop(x, None)
                    if op is not None and op_obj(op[0]) == (x, RELEASE):
                        held[t][x] -= 1
                elif k == K['UNLOCK_SH']:
                    sharers[x] = sharers.get(x, 0) - 1
                    if op is not None and op_obj(op[0]) == (x, RELEASE):
                        held[t][x] -= 1
            if k == K['CALL']:
                f = v
                x = objof.get(f)
                stack[t].append(f)
                if x is None:
                    self.bad('trace', 'functor %d invoked at line %d but never submitted' % (f, i))
                    continue
                nm = 'AB'[x]
                if f in self.called[x]:
                    self.bad('twice', 'functor %d invoked a second time at line %d' % (f, i))
                self.called[x].add(f)
                alive = [u for u in range(nt) if held[u][x] > 0]
                if alive:
                    self.bad('rw_overlap', 'modification %d of object %s starts at line %d (thread %d) while thread(s) %s hold a shared handle on %s'
                             % (f, nm, i, t, alive, nm))
                if owner.get(x) != t or sharers.get(x, 0) > 0:
                    self.bad('exclusive', 'functor %d of object %s invoked by thread %d at line %d without exclusive ownership of %s\'s mutex (owner %s, %d shared holds)'
                             % (f, nm, t, i, nm, owner.get(x), sharers.get(x, 0)))
            elif k == K['WR_BEGIN'] and stack[t]:
                x = objof.get(stack[t][-1])
                if x is not None:
                    alive = [u for u in range(nt) if held[u][x] > 0]
                    if alive:
                        self.bad('rw_overlap', 'write window on object %s opened at line %d (functor %d, thread %d) while thread(s) %s hold a shared handle on it'
                                 % ('AB'[x], i, stack[t][-1], t, alive))
            elif k == K['WR_END'] and stack[t]:
                f = stack[t].pop()
                if objof.get(f) is not None:
                    self.wrote[objof[f]].append(f)
            elif k == K['FAULT']:
                self.bad('fault', 'overlapping payload windows: fault code %d by thread %d at line %d' % (v, t, i))
        self.held = held

    def bad(self, name, text):
        self.problems.append((name, text))


_cache = [None, None]


def _walk(case, lines):
    if _cache[0] != id(lines):
        _cache[0], _cache[1] = id(lines), Walk2(case, lines)
    return _cache[1]


def _first(w, name):
    return next((text for n, text in w.problems if n == name), None)


def mon_fault(case, lines):
    """a VPay window overlap (K_FAULT) on either object"""
    return _first(_walk(case, lines), 'fault')


def mon_rw_overlap(case, lines):
    """a modification of an object starts, or opens its write window, while a shared handle on that object is alive"""
    return _first(_walk(case, lines), 'rw_overlap')


def mon_exclusive(case, lines):
    """a functor runs on an object whose wrapper mutex its thread does not own exclusively"""
    return _first(_walk(case, lines), 'exclusive')


def mon_twice(case, lines):
    w = _walk(case, lines)
    return _first(w, 'twice') or _first(w, 'trace')


def mon_lost(case, lines):
    """finished run: per object, submitted = applied + still queued, and the payload is the log of the applied functors"""
    w = _walk(case, lines)
    if w.verdict != 0 or len(w.finals) != 2:
        return None
    inner = {op[2] for p in case['progs'] for op in p if op[0] in NESTED}
    outer_of = {op[2]: op[1] for p in case['progs'] for op in p if op[0] in NESTED}
    for x in (0, 1):
        pay, flag, qlen, free, nsh = w.finals[x]
        sub = set(w.submitted[x])
        # inner submissions exist once their outer functor ran
        selfs = {op[2] for p in case['progs'] for op in p if op[0] in SELF}
        sub |= {f for f in inner if outer_of[f] in w.called[0] and (f in selfs) == (x == 0)}
        if len(sub) - len(w.called[x] & sub) != qlen:
            return 'finished run, object %s: %d functors submitted, %d applied, %d left in the queue (lost: %s)' % (
                'AB'[x], len(sub), len(w.called[x]), qlen, sorted(sub - w.called[x]))
        digits, y = [], pay
        while y > 0:
            digits.append(y % 16)
            y //= 16
        if digits[::-1] != w.wrote[x]:
            return 'finished run, object %s: payload log %s differs from the functors applied %s' % ('AB'[x], digits[::-1], w.wrote[x])
        if qlen > 0 and flag != 1:
            return 'finished run, object %s: %d functors queued but the pending flag is down' % ('AB'[x], qlen)
    return None


def mon_deadlock(case, lines):
    """deadlock is legitimate only behind a live client handle on a plain mutex"""
    w = _walk(case, lines)
    if w.verdict == 2:
        return 'the run did not terminate within the fuel bound'
    alive = sum(sum(h) for h in w.held)
    if w.verdict == 1 and (shcap(case['cfg']) or alive == 0):
        return 'deadlock although %s' % ('the mutex is shared-capable' if shcap(case['cfg']) else 'no client handle is alive')
    return None


from comp_deferred import mon_functor_under_list_lock  # noqa: E402

MONITORS = {'functor_under_list_lock': mon_functor_under_list_lock, 'fault': mon_fault, 'rw_overlap': mon_rw_overlap, 'exclusive': mon_exclusive, 'twice': mon_twice,
            'lost': mon_lost, 'deadlock': mon_deadlock}
