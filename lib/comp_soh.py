"""SearchableObjectHolder: generator and implementation-side monitors (C17)."""
from events import K
import rng as R

NAME = 'soh'
DRIVER = 'harness/soh_drv.cpp'
EXTRACT = 'Extract/SOHExtract.v'
ML = 'soh_model'
SANITIZE = True          # memory safety is part of C17: ASan/UBSan build, a crash is a violation
ENUM = True

ADD, ADDT, ADDTYPE, REMNAME, REMPRED, COPY, FINDNAME, FINDPRED, FINDPREDT, CHECKTYPE, GETOBJS, EMPTY, DROP, READ, ADDP, ADDPT = range(16)
LOCKED = set(range(12))
PRED = {REMPRED, FINDPRED, FINDPREDT}
NAMES, VALS, TYPES = 4, 3, 2


def gen_op(rng, names=NAMES):
    n = lambda: rng.below(names)
    v = lambda: rng.below(VALS)
    ty = lambda: rng.below(TYPES)
    s = lambda: rng.below(2)
    k = rng.weighted([(5, ADD), (6, ADDT), (3, ADDTYPE), (4, REMNAME), (6, REMPRED), (5, COPY), (4, FINDNAME),
                      (5, FINDPRED), (5, FINDPREDT), (3, CHECKTYPE), (3, GETOBJS), (1, EMPTY), (3, DROP), (4, READ),
                      (2, ADDP), (2, ADDPT)])
    if k == ADD:
        return [ADD, n(), v()]
    if k == ADDT:
        return [ADDT, n(), v(), ty()]
    if k == ADDTYPE:
        return [ADDTYPE, n(), ty()]
    if k == REMNAME:
        return [REMNAME, n()]
    if k == REMPRED:
        return [REMPRED, v()]
    if k == COPY:
        return [COPY, n(), n()]
    if k == FINDNAME:
        return [FINDNAME, n(), s()]
    if k == FINDPRED:
        return [FINDPRED, v(), s()]
    if k == FINDPREDT:
        return [FINDPREDT, v(), ty(), s()]
    if k == CHECKTYPE:
        return [CHECKTYPE, n(), ty()]
    if k in (GETOBJS, EMPTY):
        return [k]
    if k == ADDP:
        return [ADDP, n(), s()]
    if k == ADDPT:
        return [ADDPT, n(), s(), ty()]
    return [k, s()]


def gen(rng, tier, spec):
    nt = rng.weighted([(2, 1), (6, 2), (5, 3)])
    names = rng.weighted([(2, 2), (3, 3), (4, 4)])
    progs = []
    for t in range(nt):
        n = rng.range(1, 7)
        p = []
        if rng.chance(2, 3):                           # populate, so that searches and removals find something
            p.append([ADDT, rng.below(names), rng.below(VALS), rng.below(TYPES)] if rng.chance(2, 3)
                     else [ADD, rng.below(names), rng.below(VALS)])
        while len(p) < n:
            if rng.chance(1, 6):
                # re-add an object the map already stores, under the name that already maps to it or under an alias made
                # by copyObject: must be refused and must leave the tags alone
                nm0, sl, v0 = rng.below(names), rng.below(2), rng.below(VALS)
                p.append([ADDT, nm0, v0, rng.below(TYPES)])
                p.append([FINDNAME, nm0, sl])
                if rng.chance(1, 2):
                    p.append([ADDTYPE, nm0, rng.below(TYPES)])
                tgt = nm0
                if rng.chance(1, 3):
                    tgt = (nm0 + 1) % names
                    p.append([COPY, nm0, tgt])
                p.append([ADDPT, tgt, sl, rng.below(TYPES)] if rng.chance(2, 3) else [ADDP, tgt, sl])
                p.append([CHECKTYPE, tgt, rng.below(TYPES)])
            elif rng.chance(1, 4):
                # a client session: find, (others may remove meanwhile), read through the result, drop it
                sl = rng.below(2)
                f = rng.weighted([(2, [FINDNAME, rng.below(names), sl]), (2, [FINDPRED, rng.below(VALS), sl]),
                                  (2, [FINDPREDT, rng.below(VALS), rng.below(TYPES), sl])])
                p.append(f)
                if rng.chance(1, 2):
                    p.append(gen_op(rng, names))
                p.append([READ, sl])
                if rng.chance(1, 2):
                    p.append([DROP, sl])
            else:
                p.append(gen_op(rng, names))
        progs.append(p)
    ncalls = sum(1 for p in progs for o in p if o[0] in PRED) * 2
    cfg = []
    if rng.chance(1, 3) and ncalls:
        cfg = sorted(set(rng.below(ncalls + 1) for _ in range(rng.range(1, 2))))
    cw = ((14, 0), (1, 1), (1, 2))
    kind = rng.below(6)
    if kind == 5:
        # boundary-aimed at the copy of a node's pointer: thread 0 looks an object up (by name / predicate / all)
        # and is pre-empted after k of its steps (after its lock, inside its copy window, right after its unlock)
        # while thread 1 removes that very entry; then thread 0 goes on and uses what it got
        n, v, ty, sl = rng.below(names), rng.below(VALS), rng.below(TYPES), rng.below(2)
        look = rng.weighted([(4, [FINDNAME, n, sl]), (2, [FINDPRED, v, sl]), (1, [FINDPREDT, v, ty, sl]), (1, [COPY, n, (n + 1) % NAMES]),
                             (1, [GETOBJS])])
        rem = rng.weighted([(3, [REMNAME, n]), (2, [REMPRED, v])])
        progs = [[look, [READ, sl], [DROP, sl]], [[ADDT, n, v, ty], rem, [GETOBJS]]]
        if rng.chance(1, 3):
            progs.append([gen_op(rng, names) for _ in range(rng.range(1, 3))])
        k = rng.range(1, 7)
        sched = [(1, 0)] * 3 + [(0, 0)] * k + [(1, 0)] * rng.range(4, 7) + [(0, 0)] * rng.range(0, 6)
        sched += R.sched_random(rng, len(progs), rng.range(0, 12), cw)
        return {'cfg': [], 'progs': progs, 'sched': sched}
    if kind == 4:
        # boundary-aimed: stop a thread between invoke and lock, between lock and unlock, between two predicate calls
        sched = R.sched_boundary(rng, nt, rng.below(nt), rng.range(1, 10), rng.range(0, 50), cw)
    else:
        sched = R.any_sched(rng, nt, 70, cw)
    return {'cfg': cfg, 'progs': progs, 'sched': sched}


def gen_small(rng, spec):
    nt = 2
    progs = [[[ADDT, 0, 0, 0], rng.pick([[REMPRED, 0], [FINDPRED, 0, 0], [COPY, 0, 1], [REMNAME, 0]])],
             [rng.pick([[FINDNAME, 0, 0], [FINDPREDT, 0, 0, 0], [REMPRED, 0], [ADD, 0, 1]]), rng.pick([[READ, 0], [DROP, 0], [GETOBJS]])]]
    return {'cfg': [0] if rng.chance(1, 4) else [], 'progs': progs, 'sched': []}


# ----------------------------------------------------------------------------- reference map

class Ref:
    """sequential specification: two dictionaries; objects are (id, value)"""

    def __init__(self, throws):
        self.o, self.t, self.calls, self.throws = {}, {}, 0, set(throws)

    def scan(self, test):
        for k in sorted(self.o):
            c = self.calls
            self.calls += 1
            if c in self.throws:
                return 'throw', None
            if test(k, self.o[k]):
                return 'found', k
        return 'none', None

    def apply(self, op, arg):
        """-> ('ret', value, ptr-or-None) | ('exn',)"""
        k = op[0]
        if k in (ADDP, ADDPT):      # addObject of a pointer the client holds: the same method
            k = ADD if k == ADDP else ADDT
        if k in (ADD, ADDT):
            if op[1] in self.o:
                return ('ret', 0, None)
            self.o[op[1]] = arg
            if k == ADDT:
                self.t[op[1]] = [op[3]]          # exactly [type]: tags left by addType on an absent name are replaced
            else:
                self.t.pop(op[1], None)
            return ('ret', 1, None)
        if k == ADDTYPE:
            self.t.setdefault(op[1], []).append(op[2])
            return ('ret', 0, None)
        if k == REMNAME:
            if op[1] in self.o:
                del self.o[op[1]]
                self.t.pop(op[1], None)
                return ('ret', 1, None)
            return ('ret', 0, None)
        if k == COPY:
            if op[1] in self.o and op[2] not in self.o:
                self.o[op[2]] = self.o[op[1]]
                if op[1] in self.t:                # the copy has the tags of the source, or none
                    self.t[op[2]] = list(self.t[op[1]])
                else:
                    self.t.pop(op[2], None)
                return ('ret', 1, None)
            return ('ret', 0, None)
        if k == FINDNAME:
            p = self.o.get(op[1])
            return ('ret', p[0] if p else 0, p)
        if k == CHECKTYPE:
            return ('ret', 1 if op[2] in self.t.get(op[1], []) else 0, None)
        if k == GETOBJS:
            r = 0
            for n in sorted(self.o):
                r = r * 32 + self.o[n][0]
            return ('ret', r, None)
        if k == EMPTY:
            return ('ret', 0 if self.o else 1, None)
        if k == REMPRED:
            st, n = self.scan(lambda n, p: p[1] == op[1])
            if st == 'throw':
                return ('exn',)
            if st == 'found':
                del self.o[n]
                self.t.pop(n, None)
                return ('ret', 1, None)
            return ('ret', 0, None)
        if k in (FINDPRED, FINDPREDT):
            if k == FINDPRED:
                st, n = self.scan(lambda n, p: p[1] == op[1])
            else:
                st, n = self.scan(lambda n, p: p[1] == op[1] and op[2] in self.t.get(n, []))
            if st == 'throw':
                return ('exn',)
            p = self.o[n] if st == 'found' else None
            return ('ret', p[0] if p else 0, p)
        return ('ret', 0, None)


def _events(lines):
    for i, l in enumerate(lines):
        if len(l) == 5 and l[0] >= 0:
            yield i, l[0], l[1], l[2], l[3]


def _finals(lines):
    return [l[1:] for l in lines if len(l) >= 2 and l[0] == -2]


def _verdict(lines):
    for l in lines:
        if len(l) >= 2 and l[0] == -1:
            return l[1]
    return 3


def mon_seq_replay(case, lines):
    """every returned value, and the final contents, are those of the sequential map when the
    critical sections are replayed in the order of their lock events"""
    ref = Ref(case['cfg'])
    nthreads = len(case['progs'])
    idx = [-1] * nthreads          # index of the current op of each thread
    applied = [None] * nthreads    # result of the reference for the current op
    arg = [None] * nthreads
    slots = [[None, None] for _ in range(nthreads)]
    next_id = 1
    for i, t, k, o, v in _events(lines):
        if t >= nthreads:
            continue
        if k == K['INVOKE']:
            idx[t] += 1
            applied[t] = None
            arg[t] = None
            if idx[t] >= len(case['progs'][t]):
                return 'thread %d invoked more operations than its program has (line %d)' % (t, i)
            op = case['progs'][t][idx[t]]
            if op[0] in (ADD, ADDT):
                arg[t] = (next_id, op[2])
                next_id += 1
            elif op[0] in (ADDP, ADDPT):
                arg[t] = slots[t][op[2] & 1]          # None: the slot is empty, the client does nothing
            continue
        if idx[t] < 0:
            continue
        op = case['progs'][t][idx[t]]
        holder_call = op[0] in LOCKED or (op[0] in (ADDP, ADDPT) and arg[t] is not None)
        if k == K['LOCK'] and holder_call and applied[t] is None:
            applied[t] = ref.apply(op, arg[t])
        elif k in (K['RET'], K['CATCH']):
            if holder_call and applied[t] is None:           # the operation never took the lock: apply it at its return
                applied[t] = ref.apply(op, arg[t])
            if op[0] == DROP:
                slots[t][op[1] & 1] = None
                exp = ('ret', 0, None)
            elif op[0] == READ:
                p = slots[t][op[1] & 1]
                exp = ('ret', p[1] if p else -1, None)
            elif op[0] in (ADDP, ADDPT) and arg[t] is None:
                exp = ('ret', -1, None)
            else:
                exp = applied[t]
            if k == K['CATCH']:
                if exp[0] != 'exn':
                    return 'line %d: operation %s of thread %d ended with an exception, the sequential map says it returns %d' % (i, op, t, exp[1])
            else:
                if exp[0] == 'exn':
                    return 'line %d: operation %s of thread %d returned %d, the sequential map says the predicate throws' % (i, op, t, v)
                if exp[1] != v:
                    return 'line %d: operation %s of thread %d returned %d, the sequential map (sections in lock order) returns %d' % (i, op, t, v, exp[1])
                if op[0] in (FINDNAME, FINDPRED, FINDPREDT):
                    slots[t][op[-1] & 1] = exp[2]
    if _verdict(lines) != 0:
        return None
    if any(f[0] == 8 for f in _finals(lines)):       # VS_NO_PEEK build: the maps were not read
        return None
    fo = {f[1]: (f[2], f[3]) for f in _finals(lines) if f[0] == 1}
    ft = {f[1]: list(f[2:]) for f in _finals(lines) if f[0] == 2}
    if fo != ref.o:
        return 'final objectMap %s differs from the sequential map %s' % (sorted(fo.items()), sorted(ref.o.items()))
    if ft != ref.t:
        return 'final typeMap %s differs from the sequential map %s' % (sorted(ft.items()), sorted(ref.t.items()))
    # reference counts: one per map entry and one per client slot
    rc = {}
    for p in list(ref.o.values()) + [p for sl in slots for p in sl if p]:
        rc[p[0]] = rc.get(p[0], 0) + 1
    frc = {f[1]: f[2] for f in _finals(lines) if f[0] == 3}
    if frc != rc:
        return 'final use-counts %s differ from (map entries + client slots) %s: an object leaked or lost a reference' % (sorted(frc.items()), sorted(rc.items()))
    head = [f for f in _finals(lines) if f[0] == 0]
    if head and head[0][1] != len(rc):
        return '%d payload objects are alive at the end, %d are referenced' % (head[0][1], len(rc))
    return None


def mon_lifetime(case, lines):
    """an object was destroyed while a client slot still held the shared_ptr returned for it"""
    for f in _finals(lines):
        if f[0] == 9:
            return 'slot %d of thread %d holds object %d, which has been destroyed' % (f[2], f[1], f[3])
    return None


def mon_mutex(case, lines):
    """mapLock is free whenever a thread is back in client code (also after a throwing predicate), and at the end"""
    owner = None
    for i, t, k, o, v in _events(lines):
        if k == K['LOCK']:
            if owner is not None:
                return 'line %d: thread %d locked mapLock while thread %d owns it' % (i, t, owner)
            owner = t
        elif k == K['UNLOCK']:
            if owner != t:
                return 'line %d: thread %d unlocked mapLock which it does not own' % (i, t)
            owner = None
        elif k in (K['RET'], K['CATCH']) and owner == t:
            return 'line %d: thread %d left the operation (%s) still owning mapLock' % (i, t, 'exception' if k == K['CATCH'] else 'return')
    for f in _finals(lines):
        if f[0] == 0 and f[2] != -1 and _verdict(lines) == 0:
            return 'mapLock is still owned by thread %d at the end' % f[2]
    return None


def mon_unlocked(case, lines):
    """every access to the maps happens inside a critical section of mapLock (lockset discipline: an
    unlocked access is a data race, i.e. undefined behaviour, even if this schedule shows no wrong result)"""
    nthreads = len(case['progs'])
    idx = [-1] * nthreads
    locked = [False] * nthreads
    inside = [False] * nthreads
    rd = [0] * nthreads            # copies from / destructions of node pointers made inside the op's own section
    wr = [0] * nthreads
    for i, t, k, o, v in _events(lines):
        if t >= nthreads:
            continue
        if k == K['INVOKE']:
            idx[t] += 1
            locked[t] = False
            rd[t] = wr[t] = 0
        elif k == K['RD_BEGIN'] and inside[t]:
            rd[t] += 1
        elif k == K['WR_BEGIN'] and inside[t]:
            wr[t] += 1
        elif k == K['LOCK']:
            locked[t] = inside[t] = True
        elif k == K['UNLOCK']:
            inside[t] = False
        elif k == K['CALL'] and not inside[t]:
            return 'line %d: thread %d calls the predicate (iterating the map) outside the critical section' % (i, t)
        elif k in (K['RD_BEGIN'], K['RD_END'], K['WR_BEGIN'], K['WR_END']) and not inside[t]:
            return ('line %d: thread %d %s the shared_ptr of a map node (instance %d) outside the critical section'
                    % (i, t, 'copies' if k in (K['RD_BEGIN'], K['RD_END']) else 'destroys', o))
        elif k in (K['RET'], K['CATCH']) and 0 <= idx[t] < len(case['progs'][t]):
            op = case['progs'][t][idx[t]]
            if (op[0] in LOCKED or (op[0] in (ADDP, ADDPT) and not (k == K['RET'] and v == -1))) and not locked[t]:
                return 'line %d: operation %s of thread %d accessed the maps without taking mapLock' % (i, op, t)
            if k == K['RET']:
                # trace counterpart of soh_changes_inside_section: what the operation did to the map nodes, as told by its
                # result, must have happened between its own lock and unlock
                need_rd = need_wr = 0
                if op[0] in (REMNAME, REMPRED) and v == 1:
                    need_wr = 1                      # the erased node's pointer is destroyed
                elif op[0] in (FINDNAME, FINDPRED, FINDPREDT) and v != 0:
                    need_rd = 1                      # the result is a copy of the node's pointer
                elif op[0] == COPY and v == 1:
                    need_rd = 1
                elif op[0] == GETOBJS:
                    r = v
                    while r > 0:
                        need_rd += 1
                        r //= 32
                if rd[t] < need_rd or wr[t] < need_wr:
                    return ('line %d: operation %s of thread %d returned %d, but the %s of the map node\'s pointer did not happen '
                            'between its lock and unlock: it accessed the maps without holding mapLock'
                            % (i, op, t, v, 'copy' if rd[t] < need_rd else 'destruction'))
    return None


def mon_ptr_race(case, lines):
    """the instrumented shared_ptr reported an overlap: a map node's pointer copied while / after it is destroyed"""
    what = {1: 'its destruction began while a copy from it was in progress', 2: 'a copy from it began while it was being destroyed',
            3: 'a copy from it began after it had been destroyed', 4: 'a copy from it completed after it had been destroyed'}
    for i, t, k, o, v in _events(lines):
        if k == K['FAULT']:
            return 'line %d: thread %d, shared_ptr instance %d: %s' % (i, t, o, what.get(v, 'fault %d' % v))
    return None


def mon_progress(case, lines):
    v = _verdict(lines)
    if v == 1:
        return 'deadlock: no thread can move although some program is unfinished'
    if v == 2:
        return 'the run did not terminate within the fuel bound'
    return None


MONITORS = {'seq_replay': mon_seq_replay, 'lifetime': mon_lifetime, 'mutex': mon_mutex, 'unlocked': mon_unlocked,
            'ptr_race': mon_ptr_race,
            'progress': mon_progress}
