"""Shared implementation-side monitor for the left-right protocol (lr_guarded, and cow_guarded's inner one):
C14 "a writer is delayed only by read handles that are still held": a reader whose acquisition STARTS while a
writer is already spinning on counter k must not register in k (new readers use the other counter); otherwise a
continuous stream of readers starves the writer although every handle is released.  Trace-only; role inference:
counters = objects that receive RMW events; a writer's awaited counter = the counter it last loaded inside a
writer operation since its last store."""
from events import K


def new_reader_delays_writer(lines, reader_ops, writer_ops):
    counters = set(l[2] for l in lines if len(l) == 5 and l[0] >= 0 and l[1] == K['RMW'])
    cur, start, await_, registered = {}, {}, {}, set()
    for i, l in enumerate(lines):
        if len(l) != 5 or l[0] < 0:
            continue
        t, k, o, v, m = l
        if k == K['INVOKE']:
            cur[t] = v
            start.pop(t, None)
            await_.pop(t, None)
            registered.discard(t)
            continue
        if k in (K['RET'], K['CATCH']):
            cur.pop(t, None)
            await_.pop(t, None)
            continue
        op = cur.get(t)
        if op in writer_ops:
            if k == K['LOAD'] and o in counters:
                if t not in await_ or await_[t][0] != o:
                    await_[t] = (o, i)
            elif k == K['STORE']:
                await_.pop(t, None)
        if op in reader_ops and t not in registered:
            if t not in start and k == K['LOAD']:
                start[t] = i
            if k == K['RMW'] and o in counters and t in start:
                registered.add(t)  # only the first RMW of the operation is the registration (a later one is the release)
                for w, (ck, since) in await_.items():
                    if w != t and ck == o and since < start[t]:
                        return ('thread %d began its read acquisition at trace line %d, after writer %d had started waiting '
                                'for counter obj%d to drain (line %d), and still registered in that counter (line %d): '
                                'new readers delay the writer' % (t, start[t], w, o, since, i))
                start.pop(t, None)
    return None
