"""Latch: generator and implementation-side monitors (C10)."""
from events import K
import rng as R

NAME = 'latch'
DRIVER = 'harness/latch_drv.cpp'
EXTRACT = 'Extract/LatchExtract.v'
ML = 'latch_model'
SANITIZE = False
ENUM = True

ARRIVE, WAIT, ARRIVE_WAIT = 0, 1, 2


def gen(rng, tier, spec):
    nt = rng.weighted([(2, 1), (5, 2), (5, 3), (3, 4)])
    progs = []
    for _ in range(nt):
        n = rng.range(1, 3)
        progs.append([[rng.weighted([(4, ARRIVE), (4, WAIT), (3, ARRIVE_WAIT)])] for _ in range(n)])
    arrivals = sum(1 for p in progs for o in p if o[0] in (ARRIVE, ARRIVE_WAIT))
    mode = rng.below(10)
    if mode < 6:
        start = rng.range(max(0, arrivals - 1), arrivals)      # the count is (just) reached
    elif mode < 8:
        start = rng.range(0, arrivals + 2)                     # may never open, or more arrivals than the count
    elif mode < 9:
        start = rng.range(-1, 1)                               # edge: already open
    else:
        # huge counts (seeded C10-17: a counter narrowed to 16 bits truncates them): nobody may be released
        start = rng.pick([32768, 40000, 65536, 65537, 100000])
    cw = ((14, 0), (2, 1))
    kind = rng.below(5)
    if kind == 4:
        # boundary-aimed: run a waiter up to each point between its unlocked check, the lock, the test and the sleep
        waiters = [t for t, p in enumerate(progs) if p[0][0] in (WAIT, ARRIVE_WAIT)] or [0]
        sched = R.sched_boundary(rng, nt, rng.pick(waiters), rng.range(1, 9), rng.range(0, 40), cw)
    else:
        sched = R.any_sched(rng, nt, 60, cw)
    return {'cfg': [start], 'progs': progs, 'sched': sched}


def _walk(case, lines):
    """yield (index, tid, kind, val, current-op) for event lines"""
    cur = {}
    for i, l in enumerate(lines):
        if len(l) != 5 or l[0] < 0:
            continue
        t, k, o, v, m = l
        if k == K['INVOKE']:
            cur[t] = v
        yield i, t, k, v, cur.get(t)


def mon_early_return(case, lines):
    """a wait / arrive_and_wait returned before `start` decrements of the counter had happened"""
    start = case['cfg'][0]
    dec = 0
    counted = {}
    for i, t, k, v, op in _walk(case, lines):
        if k == K['INVOKE']:
            counted[t] = False
        if k == K['RMW'] and not counted.get(t):
            # an arrival is a call of arrive / arrive_and_wait, not a decrement: a call that decrements twice
            # (seeded C10-7: once more per spurious wake-up) is still one arrival
            counted[t] = True
            dec += 1
        if k == K['RET'] and op in (WAIT, ARRIVE_WAIT) and dec < start:
            return 'thread %d returned from wait at trace line %d after %d of %d arrivals' % (t, i, dec, start)
    return None


def mon_lost_wakeup(case, lines):
    """deadlock verdict although the count was reached (or: threads blocked although every arrival happened)"""
    start = case['cfg'][0]
    dec = sum(1 for _, _, k, _, _ in _walk(case, lines) if k == K['RMW'])
    verdict = [l[1] for l in lines if len(l) >= 2 and l[0] == -1]
    if verdict and verdict[0] == 1 and dec >= start:
        return 'deadlock with %d arrivals >= count %d: a waiter was never woken' % (dec, start)
    if verdict and verdict[0] == 2:
        return 'the run did not terminate within the fuel bound'
    return None


def mon_arrive_blocks(case, lines):
    """arrive() must not sleep on the condition variable"""
    for i, t, k, v, op in _walk(case, lines):
        if k == K['CV_SLEEP'] and op == ARRIVE:
            return 'arrive() of thread %d slept on the condition variable at line %d' % (t, i)
    return None


def mon_mo_weakened(case, lines):
    """C07/C10: every atomic operation on the counter is seq_cst; the unlocked fast-path load of wait() must at least
    acquire and the decrement must at least release (LatchViews.fast_path_relaxed_refuted / _rmw_refuted give the
    racy history for the relaxed variants)"""
    for i, l in enumerate(lines):
        if len(l) == 5 and l[0] >= 0 and l[1] in (K['LOAD'], K['STORE'], K['RMW'], K['XCHG'], K['CAS_OK'], K['CAS_FAIL']) and l[4] != 5:
            return ('atomic operation (kind %d) at trace line %d has memory order %d, not seq_cst: with a relaxed fast-path load or '
                    'decrement the waiter is not ordered after the arrivals (Coq witness LatchViews.fast_path_relaxed_refuted)' % (l[1], i, l[4]))
    return None


MONITORS = {'mo_weakened': mon_mo_weakened, 'early_return': mon_early_return, 'lost_wakeup': mon_lost_wakeup, 'arrive_blocks': mon_arrive_blocks}


def gen_small(rng, spec):
    nt = rng.range(2, 3)
    progs = [[[rng.pick([ARRIVE, WAIT, ARRIVE_WAIT])] for _ in range(1 if nt == 3 else rng.range(1, 2))] for _ in range(nt)]
    arrivals = sum(1 for p in progs for o in p if o[0] != WAIT)
    return {'cfg': [rng.range(0, arrivals + 1)], 'progs': progs, 'sched': []}
