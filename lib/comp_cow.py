"""cow_guarded: generator and implementation-side monitors (C04; cow parts of C14, C20)."""
from events import K
import rng as R

NAME = 'cow'
DRIVER = 'harness/cow_drv.cpp'
EXTRACT = 'Extract/CowExtract.v'
ML = 'cow_model'
SANITIZE = True
ENUM = True

LOCK, WRITE, INCR, READH, RELEASE, CANCEL, MOVE = 0, 4, 5, 6, 7, 8, 9
LS, TLS, TLSF, TLSU, READS, DROPS, COPYS = 10, 11, 12, 13, 14, 15, 16
RELEASE_UNW = 17          # the same release, run by a destructor while an unrelated exception unwinds the stack
RELEASES = (RELEASE, RELEASE_UNW)
REARM = 18                # h = b.lock() from a second object: exists only if a library change makes handles move-assignable
SHARED = (LS, TLS, TLSF, TLSU)
# own steps of the operations (for boundary-aimed schedules)
LOCK_STEPS = 9       # invoke | lock ldc inc ldr call rb re dec
RELEASE_STEPS = 14   # invoke | lock ldr a1b a1e str ldc d1 stc d2 a2b a2e unlock | ounlock
SHARED_STEPS = 7     # invoke | ldc inc ldr rb re dec


class _Vals:
    def __init__(self):
        self.n = 0

    def fresh(self):
        self.n += 1
        return 10 * self.n


def _writer_session(rng, nw, vals, end=None):
    s = rng.below(nw)
    ops = [[LOCK, s]]
    nulls = []                  # slots that hold a moved-from (null) handle object
    for _ in range(rng.range(0, 3)):
        k = rng.below(6)
        if k <= 2:
            ops.append([WRITE, s, vals.fresh()])
        elif k <= 4:
            ops.append([INCR, s])
        else:
            ops.append([READH, s])
        free = [x for x in range(nw) if x != s and x not in nulls]
        if free and rng.chance(1, 4):
            s2 = rng.pick(free)
            ops.append([MOVE, s, s2])
            nulls.append(s)
            s = s2
        # cancel / destroy the moved-from handle while the move target is still live: must do nothing
        if nulls and rng.chance(1, 2):
            x = rng.pick(nulls)
            k = rng.weighted([(4, CANCEL), (2, RELEASE), (1, RELEASE_UNW), (1, WRITE), (1, MOVE)])
            if k == WRITE:
                ops.append([WRITE, x, 7])                  # null handle: refused
            elif k == MOVE:
                ops.append([MOVE, x, s])                   # refused
            else:
                ops.append([k, x])
                if k != CANCEL:
                    nulls.remove(x)
    if rng.chance(1, 10):
        ops.append([REARM, s])          # refused by the unmodified library (and by the model)
        if rng.chance(1, 2):
            ops.append([INCR, s])
    if rng.chance(1, 4):
        ops.append([READH, s])
    if end is None:
        end = CANCEL if rng.chance(1, 4) else (RELEASE_UNW if rng.chance(1, 5) else RELEASE)
    if end is not False:
        ops.append([end, s])
    for x in nulls:
        # after the session: cancel() on the null handle (still nothing), then it is destroyed (mostly), so that later
        # sessions of this thread find the slot empty
        if rng.chance(1, 3):
            ops.append([CANCEL, x])
        if rng.chance(5, 6):
            ops.append([rng.pick([RELEASE, RELEASE, RELEASE_UNW]), x])
    return ops


def _reader_session(rng, ns):
    s = rng.below(ns)
    ops = [[rng.weighted([(6, LS), (1, TLS), (1, TLSF), (1, TLSU)]), s]]
    for _ in range(rng.range(0, 2)):
        ops.append([READS, s])
    return ops, s


def _acq(rng, timed):
    return rng.weighted([(6, LS), (1, TLS), (1, TLSF), (1, TLSU)]) if timed else rng.weighted([(6, LS), (2, TLS)])


def _reader_prog(rng, ns, nsess, timed=True):
    """sessions of snapshots; snapshots are kept across later sessions and re-read"""
    ops, held = [], []
    for _ in range(nsess):
        free = [x for x in range(ns) if x not in held]
        if free and (not held or rng.chance(3, 4)):
            s = rng.pick(free)
            ops.append([_acq(rng, timed), s])
            held.append(s)
        for _ in range(rng.range(0, 2)):
            if held:
                ops.append([READS, rng.pick(held)])
        if held and rng.chance(1, 5):
            free = [x for x in range(ns) if x not in held]
            if free:
                b = rng.pick(free)
                ops.append([COPYS, rng.pick(held), b])
                held.append(b)
        if held and rng.chance(1, 2):
            s = rng.pick(held)
            ops.append([DROPS, s])
            held.remove(s)
    for s in list(held):
        if rng.chance(1, 2):
            ops.append([READS, s])
        if rng.chance(4, 5):
            ops.append([DROPS, s])
    return ops


def gen(rng, tier, spec):
    nt = rng.weighted([(1, 1), (5, 2), (6, 3), (3, 4)])
    nw, ns = rng.weighted([(2, 1), (3, 2), (1, 3)]), rng.range(1, 3)
    timed = rng.below(2)      # outer mutex kind: 0 std::mutex, 1 std::timed_mutex
    vals = _Vals()
    edge = rng.below(24)
    progs = []
    for t in range(nt):
        role = rng.weighted([(5, 'w'), (5, 'r'), (4, 'm')]) if nt > 1 else 'm'
        if t == 0 and nt > 1:
            role = 'w' if rng.chance(2, 3) else 'm'
        if t == 1:
            role = 'r' if rng.chance(2, 3) else 'm'
        p = []
        if role == 'w':
            for _ in range(rng.range(1, 2)):
                p += _writer_session(rng, nw, vals)
        elif role == 'r':
            p = _reader_prog(rng, ns, rng.range(1, 3), timed)
        else:
            for _ in range(rng.range(1, 3)):
                if rng.chance(1, 2):
                    p += _writer_session(rng, nw, vals)
                else:
                    p += _reader_prog(rng, ns, 1, timed)
        if not p:
            p = _reader_prog(rng, ns, 1, timed) or [[LS, 0]]
        progs.append(p)
    if edge == 0:
        # a write handle that is never released: every later lock() blocks (verdict deadlock)
        t = rng.below(nt)
        progs[t] = (progs[t] if rng.chance(1, 2) else []) + _writer_session(rng, nw, vals, end=False)
    elif edge == 1:
        # operations on slots in the wrong state / out of range / codes that cannot be driven: refused
        t = rng.below(nt)
        extra = [rng.pick([[WRITE, 0, 3], [INCR, 0], [READH, 0], [RELEASE, 0], [RELEASE_UNW, 0], [RELEASE_UNW, nw], [CANCEL, 0], [MOVE, 0, 1], [MOVE, 0, 0],
                           [READS, 0], [DROPS, 0], [COPYS, 0, 1], [LOCK, nw], [LS, ns], [READS, ns + 1], [1, 0], [2, 0], [3, 0],
                           [LS, 0], [LS, 0], [COPYS, 0, 0], [TLSF, 0], [TLSU, 0]])
                 for _ in range(rng.range(1, 4))]
        progs[t] = extra + progs[t] if rng.chance(1, 2) else progs[t] + extra
    elif edge == 2 and nw > 1:
        # lock() twice by the same thread: the second one blocks for ever on the outer mutex
        t = rng.below(nt)
        progs[t] = progs[t] + [[LOCK, 0], [LOCK, 1], [RELEASE, 0]]
    nlock = sum(1 for p in progs for o in p if o[0] == LOCK)
    plan = []
    if nlock and rng.chance(1, 4):
        for _ in range(rng.range(1, 2)):
            k = rng.below(nlock)
            if k not in plan:
                plan.append(k)
    cw = ((20, 0), (1, 1), (1, 2), (1, 3))
    writers = [t for t, p in enumerate(progs) if any(o[0] == LOCK for o in p)]
    readers = [t for t, p in enumerate(progs) if any(o[0] in SHARED for o in p)]
    kind = rng.below(8)
    if kind <= 1 and writers and readers:
        # boundary-aimed: stop a writer at each pc of lock() / of the commit, let a reader run, resume
        w, r = rng.pick(writers), rng.pick(readers)
        sched = [(w, 0)] * rng.range(1, LOCK_STEPS + 8 + RELEASE_STEPS + 2) + [(r, 0)] * rng.range(1, 12)
        sched += [(w, 0)] * rng.range(0, 14) + [(r, 0)] * rng.range(0, 10)
        sched += R.sched_random(rng, nt, rng.range(0, 50), cw)
    elif kind == 2 and writers and readers:
        # boundary-aimed: stop a reader inside lock_shared, run a writer (a whole commit, or two), resume
        w, r = rng.pick(writers), rng.pick(readers)
        sched = [(r, 0)] * rng.range(1, SHARED_STEPS + 3) + [(w, 0)] * rng.range(1, 2 * (LOCK_STEPS + RELEASE_STEPS) + 8)
        sched += [(r, 0)] * rng.range(1, 10) + [(w, 0)] * rng.range(0, 30)
        sched += R.sched_random(rng, nt, rng.range(0, 40), cw)
    elif kind == 3 and len(writers) > 1:
        # boundary-aimed: two writers; stop one inside lock() / between its operations / inside the commit
        w1 = rng.pick(writers)
        w2 = rng.pick([x for x in writers if x != w1])
        sched = [(w1, 0)] * rng.range(1, LOCK_STEPS + RELEASE_STEPS + 10) + [(w2, 0)] * rng.range(1, 25)
        sched += [(w1, 0)] * rng.range(0, 20) + R.sched_random(rng, nt, rng.range(0, 50), cw)
    elif kind == 4 and writers and readers:
        # boundary-aimed (stale counter): the reader loads countingLeft, a commit flips it, the reader registers in
        # the old counter: the next commit has to wait in its first drain loop
        w, r = rng.pick(writers), rng.pick(readers)
        sched = [(r, 0)] * 2 + [(w, 0)] * rng.range(LOCK_STEPS + RELEASE_STEPS, LOCK_STEPS + RELEASE_STEPS + 12)
        sched += [(r, 0)] * rng.range(1, 2) + [(w, 0)] * rng.range(LOCK_STEPS, LOCK_STEPS + RELEASE_STEPS + 16)
        sched += R.sched_random(rng, nt, rng.range(0, 40), cw)
    elif kind == 5:
        sched = R.sched_runs(rng, nt, rng.range(0, 160), 12, cw)
    else:
        sched = R.any_sched(rng, nt, 160, cw)
    return {'cfg': [nw, ns, rng.range(1, 5), timed] + plan, 'progs': progs, 'sched': sched}


def gen_small(rng, spec):
    """small programs for the exhaustive enumeration of schedules"""
    vals = _Vals()
    shape = rng.below(5)
    w1 = [[LOCK, 0], [WRITE, 0, vals.fresh()], [rng.pick([RELEASE, RELEASE_UNW]), 0]]
    w2 = [[LOCK, 0], [INCR, 0], [rng.pick([RELEASE, CANCEL]), 0]]
    r1 = [[LS, 0], [READS, 0], [DROPS, 0]]
    r2 = [[LS, 0], [LS, 1], [READS, 0], [READS, 1]]
    if shape == 0:
        progs = [[[LOCK, 0], [RELEASE, 0]], r1]
    elif shape == 1:
        progs = [w1[:1] + w1[2:], [[LS, 0], [READS, 0]], [[LS, 0], [DROPS, 0]]]
    elif shape == 2:
        progs = [[[LOCK, 0], [RELEASE, 0]], [[LOCK, 0], [rng.pick([RELEASE, CANCEL]), 0]]]
    elif shape == 3:
        progs = [[[LOCK, 0], [RELEASE, 0]], r2[:2] + [[READS, 0]]]
    else:
        progs = [[[LOCK, 0], [CANCEL, 0]], [[LS, 0], [READS, 0]], [[LOCK, 0], [RELEASE, 0]]]
    plan = [0] if rng.chance(1, 6) else []
    return {'cfg': [1, 2, rng.range(1, 3), 0] + plan, 'progs': progs, 'sched': []}


# ---------------------------------------------------------------------------- monitors

def _events(lines):
    for i, l in enumerate(lines):
        if len(l) == 5 and l[0] >= 0:
            yield i, l[0], l[1], l[2], l[3]


def _verdict(lines):
    for l in lines:
        if len(l) >= 2 and l[0] == -1:
            return l[1]
    return 3


def _final(lines):
    for l in lines:
        if len(l) >= 1 and l[0] == -2:
            return l[1:]
    return None


def _is_mutex(k):
    return K['LOCK'] <= k <= K['TRYLOCK_SH_FOR']


def _ops(case, lines):
    """the operations of the trace, in order of their last event: dicts with tid, code, args, inv, end,
       ret (None when it ended by exception or never ended), threw, done, evs [(line, kind, obj, val)]"""
    idx, cur, out = {}, {}, []
    for i, t, k, o, v in _events(lines):
        if k == K['INVOKE']:
            n = idx.get(t, -1) + 1
            idx[t] = n
            prog = case['progs'][t] if t < len(case['progs']) else []
            args = prog[n][1:] if n < len(prog) else []
            cur[t] = {'tid': t, 'code': v, 'args': list(args), 'inv': i, 'evs': [], 'ret': None, 'threw': False,
                      'done': False, 'end': len(lines)}
            out.append(cur[t])
            continue
        c = cur.get(t)
        if c is None:
            continue
        c['evs'].append((i, k, o, v))
        if k in (K['RET'], K['CATCH']):
            c['end'] = i
            c['done'] = True
            c['ret'] = v if k == K['RET'] else None
            c['threw'] = k == K['CATCH']
            del cur[t]
    return out


def _arg(o, i):
    return o['args'][i] if len(o['args']) > i else 0


class _Replay:
    """what the trace says about write handles and snapshots, using only operation boundaries and return values:
       sessions (lock .. release/cancel) ordered by the return of lock(), the committed values by sequential replay"""

    def __init__(self, case, lines):
        self.ops = _ops(case, lines)
        self.init = case['cfg'][2] if len(case['cfg']) > 2 else 0
        self.sessions = []          # dicts: tid, lock (op), edits [(op, kind, value)], reads [(op, #edits before)], end, kind
        where = {}                  # (tid, slot) -> session; per thread the operations are sequential
        for o in sorted(self.ops, key=lambda x: x['inv']):
            t, c = o['tid'], o['code']
            ok = o['done'] and not o['threw'] and o['ret'] != -1
            if c == LOCK and ok:
                s = {'tid': t, 'lock': o, 'edits': [], 'reads': [], 'end': None, 'kind': None}
                where[(t, _arg(o, 0))] = s
                self.sessions.append(s)
            elif c in (WRITE, INCR, READH) and ok:
                s = where.get((t, _arg(o, 0)))
                if s is not None:
                    if c == WRITE:
                        s['edits'].append((o, 'set', _arg(o, 1)))
                    elif c == INCR:
                        s['edits'].append((o, 'incr', 0))
                    else:
                        s['reads'].append((o, len(s['edits'])))
            elif c == MOVE and ok:
                s = where.pop((t, _arg(o, 0)), None)
                if s is not None:
                    where[(t, _arg(o, 1))] = s
            elif c == REARM and ok:
                # (only after a library change) the old handle is released into this object; whatever is done through the
                # variable afterwards concerns the other object and must not show here
                s = where.pop((t, _arg(o, 0)), None)
                if s is not None:
                    s['end'], s['kind'] = o, RELEASE
            elif c in RELEASES + (CANCEL,) and (ok or not o['done']):
                # the handle leaves its slot at the invocation
                s = where.pop((t, _arg(o, 0)), None)
                if s is not None:
                    s['end'], s['kind'] = o, (RELEASE if c in RELEASES else c)
        self.sessions.sort(key=lambda s: s['lock']['end'])
        # sequential replay in the order in which lock() returned
        self.values = [self.init]           # committed values, in commit order
        cur = self.init
        for s in self.sessions:
            s['base'] = cur
            v = cur
            s['trace'] = [v]
            for (_, kind, x) in s['edits']:
                v = x if kind == 'set' else v + 1
                s['trace'].append(v)
            s['value'] = v
            if s['kind'] == RELEASE:
                cur = v
                s['index'] = len(self.values)
                self.values.append(v)

    def live_handles(self):
        return sum(1 for s in self.sessions if s['end'] is None)


def _null_ops(ops):
    """invocation lines of the release / cancel operations that act on a moved-from (null) write-handle object:
       slot a holds one from a successful move a -> b until it is destroyed (7 / 17)"""
    null, out = set(), set()
    for o in sorted(ops, key=lambda x: x['inv']):
        t, c = o['tid'], o['code']
        ok = o['done'] and not o['threw'] and o['ret'] != -1
        if c == MOVE and ok:
            null.add((t, _arg(o, 0)))
        elif c in RELEASES + (CANCEL,) and (t, _arg(o, 0)) in null:
            out.add(o['inv'])
            if c in RELEASES and ok:
                null.discard((t, _arg(o, 0)))
    return out


def mon_fault(case, lines):
    """a payload access window overlapped a write window, a destroyed version was used, or (objects 7, 8 of the model:
       the two shared_ptr objects of the inner lr_guarded) a copy of a shared_ptr object overlapped an assignment to it"""
    for i, t, k, o, v in _events(lines):
        if k == K['FAULT']:
            what = {1: 'write window opened while a read window is open', 2: 'read window opened while a write window is open',
                    3: 'two write windows open', 4: 'read of a half-written value',
                    5: 'use of a destroyed version',
                    9: 'the private copy of a write handle was list-initialised from the committed object (T{x}): the '
                       'initializer_list constructor was selected, the handle holds a one-element wrapper, not a copy'}.get(v, 'fault %d' % v)
            return 'thread %d at trace line %d: %s on obj%d (a version payload, or one of the two shared_ptr objects of the inner lr_guarded)' % (t, i, what, o)
    f = _final(lines)
    if f and len(f) >= 11 and f[10] != 0:
        return 'payload fault counter = %d' % f[10]
    return None


def _snapshots(case, lines):
    """acquisitions: dicts with op (the lock_shared), holders {(tid, slot)}, reads [(op, value, obj)]"""
    acqs, where = [], {}
    ops = _ops(case, lines)
    for o in sorted(ops, key=lambda x: x['inv']):
        t, c = o['tid'], o['code']
        ok = o['done'] and not o['threw'] and o['ret'] != -1
        if c in SHARED and ok:
            a = {'op': o, 'reads': [], 'holders': 1}
            where[(t, _arg(o, 0))] = a
            acqs.append(a)
        elif c == COPYS and ok:
            a = where.get((t, _arg(o, 0)))
            if a is not None:
                where[(t, _arg(o, 1))] = a
                a['holders'] += 1
        elif c == DROPS and ok:
            a = where.pop((t, _arg(o, 0)), None)
            if a is not None:
                a['holders'] -= 1
        elif c == READS and ok:
            a = where.get((t, _arg(o, 0)))
            objs = [e[2] for e in o['evs'] if e[1] == K['RD_END']]
            if a is not None:
                a['reads'].append((o, o['ret'], objs[0] if objs else 0))
    return ops, acqs


def mon_snapshot_stable(case, lines):
    """a snapshot read twice (through the same handle or a copy of it) never changes, and no write window is
       ever opened on a version that a snapshot has read"""
    ops, acqs = _snapshots(case, lines)
    for a in acqs:
        for (o, v, obj) in a['reads'][1:]:
            o0, v0, obj0 = a['reads'][0]
            if v != v0 or obj != obj0:
                return ('thread %d: snapshot taken at line %d read %d (obj%d, line %d) and later %d (obj%d, line %d)'
                        % (o['tid'], a['op']['end'], v0, obj0, o0['end'], v, obj, o['end']))
    seen = {}
    for a in acqs:
        for (o, v, obj) in a['reads']:
            seen.setdefault(obj, o['inv'])
    for i, t, k, o, v in _events(lines):
        if k == K['WR_BEGIN'] and o in seen and seen[o] < i:
            return 'thread %d opened a write window (line %d) on version obj%d that a snapshot had read at line %d' % (t, i, o, seen[o])
    return None


def mon_snapshot_committed(case, lines):
    """a snapshot only ever shows a committed value (initial value, or the value of a released write handle
       obtained by replaying the handles in the order lock() returned)"""
    rp = _Replay(case, lines)
    ops, acqs = _snapshots(case, lines)
    ok = set(rp.values)
    # a release that has not returned yet may already be visible
    for s in rp.sessions:
        if s['kind'] == RELEASE:
            ok.add(s['value'])
    for a in acqs:
        for (o, v, obj) in a['reads']:
            if v not in ok:
                return ('thread %d read %d through a snapshot (line %d); committed values are %s'
                        % (o['tid'], v, o['end'], sorted(ok)))
    return None


def mon_base_latest(case, lines):
    """a write handle starts from the value committed when lock() returned and shows exactly its own edits"""
    rp = _Replay(case, lines)
    for s in rp.sessions:
        for (o, n) in s['reads']:
            want = s['trace'][n] if n < len(s['trace']) else None
            if want is not None and o['ret'] != want:
                return ('thread %d read %d through its write handle (line %d); the value committed when its lock() '
                        'returned was %d and its %d edits give %d' % (o['tid'], o['ret'], o['end'], s['base'], n, want))
        # the copy made by lock() reads the committed value
        rd = [e for e in s['lock']['evs'] if e[1] == K['RD_END']]
        if rd and rd[-1][3] != s['base']:
            return ('lock() of thread %d (line %d) copied %d; the committed value at that moment was %d'
                    % (s['tid'], s['lock']['end'], rd[-1][3], s['base']))
    return None


def mon_writers_serial(case, lines):
    """at most one write handle is live: no lock() returns between another lock()'s return and the end of that
       handle's release / cancel"""
    rp = _Replay(case, lines)
    spans = []
    for s in rp.sessions:
        a = s['lock']['end']
        b = s['end']['end'] if s['end'] is not None else len(lines) + 1
        spans.append((a, b, s))
    for (a, b, s) in spans:
        for (a2, b2, s2) in spans:
            if s2 is not s and a < a2 < b:
                return ('lock() of thread %d returned at line %d while the write handle of thread %d (lock returned at '
                        'line %d) was still live' % (s2['tid'], a2, s['tid'], a))
    return None


def mon_publish_atomic(case, lines):
    """a lock_shared invoked after a release returned sees that version or a later one"""
    rp = _Replay(case, lines)
    ops, acqs = _snapshots(case, lines)
    rels = sorted([s for s in rp.sessions if s['kind'] == RELEASE and s['end']['done']], key=lambda s: s['end']['end'])
    for a in acqs:
        inv = a['op']['inv']
        need = 0
        for s in rels:
            if s['end']['end'] < inv:
                need = max(need, s['index'])
        for (o, v, obj) in a['reads']:
            later = rp.values[need:] + [s['value'] for s in rp.sessions if s['kind'] == RELEASE and s.get('index', 0) >= need]
            if v not in later:
                return ('thread %d invoked lock_shared (line %d) after commit #%d (value %d) had returned, but its snapshot '
                        'reads %d (line %d)' % (o['tid'], inv, need, rp.values[need], v, o['end']))
    return None


def mon_no_lost_update(case, lines):
    """the final committed value (both copies) is the sequential replay of the released handles"""
    if _verdict(lines) == 3:
        return None
    rp = _Replay(case, lines)
    if any(o['code'] in RELEASES and not o['done'] for o in rp.ops):
        return None
    f = _final(lines)
    if not f or len(f) < 2:
        return None
    if _verdict(lines) == 0 and len(f) >= 8:
        held = 1 if rp.live_handles() > 0 else 0
        if f[4] != 0 or f[5] != 0 or f[6] != held or f[7] != 0:
            return 'final state: reader counters %d/%d, outer mutex held %d (live write handles: %d), inner mutex held %d after every thread finished' % (
                f[4], f[5], f[6], rp.live_handles(), f[7])
    want = rp.values[-1]
    if f[0] != want or f[1] != want:
        return 'final committed value left=%d right=%d; the released handles in lock order give %d (commits: %s)' % (
            f[0], f[1], want, rp.values)
    return None


def mon_ledger(case, lines):
    """versions: one created per successful lock(); at the end exactly the committed version, the versions held by
       snapshots and the private copies of live write handles are alive"""
    if _verdict(lines) == 3:
        return None
    f = _final(lines)
    if not f or len(f) < 10:
        return None
    rp = _Replay(case, lines)
    if _verdict(lines) == 2 or any(not o['done'] and o['evs'] for o in rp.ops):
        return None     # an operation is still under way
    created, destroyed = f[8], f[9]
    nlock = sum(1 for s in rp.sessions)
    if created != 1 + nlock:
        return 'ledger: %d versions created, expected 1 + %d successful lock()' % (created, nlock)
    # the version a snapshot holds = the number of readingLeft flips before its load of readingLeft
    flips = []
    for o in rp.ops:
        if o['code'] in RELEASES:
            st = [e for e in o['evs'] if e[1] == K['STORE']]
            if st:
                flips.append(st[0][0])
    ops, acqs = _snapshots(case, lines)
    live = {len(flips)}
    for a in acqs:
        if a['holders'] > 0:
            lds = [e for e in a['op']['evs'] if e[1] == K['LOAD']]
            if len(lds) >= 2:
                live.add(sum(1 for x in flips if x < lds[1][0]))
    want = len(live) + rp.live_handles()
    if created - destroyed != want:
        return 'ledger: created %d - destroyed %d = %d live versions, expected %d (committed + %d held by snapshots + %d live write handles)' % (
            created, destroyed, created - destroyed, want, len(live) - 1, rp.live_handles())
    return None


def mon_read_no_mutex(case, lines):
    """lock_shared and the snapshot operations perform no mutex operation, never yield or sleep (C14), and
       lock_shared is exactly load, rmw, load, the copy of the shared_ptr (a read window), rmw"""
    for o in _ops(case, lines):
        if o['code'] in SHARED + (READS, DROPS, COPYS):
            for (i, k, ob, v) in o['evs']:
                if _is_mutex(k) or k in (K['YIELD'], K['SLEEP'], K['CV_SLEEP']):
                    return 'operation %d of thread %d performed a blocking operation (kind %d) at line %d' % (o['code'], o['tid'], k, i)
            if o['code'] in SHARED and o['ret'] == 0:
                # wait-free: a short, bounded sequence of atomic operations and the two edges of the copy's read window
                # (the exact order is left to the correspondence; overlap with a writer is the wrapper's K_FAULT)
                kinds = [e[1] for e in o['evs'][:-1] if e[1] != K['FAULT']]
                if len(kinds) > 6 or any(k not in (K['LOAD'], K['RMW'], K['RD_BEGIN'], K['RD_END']) for k in kinds):
                    return 'lock_shared of thread %d (line %d) performed %s: not at most 6 atomic operations / copy-window edges' % (o['tid'], o['inv'], kinds)
    return None


def mon_progress(case, lines):
    """no deadlock and no endless run unless a write handle is never released (or lock() is re-entered)"""
    v = _verdict(lines)
    if v in (1, 2):
        rp = _Replay(case, lines)
        if rp.live_handles() == 0:
            return '%s although every write handle was released or cancelled' % ('deadlock' if v == 1 else 'the run did not end within the fuel bound')
        if v == 2:
            return 'the run did not end within the fuel bound'
    return None


def mon_cancel(case, lines):
    """cancel() unlocks the outer mutex exactly once, commits nothing; cancel() / destruction of a moved-from (null)
       handle does nothing at all"""
    ops = _ops(case, lines)
    nul = _null_ops(ops)
    for o in ops:
        if o['inv'] in nul:
            other = [e[1] for e in o['evs'] if e[1] != K['RET']]
            if other or (o['done'] and o['ret'] != 0):
                return 'operation %d of thread %d on a moved-from (null) write handle (line %d) performed operations %s (result %s)' % (
                    o['code'], o['tid'], o['inv'], other, o['ret'])
        elif o['code'] == CANCEL and o['ret'] == 0:
            nu = sum(1 for e in o['evs'] if e[1] == K['UNLOCK'])
            other = [e[1] for e in o['evs'] if e[1] not in (K['UNLOCK'], K['RET'])]
            if nu != 1 or other:
                return 'cancel() of thread %d (line %d): %d unlock operations, other operations %s' % (o['tid'], o['inv'], nu, other)
    return None


def mon_exn_lock(case, lines):
    """a lock() whose copy throws releases the inner read registration and the outer mutex (C20); every lock()
       takes the outer mutex first (the exact shape of a release is left to the correspondence: a monitor on it would
       fire on every case of a changed deleter and hide the semantic monitors' replays)"""
    for o in _ops(case, lines):
        if o['code'] == LOCK and o['done'] and o['ret'] != -1:
            ks = [(e[1], e[2], e[3]) for e in o['evs']]
            nl = sum(1 for k in ks if k[0] == K['LOCK'])
            nu = sum(1 for k in ks if k[0] == K['UNLOCK'])
            rm = [k for k in ks if k[0] == K['RMW']]
            if o['threw']:
                if nl != 1 or nu != 1:
                    return 'lock() of thread %d left by exception (line %d) with %d lock / %d unlock operations' % (o['tid'], o['end'], nl, nu)
                if len(rm) != 2 or rm[0][1] != rm[1][1]:
                    return 'lock() of thread %d left by exception (line %d) without releasing its read registration' % (o['tid'], o['end'])
            else:
                if nl != 1 or nu != 0 or not ks or ks[0][0] != K['LOCK']:
                    return 'lock() of thread %d (line %d): %d lock / %d unlock operations, first operation kind %s' % (
                        o['tid'], o['end'], nl, nu, ks[0][0] if ks else None)
                if len(rm) != 2 or rm[0][1] != rm[1][1]:
                    return 'lock() of thread %d (line %d) did not release its read registration' % (o['tid'], o['end'])
    return None


COUNTER_MAX = 2147483647     # = CowModel.COUNTER_MAX: the reader counters are (at least) int


def mon_counter_width(case, lines):
    """the two reader counters of the inner lr_guarded must not be able to wrap for any realistic number of threads:
       the model (and every theorem: ctr = number of registered threads) takes them as unbounded, the code's are int.
       A counter of b bits is 0 again with 2^b readers registered at the same moment: the commit then stops waiting for
       them, overwrites the shared_ptr object they are copying and may destroy the version under them"""
    fin = [l[1:] for l in lines if len(l) >= 1 and l[0] == -2]
    if len(fin) < 2 or len(fin[1]) < 2:
        return None
    for name, mx in zip(('left', 'right'), fin[1][:2]):
        if mx < COUNTER_MAX:
            return ('the %s reader counter of the inner lr_guarded holds values up to %d only: %d threads registered at '
                    'the same moment (inside lock_shared / lock()) wrap it to 0, a release then does not wait for them '
                    '(cow_inner_exclusion, cow_snapshot_valid assume a counter at least as wide as int)' % (name, mx, mx + 1))
    return None


def mon_seq_cst(case, lines):
    """every atomic operation of the library is seq_cst (C07 layer 2)"""
    for i, l in enumerate(lines):
        if len(l) == 5 and l[0] >= 0 and K['LOAD'] <= l[1] <= K['XCHG'] and l[4] != 5:
            return 'atomic operation (kind %d) on obj%d at line %d has memory order %d, not seq_cst' % (l[1], l[2], i, l[4])
    return None



def mon_new_reader_delays_writer(case, lines):
    """C14: a reader (lock_shared, or the copy phase of lock()) that starts while a committing writer already
    drains counter k must register in the other counter"""
    import lrmon
    return lrmon.new_reader_delays_writer(lines, SHARED + (LOCK,), RELEASES)


MONITORS = {'new_reader_delays_writer': mon_new_reader_delays_writer, 'fault': mon_fault, 'snapshot_stable': mon_snapshot_stable, 'snapshot_committed': mon_snapshot_committed,
            'base_latest': mon_base_latest, 'writers_serial': mon_writers_serial, 'publish_atomic': mon_publish_atomic,
            'no_lost_update': mon_no_lost_update, 'ledger': mon_ledger, 'read_no_mutex': mon_read_no_mutex,
            'progress': mon_progress, 'cancel': mon_cancel, 'exn_lock': mon_exn_lock, 'seq_cst': mon_seq_cst, 'counter_width': mon_counter_width}
