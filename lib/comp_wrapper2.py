"""Wrapper2: two ordered_guarded objects X, Y of one instantiation and nested calls X -> Y (C01).

cfg = [mutexkind, initX, initY, payloadkind]; ops: c ... on X, 100 + c ... on Y, 50 fid c ... = X.modify(f) whose
functor calls Y.<op c> (c: 18 modify / 19 read / 15 load), 60 = `X = Y;` (payload kind 0 only).  Only the direction X -> Y is nested (no lock-order
cycle); see harness/wrapper2_drv.cpp and coq/Model/Wrapper2Model.v.
"""
from events import K
import rng as R

NAME = 'wrapper2'
DRIVER = 'harness/wrapper2_drv.cpp'
EXTRACT = 'Extract/Wrapper2Extract.v'
ML = 'wrapper2_model'
SANITIZE = False

LOCK_SH, TRYLOCK_SH, UNLOCK, DESTROY, USE, LOAD, STORE, ASSIGN, MODIFY, READ, CAST = 4, 5, 9, 10, 13, 15, 16, 17, 18, 19, 22
NESTED = 50
ASSIGN_XY = 60   # X = Y; (instrumented payload kind only)
LOCK_KINDS = (K['LOCK'], K['TRYLOCK'], K['TRYLOCK_FOR'], K['LOCK_SH'], K['TRYLOCK_SH'], K['TRYLOCK_SH_FOR'])


def _simple(rng, counter_only):
    c = rng.weighted([(3, LOAD), (4, MODIFY), (3, READ), (2, CAST)] + ([] if counter_only else [(2, STORE), (2, ASSIGN)]))
    if c in (STORE, ASSIGN):
        return [c, rng.range(0, 5)]
    if c in (MODIFY, READ):
        return [c, rng.range(1, 12)]
    return [c]


def gen(rng, tier, spec):
    mk = rng.below(4)
    cfg = [mk, rng.range(0, 5), rng.range(0, 5), 1 if rng.chance(1, 5) else 0]
    counter_only = rng.chance(1, 2)
    nt = rng.weighted([(5, 2), (5, 3), (2, 4)])
    progs = []
    for _ in range(nt):
        ops = []
        for _ in range(rng.range(1, 4)):
            r = rng.below(10)
            if r < 4:
                inner = rng.weighted([(5, [MODIFY, rng.range(1, 12)]), (2, [READ, rng.range(1, 12)]), (2, [LOAD])])
                ops.append([NESTED, rng.range(1, 12)] + inner)
            elif r < 5 and cfg[3] == 0 and not counter_only:
                ops.append([ASSIGN_XY])
            elif r < 7:
                o = _simple(rng, counter_only)
                ops.append([100 + o[0]] + o[1:])
            elif r < 9:
                ops.append(_simple(rng, counter_only))
            else:
                # a reader of Y through a shared handle
                ops += [[100 + LOCK_SH, 0], [100 + USE, 0, 0, 0, 0], [100 + DESTROY, 0]]
        progs.append(ops)
    cw = ((14, 0), (2, 2))
    if rng.chance(1, 3):
        sched = R.sched_boundary(rng, nt, rng.below(nt), rng.range(1, 12), rng.range(0, 60), cw)
    else:
        sched = R.any_sched(rng, nt, 90, cw)
    return {'cfg': cfg, 'progs': progs, 'sched': sched}


# ----------------------------------------------------------------------------- monitors

def _verdict(lines):
    for l in lines:
        if len(l) >= 2 and l[0] == -1:
            return l[1]
    return 3


def _finals(lines):
    return [l[1:] for l in lines if len(l) >= 2 and l[0] == -2]


def _ops(case, lines):
    idx, cur, done = {}, {}, []
    for i, l in enumerate(lines):
        if len(l) != 5 or l[0] < 0:
            continue
        t, k, o, v, m = l
        if k == K['INVOKE']:
            n = idx.get(t, 0)
            idx[t] = n + 1
            prog = case['progs'][t] if t < len(case['progs']) else []
            cur[t] = {'t': t, 'op': prog[n] if n < len(prog) else [v], 'events': [], 'ret': None, 'at': i}
            done.append(cur[t])
        elif t in cur:
            if k in (K['RET'], K['CATCH']):
                cur[t]['ret'] = v
            else:
                cur[t]['events'].append((i, k, o, v))
    return done


def mon_window_fault(case, lines):
    """overlapping / torn accesses of one of the wrapped objects"""
    for i, l in enumerate(lines):
        if len(l) == 5 and l[1] == K['FAULT'] and 1 <= l[3] <= 4:
            return 'thread %d: payload fault %d on object %d at trace line %d' % (l[0], l[3], l[2], i)
    opened = {}
    for i, l in enumerate(lines):
        if len(l) != 5 or l[0] < 0:
            continue
        t, k, o, v, m = l
        if k in (K['RD_BEGIN'], K['WR_BEGIN']):
            w = k == K['WR_BEGIN']
            for (t2, o2), w2 in opened.items():
                if o2 == o and t2 != t and (w or w2):
                    return 'threads %d and %d are inside conflicting accesses of object %d at trace line %d' % (t2, t, o, i)
            opened[(t, o)] = w
        elif k in (K['RD_END'], K['WR_END']):
            opened.pop((t, o), None)
    return None


def _writes_of(op):
    """number of increments a completed operation makes (modify only), None if it writes otherwise"""
    c = op[0] % 100 if op[0] != NESTED else NESTED
    if c == NESTED:
        return 1 + (1 if len(op) > 2 and op[2] == MODIFY else 0)
    if c == MODIFY:
        return 1
    if c in (STORE, ASSIGN, ASSIGN_XY):
        return None
    return 0


def mon_lost_update(case, lines):
    """every write is an increment made inside modify: X + Y = initial values + completed increments"""
    if _verdict(lines) != 0:
        return None
    fin = _finals(lines)
    if len(fin) < 2:
        return None
    total = 0
    for p in case['progs']:
        for op in p:
            w = _writes_of(op)
            if w is None:
                return None
            total += w
    cfg = case['cfg']
    if fin[0][0] + fin[1][0] != cfg[1] + cfg[2] + total:
        return 'final values %d + %d, expected %d + %d + %d increments' % (fin[0][0], fin[1][0], cfg[1], cfg[2], total)
    return None


def mon_nested_locks_inner(case, lines):
    """an operation on Y made from inside X.modify's functor acquires Y's mutex: the nested operation shows
    acquisitions of two different mutexes"""
    for o in _ops(case, lines):
        if o['op'][0] in (NESTED, ASSIGN_XY) and o['ret'] is not None:
            ms = set(ob for (_, k, ob, v) in o['events'] if k in (K['LOCK'], K['LOCK_SH']))
            if len(ms) < 2:
                return 'thread %d: %s completed with lock operations on %d mutex(es) only (trace line %d)' % (o['t'], o['op'], len(ms), o['at'])
    return None


def mon_op_unlocked(case, lines):
    """a completed whole-object operation contains no acquisition of a mutex"""
    for o in _ops(case, lines):
        c = o['op'][0]
        if (c in (NESTED, ASSIGN_XY) or c % 100 in (LOAD, STORE, ASSIGN, MODIFY, READ, CAST)) and o['ret'] is not None:
            if not any(k in (K['LOCK'], K['LOCK_SH']) for (_, k, _, _) in o['events']):
                return 'thread %d: %s completed without acquiring a mutex (trace line %d)' % (o['t'], o['op'], o['at'])
    return None


def mon_write_outside_section(case, lines):
    """every access window of X's (Y's) object lies inside a critical section of X's (Y's) own mutex held by
    that thread; Y's objects are numbered from 1000"""
    held = {}
    for i, l in enumerate(lines):
        if len(l) != 5 or l[0] < 0:
            continue
        t, k, o, v, m = l
        side = 1 if o >= 1000 else 0
        if k in (K['LOCK'], K['LOCK_SH']) or (k in LOCK_KINDS and v):
            held[(t, side)] = held.get((t, side), 0) + 1
        elif k in (K['UNLOCK'], K['UNLOCK_SH']):
            held[(t, side)] = held.get((t, side), 0) - 1
        elif k in (K['RD_BEGIN'], K['RD_END'], K['WR_BEGIN'], K['WR_END']) and o % 1000 < 100:
            if held.get((t, side), 0) <= 0:
                return 'thread %d accesses the object of %s (event kind %d, trace line %d) without holding the mutex of %s' % (
                    t, 'XY'[side], k, i, 'XY'[side])
    return None


def mon_deadlock(case, lines):
    """only X -> Y nesting and no kept handles: every run finishes"""
    v = _verdict(lines)
    if v in (1, 2):
        return 'the run did not finish (verdict %d)' % v
    return None


MONITORS = {'write_outside_section': mon_write_outside_section, 'window_fault': mon_window_fault, 'lost_update': mon_lost_update, 'nested_locks_inner': mon_nested_locks_inner,
            'op_unlocked': mon_op_unlocked, 'deadlock': mon_deadlock}
