"""Orchestrator for the Rocq-proof + correspondence checks (see DESIGN.md sections 3, 4)."""
import fcntl
import hashlib
import importlib
import json
import os
import re
import subprocess
import sys
import time
from concurrent.futures import ThreadPoolExecutor

from events import pretty, PTR, K
from rng import Rng

ROOT = os.path.dirname(os.path.dirname(os.path.abspath(__file__)))
REPO = os.environ.get('VERIF_REPO', '/repo')
BUILD = os.environ.get('VERIF_BUILD', os.path.join(ROOT, 'build'))
COQ = os.path.join(ROOT, 'coq')
NCPU = os.cpu_count() or 4

ALLOWED_AXIOMS = {
    # standard-library axioms a proof may rely on (named in DESIGN.md section 7 when used)
    'functional_extensionality_dep', 'FunctionalExtensionality.functional_extensionality_dep',
    'proof_irrelevance', 'ProofIrrelevance.proof_irrelevance', 'classic', 'Classical_Prop.classic',
    'JMeq_eq', 'JMeq.JMeq_eq', 'Eqdep.Eq_rect_eq.eq_rect_eq', 'eq_rect_eq', 'propositional_extensionality',
}
FORBIDDEN = re.compile(
    r'\b(Admitted|admit|Axiom|Axioms|Parameter|Parameters|Conjecture|Conjectures|Admit Obligations)\b|'
    r'Unset\s+Guard|bypass_check|Unset\s+Positivity|Unset\s+Universe|type-in-type|impredicative-set|Local\s+Unset\s+Guard')


def sh(cmd, timeout=600, cwd=None, env=None):
    t0 = time.time()
    try:
        p = subprocess.run(cmd, shell=isinstance(cmd, str), cwd=cwd, env=env, stdout=subprocess.PIPE,
                           stderr=subprocess.STDOUT, timeout=timeout)
        return p.returncode, p.stdout.decode('utf-8', 'replace'), time.time() - t0
    except subprocess.TimeoutExpired as e:
        out = (e.stdout or b'').decode('utf-8', 'replace')
        return 124, out + '\n[timeout after %ds]' % timeout, time.time() - t0


class BuildLock:
    def __enter__(self):
        os.makedirs(BUILD, exist_ok=True)
        self.f = open(os.path.join(BUILD, '.lock'), 'w')
        fcntl.flock(self.f, fcntl.LOCK_EX)
        return self

    def __exit__(self, *a):
        fcntl.flock(self.f, fcntl.LOCK_UN)
        self.f.close()


# ----------------------------------------------------------------------------- Coq

def coq_prepare():
    """(re)generate _CoqProject from the directory contents, and the Makefile from it"""
    mk = os.path.join(COQ, 'Makefile')
    cp = os.path.join(COQ, '_CoqProject')
    lines = ['-Q . GV']
    for d in ('Common', 'Model', 'Proofs', 'Properties'):
        dd = os.path.join(COQ, d)
        if os.path.isdir(dd):
            lines += ['%s/%s' % (d, f) for f in sorted(os.listdir(dd)) if f.endswith('.v') and not f.startswith('.')]
    text = '\n'.join(lines) + '\n'
    if not os.path.exists(cp) or open(cp).read() != text:
        open(cp, 'w').write(text)
    if not os.path.exists(mk) or os.path.getmtime(mk) < os.path.getmtime(cp):
        rc, out, _ = sh('coq_makefile -f _CoqProject -o Makefile', cwd=COQ)
        if rc != 0:
            raise RuntimeError('coq_makefile failed:\n' + out)


def coq_make(targets, timeout=1500, clean=False):
    """full .vo build of the given targets (relative to coq/); returns (ok, log)"""
    with BuildLock():
        coq_prepare()
        if clean:
            sh('make clean', cwd=COQ, timeout=120)
        rc, out, dt = sh('make -k -j%d %s' % (NCPU, ' '.join(targets)), cwd=COQ, timeout=timeout)
    return rc == 0, out


def coq_all_targets():
    fs = []
    for l in open(os.path.join(COQ, '_CoqProject')):
        l = l.strip()
        if l.endswith('.v'):
            fs.append(l[:-2] + '.vo')
    return fs


def coq_closure(vfile):
    """.v files the given file transitively depends on inside the development"""
    seen, todo = [], [vfile]
    index = {}
    for l in open(os.path.join(COQ, '_CoqProject')):
        l = l.strip()
        if l.endswith('.v'):
            index[os.path.basename(l)[:-2]] = l
    while todo:
        f = todo.pop()
        if f in seen:
            continue
        seen.append(f)
        try:
            src = open(os.path.join(COQ, f)).read()
        except OSError:
            continue
        for m in re.finditer(r'From\s+GV\s+Require\s+(?:Import|Export)?\s*([^.]*)\.', src):
            for name in m.group(1).split():
                name = name.split('.')[-1]
                if name in index:
                    todo.append(index[name])
    return seen


def forbidden_scan(files):
    hits = []
    for f in files:
        try:
            src = open(os.path.join(COQ, f)).read()
        except OSError:
            continue
        src_nc = strip_coq_comments(src)
        for i, line in enumerate(src_nc.split('\n'), 1):
            if FORBIDDEN.search(line):
                hits.append('%s:%d: %s' % (f, i, line.strip()))
    return hits


def strip_coq_comments(src):
    out, depth, i = [], 0, 0
    while i < len(src):
        if src.startswith('(*', i):
            depth += 1
            i += 2
        elif src.startswith('*)', i) and depth > 0:
            depth -= 1
            i += 2
        else:
            if depth == 0 or src[i] == '\n':
                out.append(src[i])
            i += 1
    return ''.join(out)


def coq_audit(pid, theorems):
    """Print Assumptions for every property theorem, from a generated file compiled now"""
    os.makedirs(os.path.join(BUILD, 'audit'), exist_ok=True)
    path = os.path.join(BUILD, 'audit', 'Audit_%s.v' % pid)
    with open(path, 'w') as f:
        f.write('From GV Require Import Properties_%s.\n' % pid)
        for th in theorems:
            f.write('Goal True. idtac "@@BEGIN %s". exact I. Qed.\nPrint Assumptions %s.\nGoal True. idtac "@@END %s". exact I. Qed.\n' % (th, th, th))
    rc, out, dt = sh('coqc -Q %s GV %s' % (COQ, path), timeout=600, cwd=os.path.join(BUILD, 'audit'))
    res = {}
    for th in theorems:
        m = re.search(r'@@BEGIN %s\n(.*?)@@END %s' % (re.escape(th), re.escape(th)), out, re.S)
        if not m:
            res[th] = {'ok': False, 'axioms': None, 'note': 'theorem not found or audit failed'}
            continue
        body = m.group(1).strip()
        if body.startswith('Closed under the global context'):
            res[th] = {'ok': True, 'axioms': []}
        else:
            axs = re.findall(r'^([A-Za-z_][\w.\']*)\s*:', body, re.M)
            bad = [a for a in axs if a not in ALLOWED_AXIOMS and a.split('.')[-1] not in ALLOWED_AXIOMS]
            res[th] = {'ok': not bad, 'axioms': axs, 'note': ('non-standard axioms: %s' % bad) if bad else ''}
    return rc == 0, res, out


# ----------------------------------------------------------------------------- components

def component(name):
    return importlib.import_module('comp_' + name)


def repo_hash(extra_files=()):
    h = hashlib.sha256()
    for base in (os.path.join(REPO, 'gmlc'), os.path.join(ROOT, 'harness')):
        for dp, dn, fn in sorted(os.walk(base)):
            dn.sort()
            for f in sorted(fn):
                p = os.path.join(dp, f)
                h.update(p.encode())
                with open(p, 'rb') as fh:
                    h.update(fh.read())
    for p in extra_files:
        h.update(open(p, 'rb').read())
    return h.hexdigest()


def build_impl_driver(comp, sanitize, nopeek=False):
    """compile the component's driver against /repo's current working tree.
    nopeek: build with -DVS_NO_PEEK (final() does not read private fields): used for the search when a
    change to the repo renames a field the driver peeks at"""
    os.makedirs(BUILD, exist_ok=True)
    tag = comp.NAME + ('_san' if sanitize else '') + ('_nopeek' if nopeek else '')
    exe = os.path.join(BUILD, tag + '_drv')
    stamp = exe + '.stamp'
    hv = repo_hash() + ('san' if sanitize else 'plain') + ('nopeek' if nopeek else '')
    with BuildLock():
        if os.path.exists(exe) and os.path.exists(stamp) and open(stamp).read() == hv:
            return exe, 'cached (content hash of /repo/gmlc + harness unchanged)'
        flags = '-std=c++17 -O1 -g -pthread -I%s -I%s' % (REPO, os.path.join(ROOT, 'harness'))
        if sanitize:
            flags += ' -fsanitize=address,undefined -fno-sanitize-recover=all -fno-omit-frame-pointer'
        flags += ' ' + getattr(comp, 'CXXFLAGS', '')
        if nopeek:
            flags += ' -DVS_NO_PEEK'
        rc, out, dt = sh('g++ %s %s -o %s' % (flags, os.path.join(ROOT, comp.DRIVER), exe), timeout=600)
        if rc != 0:
            if os.path.exists(exe):
                os.remove(exe)
            return None, out
        open(stamp, 'w').write(hv)
    return exe, out


def build_model_driver(comp):
    """extract the model to OCaml and link it with the generic driver"""
    ml = os.path.join(BUILD, 'ml_' + comp.NAME)
    os.makedirs(ml, exist_ok=True)
    exe = os.path.join(BUILD, comp.NAME + '_model_drv')
    ext = os.path.join(COQ, comp.EXTRACT)
    mod = comp.ML  # e.g. latch_model
    deps = [os.path.join(COQ, f) for f in coq_closure(comp.EXTRACT)] + [os.path.join(ROOT, 'ocaml', f) for f in ('drv.ml', 'drv_enum.ml', 'drv_main.ml')]
    h = hashlib.sha256()
    for d in deps:
        h.update(open(d, 'rb').read())
    hv = h.hexdigest()
    stamp = exe + '.stamp'
    with BuildLock():
        if os.path.exists(exe) and os.path.exists(stamp) and open(stamp).read() == hv:
            return exe, 'cached'
        rc, out, _ = sh('coqc -Q %s GV %s' % (COQ, ext), cwd=ml, timeout=600)
        if rc != 0:
            return None, out
        with open(os.path.join(ml, 'main.ml'), 'w') as f:
            f.write('open %s\n' % mod.capitalize())
            f.write(open(os.path.join(ROOT, 'ocaml', 'drv.ml')).read())
            if getattr(comp, 'ENUM', False):
                f.write(open(os.path.join(ROOT, 'ocaml', 'drv_enum.ml')).read())
            f.write(open(os.path.join(ROOT, 'ocaml', 'drv_main.ml')).read())
        rc, out2, _ = sh('ocamlfind ocamlopt -O3 -w -a %s.mli %s.ml main.ml -o %s 2>&1 || ocamlfind ocamlopt -w -a %s.mli %s.ml main.ml -o %s'
                         % (mod, mod, exe, mod, mod, exe), cwd=ml, timeout=600)
        if rc != 0:
            return None, out + out2
        open(stamp, 'w').write(hv)
    return exe, out


# ----------------------------------------------------------------------------- cases

def case_text(c):
    out = ['case %d' % c['id'], 'cfg ' + ' '.join(map(str, c['cfg']))]
    for p in c['progs']:
        out.append('thread ' + ' ; '.join(' '.join(map(str, op)) for op in p))
    out.append('sched ' + ' '.join('%d:%d' % tc for tc in c['sched']))
    out.append('end')
    return '\n'.join(out) + '\n'


def parse_case_file(path):
    cases, cur = [], None
    for line in open(path):
        w = line.split()
        if not w or w[0].startswith('#'):
            continue
        if w[0] == 'case':
            cur = {'id': int(w[1]), 'cfg': [], 'progs': [], 'sched': []}
        elif w[0] == 'cfg':
            cur['cfg'] = [int(x) for x in w[1:]]
        elif w[0] == 'thread':
            prog, op = [], []
            for x in w[1:]:
                if x == ';':
                    if op:
                        prog.append(op)
                    op = []
                else:
                    op.append(int(x))
            if op:
                prog.append(op)
            cur['progs'].append(prog)
        elif w[0] == 'sched':
            cur['sched'] = [tuple(int(y) for y in x.split(':')) for x in w[1:]]
        elif w[0] == 'end':
            cases.append(cur)
    return cases


def write_cases(path, cases):
    with open(path, 'w') as f:
        for c in cases:
            f.write(case_text(c))


def parse_output(text):
    """-> {case id: [lines as int lists]}"""
    res, cur = {}, None
    for line in text.split('\n'):
        if not line:
            continue
        if line.startswith('CASE '):
            cur = []
            res[int(line[5:])] = cur
        elif cur is not None:
            try:
                cur.append([int(x) for x in line.split()])
            except ValueError:
                cur.append([-9, 0])  # sanitizer chatter etc.
    return res


def canon(lines):
    """rename object ids by order of first appearance (obj field, and value field of pointer kinds)"""
    m = {0: 0}
    out = []

    def ren(x):
        if x not in m:
            m[x] = len(m)
        return m[x]
    for l in lines:
        if len(l) == 5 and l[0] >= 0:
            t, k, o, v, mo = l
            o = ren(o)
            if k >= PTR:
                v = ren(v)
            out.append([t, k, o, v, mo])
        else:
            out.append(list(l))
    return out


def run_driver(exe, casefile, timeout=900):
    env = dict(os.environ)
    env['ASAN_OPTIONS'] = 'detect_leaks=0:abort_on_error=0:exitcode=99'
    env['UBSAN_OPTIONS'] = 'print_stacktrace=0'
    p = subprocess.run([exe, casefile], stdout=subprocess.PIPE, stderr=subprocess.PIPE, timeout=timeout, env=env)
    return parse_output(p.stdout.decode('utf-8', 'replace')), p.stderr.decode('utf-8', 'replace')


def run_sharded(exe, cases, tag, shards):
    """run a driver over the cases in parallel shards; returns ({id: lines}, stderr-text)"""
    os.makedirs(os.path.join(BUILD, 'cases'), exist_ok=True)
    shards = max(1, min(shards, len(cases)))
    files = []
    for i in range(shards):
        part = cases[i::shards]
        path = os.path.join(BUILD, 'cases', '%s_%d_%d.case' % (tag, os.getpid(), i))
        write_cases(path, part)
        files.append(path)
    res, errs = {}, []
    with ThreadPoolExecutor(max_workers=shards) as ex:
        for out, err in ex.map(lambda f: run_driver(exe, f), files):
            res.update(out)
            if err.strip():
                errs.append(err)
    for f in files:
        try:
            os.remove(f)
        except OSError:
            pass
    return res, '\n'.join(errs)


def verdict_of(lines):
    vs = [l[1] for l in lines if len(l) >= 2 and l[0] == -1]
    if not vs or 3 in vs:
        return 3  # crash verdict, or no verdict line at all: the process died
    return vs[0]


def nontrivial(lines):
    """>= 2 threads took steps and some thread was pre-empted inside a library call"""
    last = None
    inop = {}
    tids = set()
    pre = False
    for l in lines:
        if len(l) != 5 or l[0] < 0:
            continue
        t, k = l[0], l[1]
        tids.add(t)
        if last is not None and t != last and inop.get(last, False):
            pre = True
        if k == K['INVOKE']:
            inop[t] = True
        elif k in (K['RET'], K['CATCH']):
            inop[t] = False
        last = t
    return len(tids) >= 2 and pre


def first_diff(a, b):
    n = min(len(a), len(b))
    for i in range(n):
        if a[i] != b[i]:
            return i
    return n if len(a) != len(b) else -1


# ----------------------------------------------------------------------------- shrinking

def shrink(case, still_fails, budget=200):
    """greedy: drop threads, drop operations, shorten the schedule, zero the choices"""
    cur = json.loads(json.dumps(case))
    cur['sched'] = [tuple(x) for x in cur['sched']]
    tries = 0

    def attempt(c):
        nonlocal tries
        tries += 1
        return tries <= budget and still_fails(c)
    changed = True
    while changed and tries < budget:
        changed = False
        # drop a thread (renumber the schedule)
        for t in range(len(cur['progs']) - 1, -1, -1):
            if len(cur['progs']) <= 1:
                break
            c = json.loads(json.dumps(cur))
            del c['progs'][t]
            c['sched'] = [(a - (1 if a > t else 0), b) for a, b in cur['sched'] if a != t]
            if attempt(c):
                cur, changed = c, True
        # drop an operation
        for t in range(len(cur['progs'])):
            for i in range(len(cur['progs'][t]) - 1, -1, -1):
                c = json.loads(json.dumps(cur))
                c['sched'] = [tuple(x) for x in c['sched']]
                del c['progs'][t][i]
                if attempt(c):
                    cur, changed = c, True
        # shorten the schedule: halves, then single entries
        n = len(cur['sched'])
        for cut in (n // 2, n // 4, 1):
            i = len(cur['sched'])
            while cut and i - cut >= 0 and tries < budget:
                c = json.loads(json.dumps(cur))
                c['sched'] = [tuple(x) for x in cur['sched'][:i - cut] + cur['sched'][i:]]
                if attempt(c):
                    cur, changed = c, True
                i -= cut
        # zero the choices
        for i, (a, b) in enumerate(cur['sched']):
            if b != 0:
                c = json.loads(json.dumps(cur))
                c['sched'] = [tuple(x) for x in cur['sched']]
                c['sched'][i] = (a, 0)
                if attempt(c):
                    cur, changed = c, True
    cur['sched'] = [tuple(x) for x in cur['sched']]
    return cur


# ----------------------------------------------------------------------------- known findings

def load_known():
    p = os.path.join(ROOT, 'known_findings.json')
    if not os.path.exists(p):
        return {'open': [], 'fixed': []}
    return json.load(open(p))


def known_match(pid, what, sig):
    for e in load_known().get('open', []):
        if e.get('property') == pid and e.get('monitor', '') in what and e.get('match', '') in sig:
            return e
    return None
