"""Event-kind code table (must agree with coq/Common/Events.v and harness/events.h)."""
K = dict(
    INVOKE=0, RET=1, LOAD=2, STORE=3, RMW=4, CAS_OK=5, CAS_FAIL=6, XCHG=7,
    LOCK=10, UNLOCK=11, TRYLOCK=12, LOCK_SH=13, UNLOCK_SH=14, TRYLOCK_SH=15, TRYLOCK_FOR=16, TRYLOCK_SH_FOR=17,
    CV_SLEEP=20, CV_WAKE=21, NOTIFY_ALL=22, NOTIFY_ONE=23,
    RD_BEGIN=30, RD_END=31, WR_BEGIN=32, WR_END=33,
    CALL=40, THROW=41, CATCH=42,
    ALLOC=50, CONSTRUCT=51, DESTROY=52, DEALLOC=53,
    YIELD=60, SLEEP=61, FAULT=90, SKIP=99,
)
NAME = {v: k.lower() for k, v in K.items()}
MO = {-1: '', 0: 'relaxed', 1: 'consume', 2: 'acquire', 3: 'release', 4: 'acq_rel', 5: 'seq_cst'}
VERDICT = {0: 'done', 1: 'deadlock', 2: 'fuel', 3: 'crash'}
PTR = 100


def kind_name(k):
    if k >= PTR and (k - PTR) in NAME:
        return NAME[k - PTR] + '_ptr'
    return NAME.get(k, 'k%d' % k)


def pretty(line):
    """line: list of ints"""
    if len(line) >= 2 and line[0] == -1:
        return 'VERDICT ' + VERDICT.get(line[1], str(line[1]))
    if len(line) >= 1 and line[0] == -2:
        return 'FINAL ' + ' '.join(map(str, line[1:]))
    if len(line) == 2 and line[1] == 99:
        return 't%d SKIP' % line[0]
    if len(line) == 5:
        t, k, o, v, m = line
        s = 't%d %s obj%d val=%d' % (t, kind_name(k), o, v)
        if m >= 0:
            s += ' ' + MO.get(m, str(m))
        return s
    return ' '.join(map(str, line))
