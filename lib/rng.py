"""SplitMix64: the single source of randomness (seeded from VERIF_SEED)."""
MASK = (1 << 64) - 1


class Rng:
    def __init__(self, seed):
        self.s = (seed * 0x9E3779B97F4A7C15 + 0x1234567) & MASK

    def next(self):
        self.s = (self.s + 0x9E3779B97F4A7C15) & MASK
        z = self.s
        z = ((z ^ (z >> 30)) * 0xBF58476D1CE4E5B9) & MASK
        z = ((z ^ (z >> 27)) * 0x94D049BB133111EB) & MASK
        return z ^ (z >> 31)

    def below(self, n):
        return self.next() % n if n > 0 else 0

    def range(self, lo, hi):
        """inclusive"""
        return lo + self.below(hi - lo + 1)

    def chance(self, num, den):
        return self.below(den) < num

    def pick(self, xs):
        return xs[self.below(len(xs))]

    def weighted(self, pairs):
        """pairs: [(weight, value)]"""
        tot = sum(w for w, _ in pairs)
        r = self.below(tot)
        for w, v in pairs:
            if r < w:
                return v
            r -= w
        return pairs[-1][1]

    def fork(self, tag):
        return Rng(self.next() ^ (hash(tag) & MASK if isinstance(tag, int) else sum(ord(c) * 131 ** i for i, c in enumerate(str(tag))) & MASK))


# ---- schedule generators (shared by the components) -------------------------

def sched_random(rng, nthreads, length, choice_weights=((12, 0), (1, 1), (1, 2))):
    return [(rng.below(nthreads), rng.weighted(list(choice_weights))) for _ in range(length)]


def sched_runs(rng, nthreads, length, maxrun=8, choice_weights=((12, 0), (1, 1), (1, 2))):
    """long runs of one thread with few preemptions"""
    out = []
    while len(out) < length:
        t = rng.below(nthreads)
        for _ in range(rng.range(1, maxrun)):
            out.append((t, rng.weighted(list(choice_weights))))
    return out[:length]


def sched_pct(rng, nthreads, length, changes=3, choice_weights=((12, 0), (1, 1), (1, 2))):
    """PCT-style: a random priority order with a few priority change points"""
    prio = list(range(nthreads))
    for i in range(nthreads - 1, 0, -1):
        j = rng.below(i + 1)
        prio[i], prio[j] = prio[j], prio[i]
    points = sorted(rng.below(max(1, length)) for _ in range(changes))
    out = []
    for i in range(length):
        while points and points[0] == i:
            points.pop(0)
            prio.append(prio.pop(0))
        # naming the top-priority thread; if disabled the step is a SKIP and lower ones run in later slots
        k = 0 if rng.chance(3, 4) else rng.below(nthreads)
        out.append((prio[k], rng.weighted(list(choice_weights))))
    return out


def sched_boundary(rng, nthreads, first, k, rest_len, choice_weights=((12, 0), (1, 1), (1, 2))):
    """run thread `first` exactly k steps, then others (pre-empt at a chosen pc)"""
    out = [(first, 0)] * k
    others = [t for t in range(nthreads) if t != first] or [first]
    for _ in range(rest_len):
        t = rng.pick(others) if rng.chance(3, 4) else first
        out.append((t, rng.weighted(list(choice_weights))))
    return out


def any_sched(rng, nthreads, maxlen, cw=((12, 0), (1, 1), (1, 2))):
    kind = rng.below(4)
    length = rng.range(0, maxlen)
    if kind == 0:
        return sched_random(rng, nthreads, length, cw)
    if kind == 1:
        return sched_runs(rng, nthreads, length, 8, cw)
    if kind == 2:
        return sched_pct(rng, nthreads, length, 3, cw)
    return sched_boundary(rng, nthreads, rng.below(nthreads), rng.range(0, 12), length, cw)
