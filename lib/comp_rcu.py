"""rcu_list / rcu_guarded: generator and implementation-side monitors (C13, C12, C05; rcu part of C14).

Ops: [0] LockRead  [1] LockWrite  [2,it] Begin  [3,it] Next  [4,it] Deref  [5,it] IsEnd
     [6,v] PushFront  [7,v] PushBack  [8,v] EmplaceFront  [9,v] EmplaceBack  [10,it] Erase  [11] Release
     [12,it] BeginFail  [13,v] PushFail  [14,it] EraseFail: the same calls with the first allocation made inside
     them failing (std::bad_alloc from the allocator, K_THROW 2 ... K_CATCH 0): registration record, list node,
     erase's reclamation record
cfg = [unfixed, element kind, mutex kind] (mutex kind 1 = std::timed_mutex as the list's M; unfixed always 0 in the check: the model describes the repaired source; element kind
1 = trivially destructible element type in the driver, same events: the model ignores it).
Values pushed in one case are pairwise distinct, so that the monitors can name elements.  A NEGATIVE value makes
the element constructor throw inside allocator_traits::construct (K_CALL 1, K_THROW 0, ... K_CATCH 0): the
storage is deallocated without ever being constructed or destroyed and the list is unchanged.
"""
from events import K, PTR
import rng as R

NAME = 'rcu'
DRIVER = 'harness/rcu_drv.cpp'
EXTRACT = 'Extract/RcuExtract.v'
ML = 'rcu_model'
SANITIZE = True
ENUM = True

LOCKR, LOCKW, BEGIN, NEXT, DEREF, ISEND, PUSHF, PUSHB, EMPF, EMPB, ERASE, RELEASE = range(12)
BEGINF, PUSHFAIL, ERASEF = 12, 13, 14      # the first allocation inside the call throws std::bad_alloc
PUSHES = (PUSHF, PUSHB, EMPF, EMPB, PUSHFAIL)
READ_OPS = (LOCKR, LOCKW, BEGIN, NEXT, DEREF, ISEND, RELEASE)
CW = ((14, 0), (2, 3), (1, 1), (1, 2))   # 2 = a timed lock attempt times out (only matters for a timed write mutex)


class _Vals:
    def __init__(self):
        self.n = 0

    def fresh(self):
        self.n += 1
        return self.n * 10


def _push(rng, vals):
    v = vals.fresh()
    if rng.chance(1, 6):
        v = -v          # the element constructor throws inside push_* / emplace_* (the throw plan of the case)
    if rng.chance(1, 12):
        return [PUSHFAIL, abs(v)]   # allocation failure: of the registration record (first access) or of the node
    return [rng.weighted([(4, PUSHF), (4, PUSHB), (1, EMPF), (1, EMPB)]), v]


def _traverse(rng, it, maxlen):
    ops = []
    for _ in range(rng.range(0, maxlen)):
        ops.append([rng.weighted([(4, NEXT), (4, DEREF), (1, ISEND)]), it])
    return ops


def _reader(rng, vals):
    ops = [[rng.weighted([(4, LOCKR), (1, LOCKW)])]]
    if rng.chance(1, 10):
        ops.append([BEGINF, 0])     # the registration's allocation fails; the handle stays unregistered
    ops.append([BEGIN, 0])
    ops += _traverse(rng, 0, 7)
    if rng.chance(1, 4):
        ops += [[BEGIN, 1]] + _traverse(rng, 1, 4) + _traverse(rng, 0, 3)
    ops.append([RELEASE])
    return ops


def _full_traversal(rng, vals):
    ops = [[LOCKR], [BEGIN, 0]]
    for _ in range(6):
        ops += [[DEREF, 0], [NEXT, 0]]
    ops += [[ISEND, 0], [RELEASE]]
    return ops


def _writer(rng, vals):
    ops = [[LOCKW]]
    for _ in range(rng.range(0, 2)):
        ops.append(_push(rng, vals))
    for _ in range(rng.range(1, 2)):
        ops.append([BEGIN, 0])
        for _ in range(rng.range(0, 3)):
            ops.append([NEXT, 0])
        if rng.chance(1, 6):
            ops.append([ERASEF, 0])  # the record's allocation fails: the element must stay in the list
            if rng.chance(1, 2):
                ops.append([DEREF, 0])
        ops.append([ERASE, 0])
        if rng.chance(1, 3):
            ops.append([DEREF, 0])
        if rng.chance(1, 4):
            ops.append([ERASE, 0])
        if rng.chance(1, 3):
            ops.append(_push(rng, vals))
    ops.append([RELEASE])
    return ops


def _short(rng, vals):
    ops = []
    for _ in range(rng.range(1, 3)):
        k = rng.below(6)
        if k == 0:
            ops += [[rng.pick([LOCKR, LOCKW])], [RELEASE]]            # never accessed: no registration
        elif k == 1:
            ops += [[LOCKW], _push(rng, vals), [RELEASE]]
        else:
            ops += [[rng.pick([LOCKR, LOCKW])], [BEGIN, 0]] + _traverse(rng, 0, 2) + [[RELEASE]]
    return ops


def _double_erase(rng, vals):
    """two iterators on the same element, erased twice (the second erase must be a no-op)"""
    k = rng.range(0, 2)     # not only the head: the successor erase() returns then differs from begin()
    return [[LOCKW], [BEGIN, 0]] + [[NEXT, 0]] * k + [[BEGIN, 1]] + [[NEXT, 1]] * k + [[ERASE, 0], [ERASE, 1], [DEREF, 1], [NEXT, 1], [DEREF, 1], [RELEASE]]


def _role(rng, vals):
    mk = rng.weighted([(5, _reader), (5, _writer), (5, _short), (2, _full_traversal), (1, _double_erase)])
    ops = mk(rng, vals)
    if rng.chance(1, 3):
        ops += rng.weighted([(1, _reader), (1, _writer), (2, _short)])(rng, vals)
    return ops


def _race3(rng, vals):
    """eraser / short-lived releaser / paused reader: the reclamation window (DESIGN C05 'Fires on')"""
    npre = rng.range(2, 4)
    pre = [[LOCKW]] + [[PUSHB, vals.fresh()] for _ in range(npre)] + [[RELEASE]]
    a = rng.range(0, npre - 1)
    eraser = [[LOCKW], [BEGIN, 0]] + [[NEXT, 0]] * a + ([[ERASEF, 0]] if rng.chance(1, 3) else []) + [[ERASE, 0], [RELEASE]]
    if rng.chance(1, 3):
        eraser += [[LOCKR], [BEGIN, 0], [RELEASE]]
    short = []
    for _ in range(rng.range(1, 2)):
        short += [[LOCKR], [BEGIN, 0], [RELEASE]]
    b = rng.range(0, npre - 1)
    reader = [[LOCKR], [BEGIN, 0]] + [[NEXT, 0]] * b + [[DEREF, 0], [NEXT, 0], [DEREF, 0], [NEXT, 0], [ISEND, 0], [RELEASE]]
    progs = [pre + eraser, short, reader]
    sched = [(0, 0)] * (npre * 9 + 14)                     # the initial list
    order = rng.below(4)
    k0 = rng.range(0, 10 + 2 * a + 13)                      # the eraser stops somewhere up to the end of its erase
    r0 = rng.range(0, 8 + 2 * b + 2)                        # the reader registers and walks to its element
    if order == 0:
        sched += [(0, 0)] * k0 + [(2, 0)] * r0
    elif order == 1:
        sched += [(2, 0)] * r0 + [(0, 0)] * k0
    elif order == 2:
        sched += [(1, 0)] * rng.range(0, 9) + [(0, 0)] * k0 + [(2, 0)] * r0
    else:
        # the eraser is parked inside erase; a short-lived handle registers, then the reader registers and walks;
        # the eraser finishes and releases, the short-lived handle releases (reclaims), the reader goes on
        sched += [(0, 0)] * k0 + [(1, 0)] * rng.range(7, 9) + [(2, 0)] * r0 + [(0, 0)] * rng.range(10, 40) + [(1, 0)] * rng.range(5, 40)
    for _ in range(rng.range(2, 7)):
        t = rng.weighted([(3, 0), (4, 1), (2, 2)])
        sched += [(t, rng.weighted(list(CW)))] * rng.range(3, 34)
    return {'cfg': [0, 1 if rng.chance(1, 3) else 0, 1 if rng.chance(1, 3) else 0], 'progs': progs, 'sched': sched}


def _first2(rng, vals):
    """the first two handles ever used on the list register concurrently: both read m_zombie_head = null
    before either publishes its record (the empty-log boundary of rcu_read_lock).  One of them is a reader that
    then pauses on an element, the other populates the list and releases; a third thread erases that element and
    releases (its release, or a short-lived handle's, reclaims); the paused reader then dereferences / advances."""
    npush = rng.range(2, 3)
    b = rng.range(0, npush - 1)
    reader = [[LOCKR], [BEGIN, 0]] + [[NEXT, 0]] * b + [[DEREF, 0], [NEXT, 0], [DEREF, 0], [ISEND, 0], [RELEASE]]
    writer = [[LOCKW]] + [[PUSHB, vals.fresh()] for _ in range(npush)] + [[RELEASE]]
    if rng.chance(1, 2):
        writer += [[LOCKR], [BEGIN, 0], [RELEASE]]
    a = rng.range(0, npush - 1) if rng.chance(1, 3) else b
    eraser = [[LOCKW], [BEGIN, 0]] + [[NEXT, 0]] * a + [[ERASE, 0], [RELEASE]]
    if rng.chance(1, 2):
        eraser += [[LOCKR], [BEGIN, 0], [RELEASE]]
    progs = [reader, writer, eraser]
    first, second = (0, 1) if rng.chance(3, 4) else (1, 0)
    # lock (1 step), invoke (1), allocate, construct, load of m_zombie_head (3): both threads have read null
    sched = [(first, 0)] * rng.range(4, 6) + [(second, 0)] * rng.range(4, 6)
    sched += [(first, 0)] * rng.range(1, 3) + [(second, 0)] * rng.range(1, 3)          # both publish
    sched += [(1, 0)] * rng.range(9 * npush + 4, 9 * npush + 16)                        # the list is built, the writer releases
    sched += [(0, 0)] * rng.range(2 * b + 2, 2 * b + 8)                                 # the reader walks to its element
    sched += [(2, 0)] * rng.range(30, 70)                                               # erase and release
    sched += [(1, 0)] * rng.range(0, 30)                                                # a short-lived handle
    sched += [(0, 0)] * rng.range(2, 20)                                                # the paused reader goes on
    for _ in range(rng.range(1, 5)):
        sched += [(rng.below(3), rng.weighted(list(CW)))] * rng.range(3, 30)
    return {'cfg': [0, 1 if rng.chance(1, 3) else 0, 1 if rng.chance(1, 3) else 0], 'progs': progs, 'sched': sched}


def gen(rng, tier, spec):
    vals = _Vals()
    if rng.chance(1, 2 if tier == 'search' else 7):
        return _first2(rng, vals) if rng.chance(1, 3) else _race3(rng, vals)
    nt = rng.weighted([(1, 1), (6, 2), (5, 3)])
    npre = rng.weighted([(1, 0), (2, 1), (3, 2), (3, 3), (2, 4)])
    pre = []
    if npre:
        pre = [[LOCKW]] + [[rng.pick([PUSHF, PUSHB]), vals.fresh()] for _ in range(npre)] + [[RELEASE]]
    progs = [pre + _role(rng, vals)] + [_role(rng, vals) for _ in range(nt - 1)]
    if rng.chance(1, 20):   # a nonsensical operation: skipped with K_FAULT 9 on both sides
        t = rng.below(nt)
        progs[t].insert(rng.below(len(progs[t]) + 1), rng.pick([[NEXT, 7], [RELEASE], [PUSHF, vals.fresh()], [ERASE, 0], [LOCKR]]))
    # prefix: thread 0 builds the initial list alone (1 + 6 + 9 * npre + 6 steps are enough for lock, registration,
    # the pushes and the release; running over just starts its role)
    prefix = [(0, 0)] * ((npre * 9 + 16) if npre else 0)
    kind = rng.below(6)
    if kind <= 2:
        sched = R.any_sched(rng, nt, 140, CW)
    elif kind == 3:
        # boundary-aimed: park one thread k steps into its role (inside a traversal, an erase or a release),
        # run the others to completion of a few operations, then mix
        first = rng.below(nt)
        sched = R.sched_boundary(rng, nt, first, rng.range(1, 30), rng.range(0, 120), CW)
    elif kind == 4:
        # every thread in turn runs a long stretch (sessions mostly sequential, overlapping at the seams)
        sched = R.sched_runs(rng, nt, rng.range(0, 160), 25, CW)
    else:
        # two parked threads: a reader inside its session and a releaser inside its scan / reclaim loop
        a, b = rng.below(nt), rng.below(nt)
        sched = [(a, 0)] * rng.range(1, 20) + [(b, 0)] * rng.range(1, 40) + R.sched_random(rng, nt, rng.range(0, 100), CW)
    return {'cfg': [0, 1 if rng.chance(1, 3) else 0, 1 if rng.chance(1, 3) else 0], 'progs': progs, 'sched': prefix + sched}


# ----------------------------------------------------------------------------- trace reading

def _events(lines):
    for i, l in enumerate(lines):
        if len(l) == 5 and l[0] >= 0:
            yield i, l[0], l[1], l[2], l[3], l[4]


def _finals(lines):
    return [l[1:] for l in lines if l and l[0] == -2]


def _verdict(lines):
    for l in lines:
        if len(l) >= 2 and l[0] == -1:
            return l[1]
    return 3


def _ops(case, lines):
    """split the trace into operations: list of dicts {t, op (int list), i0, i1 (trace indices), evs [(i,k,o,v,m)], ret}"""
    nxt = {t: 0 for t in range(len(case['progs']))}
    cur, out = {}, []
    for i, t, k, o, v, m in _events(lines):
        if k == K['INVOKE']:
            p = case['progs'][t]
            opv = p[nxt[t]] if nxt[t] < len(p) else [v]
            nxt[t] += 1
            cur[t] = {'t': t, 'op': opv, 'i0': i, 'i1': None, 'evs': [], 'ret': None}
            out.append(cur[t])
        elif t in cur:
            if k in (K['RET'], K['CATCH']):
                cur[t]['i1'] = i
                cur[t]['ret'] = v
            else:
                cur[t]['evs'].append((i, k, o, v, m))
    return out


def _open_handle(case, lines):
    """some thread ended its program holding a handle (a client leak: its record legitimately outlives the list)"""
    held = {}
    for op in _ops(case, lines):
        c = op['op'][0]
        if op['ret'] is None and op['i1'] is None:
            continue
        bad = any(e[1] == K['FAULT'] and e[3] == 9 for e in op['evs'])
        if c in (LOCKR, LOCKW) and not bad:
            held[op['t']] = True
        elif c == RELEASE and not bad:
            held[op['t']] = False
    return any(held.values())


def mon_fault(case, lines):
    """any K_FAULT other than the client-misuse code 9: ledger (1), null destroy/deallocate (2), use after free (3)"""
    names = {1: 'allocator ledger violation', 2: 'destroy/deallocate of a null pointer', 3: 'access to a cell that is not alive (use after free)',
             5: 'emplace_* moved from an LVALUE argument: the caller\'s object was emptied (arguments must be forwarded, not moved)'}
    for i, t, k, o, v, m in _events(lines):
        if k == K['FAULT'] and v != 9:
            return 'thread %d at trace line %d: %s (object %d)' % (t, i, names.get(v, 'fault %d' % v), o)
    for f in _finals(lines):
        if f and f[0] == K['FAULT']:
            return '~rcu_list: %s (cell %d)' % (names.get(f[2] if len(f) > 2 else 0, 'fault'), f[1])
    return None


def mon_ledger(case, lines):
    """every cell: allocate, construct, destroy, deallocate exactly once each and in this order; nothing left at the end"""
    order = []            # cell number -> object id (allocation order)
    st = {}               # object id -> list of ledger kinds seen
    raw = set()           # storage whose construction threw: allocate, deallocate and nothing else
    last_alloc = {}       # thread -> object it allocated last
    for i, t, k, o, v, m in _events(lines):
        if k == K['ALLOC']:
            order.append(o)
            st[o] = [k]
            last_alloc[t] = o
        elif k == K['THROW'] and v == 0 and t in last_alloc and st.get(last_alloc[t]) == [K['ALLOC']]:
            raw.add(last_alloc[t])
        elif k in (K['CONSTRUCT'], K['DESTROY'], K['DEALLOC']):
            if o == 0:
                return 'thread %d: %s of a null pointer at trace line %d' % (t, {51: 'construct', 52: 'destroy', 53: 'deallocate'}[k], i)
            st.setdefault(o, []).append(k)
    destroyed_list = False
    for f in _finals(lines):
        if f and f[0] in (K['DESTROY'], K['DEALLOC'], K['CONSTRUCT']):
            if f[1] < len(order):
                st[order[f[1]]].append(f[0])
        if f and f[0] == -1:
            destroyed_list = True
            if f[2] != 0 and not _open_handle(case, lines):
                return '%d of %d cells were never deallocated after ~rcu_list' % (f[2], f[1])
    full0 = [K['ALLOC'], K['CONSTRUCT'], K['DESTROY'], K['DEALLOC']]
    for n, o in enumerate(order):
        seq = st[o]
        full = [K['ALLOC'], K['DEALLOC']] if o in raw else full0
        if o in raw and seq != full[:len(seq)]:
            return 'cell %d (object %d): construction threw, yet the allocator calls are %s (a never-constructed cell must only be deallocated)' % (n, o, seq)
        if seq != full[:len(seq)]:
            return 'cell %d (object %d): allocator calls %s are not a prefix of allocate, construct, destroy, deallocate' % (n, o, seq)
        if destroyed_list and seq != full and not _open_handle(case, lines):
            return 'cell %d (object %d) ended with allocator calls %s' % (n, o, seq)
    # "nothing erased => a release frees only handle records"
    erased = any(e[1] == K['ALLOC'] and e[3] == 2 for op in _ops(case, lines) if op['op'][0] in (ERASE, ERASEF) for e in op['evs'])
    if not erased:
        kinds = {}
        for i, t, k, o, v, m in _events(lines):
            if k == K['ALLOC']:
                kinds[o] = v
            if k in (K['DESTROY'], K['DEALLOC']) and kinds.get(o) == 1 and o not in raw:
                return 'nothing was erased, yet thread %d destroyed/deallocated list node %d at trace line %d' % (t, o, i)
    return None


def _mutations(case, lines):
    """mutators in write-mutex order: [(lock index, 'F'|'B'|'E', node object id, value, op)]"""
    out = []
    for op in _ops(case, lines):
        c = op['op'][0]
        if c not in PUSHES and c not in (ERASE, ERASEF):
            continue
        if any(e[1] == K['THROW'] for e in op['evs']):
            continue            # the constructor threw: nothing was inserted
        lock = [e for e in op['evs'] if e[1] in (K['LOCK'], K['TRYLOCK_FOR'])]
        if not lock:
            continue
        after = [e for e in op['evs'] if e[0] > lock[0][0]]
        if c in (ERASE, ERASEF):
            ld = [e for e in after if e[1] == K['LOAD'] + PTR]
            if ld:
                out.append((lock[0][0], 'E', ld[0][2], None, op))
        else:
            al = [e for e in after if e[1] == K['ALLOC']]
            if al:
                out.append((lock[0][0], 'F' if c in (PUSHF, EMPF) else 'B', al[0][2], op['op'][1], op))
    out.sort(key=lambda x: x[0])
    return out


def mon_contents(case, lines):
    """final contents = sequential replay of the mutators in write-mutex order"""
    if _verdict(lines) != 0:
        return None
    ref, val = [], {}
    for _, kind, node, v, op in _mutations(case, lines):
        if kind == 'F':
            ref.insert(0, node)
            val[node] = v
        elif kind == 'B':
            ref.append(node)
            val[node] = v
        elif node in ref:
            ref.remove(node)
    want = [val[n] for n in ref]
    for f in _finals(lines):
        if f and f[0] == -3:
            if f[1:] != want:
                return 'final contents %s differ from the sequential replay of the mutators in mutex order %s' % (f[1:], want)
    return None


def mon_traversal(case, lines):
    """each traversal visits nodes in strictly increasing global position order, only inserted values,
    and every element that was in the list during the whole traversal (if it ran to the end)"""
    muts = _mutations(case, lines)
    pos, val = [], {}
    linked_at, erase_at = {}, {}
    for idx, kind, node, v, op in muts:
        if kind == 'F':
            pos.insert(0, node)
        elif kind == 'B':
            pos.append(node)
        if kind in 'FB':
            val[node] = v
            linked_at[node] = op['i1'] if op['i1'] is not None else 10 ** 9
        else:
            erase_at.setdefault(node, op['i0'])
    rank = {n: i for i, n in enumerate(pos)}
    inserted = set(val.values())
    trav = {}   # (t, it) -> {'start': i, 'seq': [nodes], 'end': i or None}

    def close(key, i):
        tr = trav.pop(key, None)
        if tr is None:
            return None
        seq = tr['seq']
        for a, b in zip(seq, seq[1:]):
            if a not in rank or b not in rank:
                return 'thread %d iterator %d visited an object that is not a list node' % key
            if rank[a] >= rank[b]:
                return 'thread %d iterator %d went from node %d to node %d: not forward in list order' % (key + (a, b))
        if tr['end'] is not None and not tr.get('partial'):
            for n in pos:
                if linked_at[n] < tr['start'] and erase_at.get(n, 10 ** 9) > tr['end'] and n not in seq:
                    return 'thread %d iterator %d ran to the end but skipped element %d (value %d) that was in the list all along' % (key + (n, val[n]))
        return None
    node_objs = set(o for (_, _, k, o, v, _) in _events(lines) if k == K['ALLOC'] and v == 1)
    erased_succ = {}
    er = []
    for op in _ops(case, lines):
        if op['op'][0] in (ERASE, ERASEF):
            lk = [e for e in op['evs'] if e[1] in (K['LOCK'], K['TRYLOCK_FOR'])]
            ld = [e for e in op['evs'] if lk and e[0] > lk[0][0] and e[1] == K['LOAD'] + PTR]
            real = any(e[1] == K['ALLOC'] and e[3] == 2 and lk and e[0] > lk[0][0] for e in op['evs'])   # it built a record: it unlinked
            if real and ld and ld[0][2] in node_objs:
                er.append((lk[0][0], ld[0][2], ld[0][3]))
    for _, cn, sv in sorted(er):
        erased_succ.setdefault(cn, sv)
    for op in _ops(case, lines):
        c, t = op['op'][0], op['t']
        key = (t, op['op'][1]) if len(op['op']) > 1 else None
        if c == BEGIN:
            r = close(key, op['i0'])
            if r:
                return r
            ld = [e for e in op['evs'] if e[1] == K['LOAD'] + PTR and e[4] == 5 and e[2] != 0]
            ld = [e for e in op['evs'] if e[1] == K['LOAD'] + PTR]
            if ld and op['i1'] is not None:
                h = ld[-1][3]
                trav[key] = {'start': op['i0'], 'seq': [h] if h else [], 'end': ld[-1][0] if not h else None}
        elif c == NEXT and key in trav:
            ld = [e for e in op['evs'] if e[1] == K['LOAD'] + PTR]
            if ld:
                n = ld[-1][3]
                if n:
                    trav[key]['seq'].append(n)
                else:
                    trav[key]['end'] = ld[-1][0]
        elif c in (ERASE, ERASEF) and key in trav:
            if any(e[1] in (K['LOCK'], K['TRYLOCK_FOR']) for e in op['evs']) and not any(e[1] == K['THROW'] for e in op['evs']):
                # erase returns the successor it read first (also when the element was already erased): from here on the
                # iterator is followed as a partial traversal starting at that node (no skip check)
                lk = [e for e in op['evs'] if e[1] in (K['LOCK'], K['TRYLOCK_FOR'])]
                ld = [e for e in op['evs'] if lk and e[0] > lk[0][0] and e[1] == K['LOAD'] + PTR]
                cnode = trav[key]['seq'][-1] if trav[key]['seq'] else None
                trav.pop(key)
                # the successor: what the erase that really unlinked the element read from its next field (an erased
                # element keeps that pointer), else what this erase read
                h = erased_succ.get(cnode, ld[0][3] if ld else None)
                if h is not None and op['i1'] is not None:
                    trav[key] = {'start': op['i1'], 'seq': [h] if h else [], 'end': None, 'partial': True}
        elif c == DEREF:
            rd = [e for e in op['evs'] if e[1] == K['RD_END']]
            if rd and rd[0][3] not in inserted:
                return 'thread %d dereferenced an iterator and read %d, a value that was never inserted' % (t, rd[0][3])
            if rd and key in trav and trav[key]['seq'] and val.get(trav[key]['seq'][-1]) != rd[0][3]:
                return 'thread %d read %d through an iterator on the element %s' % (t, rd[0][3], val.get(trav[key]['seq'][-1]))
        elif c == RELEASE:
            for k2 in [k for k in trav if k[0] == t]:
                r = close(k2, op['i0'])
                if r:
                    return r
    for k2 in list(trav):
        r = close(k2, 10 ** 9)
        if r:
            return r
    return None


def mon_read_mutex(case, lines):
    """lock_read / lock_write registration, begin, ++, *, release never touch a mutex"""
    for op in _ops(case, lines):
        if op['op'][0] in READ_OPS:
            for e in op['evs']:
                if K['LOCK'] <= e[1] <= K['TRYLOCK_SH_FOR'] or K['CV_SLEEP'] <= e[1] <= K['NOTIFY_ONE']:
                    return 'thread %d: mutex / condition-variable event inside read operation %s at trace line %d' % (op['t'], op['op'], e[0])
        elif op['op'][0] in PUSHES or op['op'][0] in (ERASE, ERASEF):
            lock = [e[0] for e in op['evs'] if e[1] == K['LOCK']]
            # the lazy registration inside a mutator happens before the mutex is taken
            for e in op['evs']:
                if e[1] == K['ALLOC'] and e[3] == 2 and op['op'][0] in PUSHES and lock and e[0] > lock[0]:
                    return 'thread %d registered while holding the write mutex' % op['t']
    return None


def mon_deadlock(case, lines):
    v = _verdict(lines)
    if v == 1:
        return 'deadlock: some thread is blocked for ever'
    if v == 2:
        return 'the run did not terminate within the fuel bound'
    return None



def mon_read_spins(case, lines):
    """C14: lock_read / begin / ++ / * are wait-free: inside one such operation no atomic location is loaded twice
    (a second load of the same location means the reader is polling for a writer's progress)"""
    cur, seen = {}, {}
    for i, l in enumerate(lines):
        if len(l) != 5 or l[0] < 0:
            continue
        t, k, o, v, m = l
        if k == K['INVOKE']:
            cur[t] = v
            seen[t] = set()
        elif k in (K['RET'], K['CATCH']):
            cur.pop(t, None)
        elif cur.get(t) in (BEGIN, NEXT, DEREF, ISEND) and k in (K['LOAD'], K['LOAD'] + PTR):
            if o in seen[t]:
                return 'thread %d: operation %d loads obj%d a second time at trace line %d: the read polls instead of being wait-free' % (t, cur[t], o, i)
            seen[t].add(o)
    return None


def mon_mo_weakened(case, lines):
    """C07 / C12 / C05: every atomic operation of the list is seq_cst except the three sites of RcuReadProofs.mo_table:
    the registration's load of m_zombie_head (a guess the CAS validates), the store to the still private record's next
    before that CAS, and push_back's load of m_tail under the write mutex (RcuViews.rcu_tail_relaxed_ok).  Sites are
    identified by position: registration = allocate(record) + construct outside the write mutex, then load, store to
    that record, CAS; push_back = lock, allocate(node), construct, then the first load."""
    LDP, STP = K['LOAD'] + PTR, K['STORE'] + PTR
    for op in _ops(case, lines):
        locked, last_alloc, pending, first = False, None, None, False
        backpush = op['op'][0] in (PUSHB, EMPB, PUSHFAIL)
        for i, k, o, v, m in op['evs']:
            if k in (K['LOCK'], K['TRYLOCK_FOR']):
                locked = True
            elif k == K['ALLOC']:
                last_alloc = (o, v, locked)
            elif k == K['CONSTRUCT'] and last_alloc and last_alloc[0] == o:
                if last_alloc[1] == 2 and not last_alloc[2]:
                    pending, first = ('reg', o), True
                elif last_alloc[1] == 1 and last_alloc[2] and backpush:
                    pending, first = ('tail', o), True
            if m is None or m < 0:
                continue
            allowed = False
            if pending and pending[0] == 'reg':
                if k == LDP and first:
                    allowed = True
                elif k == STP and o == pending[1]:
                    allowed = True
                elif k % PTR == K['CAS_OK']:
                    pending = None
            elif pending and pending[0] == 'tail':
                if k == LDP and first:
                    allowed = True
                pending = None
            first = False
            if m != 5 and not allowed:
                from events import pretty
                return ('thread %d, operation %s: "%s" at trace line %d is weaker than seq_cst.  Only the registration\'s load of '
                        'm_zombie_head, the store to the still private record\'s next and push_back\'s load of m_tail may be relaxed '
                        '(RcuReadProofs.mo_table); every store / CAS that publishes a pointer lock-free readers follow (node next / back, '
                        'm_head, m_tail, the m_zombie_head CAS, owner.store) must release, or a reader reaches the object without '
                        'happening-after its construction (RcuViews.rcu_log_publication, refuted for weakened orders by '
                        'RcuViews.rcu_relaxed_cas_refuted / rcu_relaxed_owner_store_refuted)' % (op['t'], op['op'], pretty([op['t'], k, o, v, m]), i))
    return None


def mon_write_mutex(case, lines):
    """C12: every mutator section runs while the thread OWNS the write mutex: the allocation of a list node and every
    pointer store of push_* / emplace_* / erase other than those to a log record the operation itself allocated (the
    lazy registration before the mutex is taken, erase's private record).  Ownership is what the trace shows: lock,
    a timed attempt that SUCCEEDED, unlock."""
    STP = K['STORE'] + PTR
    owner = {}          # mutex object -> thread
    cur = {}            # thread -> [opcode, set of record objects allocated in this operation]
    for i, t, k, o, v, m in _events(lines):
        if k == K['INVOKE']:
            cur[t] = [v, set()]
        elif k in (K['RET'], K['CATCH']):
            cur.pop(t, None)
        elif k == K['LOCK'] or (k in (K['TRYLOCK'], K['TRYLOCK_FOR']) and v == 1):
            owner[o] = t
        elif k == K['UNLOCK']:
            if owner.get(o) == t:
                owner.pop(o)
        elif t in cur and cur[t][0] in PUSHES + (ERASE, ERASEF):
            if k == K['ALLOC'] and v == 2:
                cur[t][1].add(o)
            elif (k == K['ALLOC'] and v == 1) or (k == STP and o not in cur[t][1]):
                if t not in owner.values():
                    held = ', '.join('thread %d holds obj%d' % (u, mo) for mo, u in owner.items()) or 'nobody holds it'
                    from events import pretty
                    return ('thread %d executes "%s" (trace line %d) of a mutator without owning the write mutex (%s): writers are '
                            'not serialised (a timed lock attempt that failed must not be treated as a lock)' % (t, pretty([t, k, o, v, m]), i, held))
    return None


def mon_erase_spins(case, lines):
    """C14 (writer progress): erase() never waits for other threads' progress except by blocking on the write mutex: no
    yield / sleep, and no poll of a counter (the list has only pointer atomics; an integral atomic read before the
    mutex is taken is a gate other threads open).  RcuLiveProofs.progress_step / eventually_finishes: in the model every
    step of erase is enabled whenever the write mutex is free or owned."""
    for op in _ops(case, lines):
        if op['op'][0] not in (ERASE, ERASEF):
            continue
        locked = False
        for i, k, o, v, m in op['evs']:
            if k in (K['LOCK'], K['TRYLOCK_FOR']):
                locked = True
            if k in (K['YIELD'], K['SLEEP']):
                return ('thread %d: erase yields / sleeps at trace line %d: it waits for other threads\' progress; in the model every '
                        'step of erase is enabled once the write mutex is free or owned (rcu_progress_step), and every run can be '
                        'completed (rcu_eventually_finishes)' % (op['t'], i))
            if k == K['LOAD'] and not locked:
                return ('thread %d: erase polls the integral atomic obj%d (value %d) at trace line %d before taking the write mutex: '
                        'a gate that only other threads\' progress opens (rcu_list has pointer atomics only; rcu_progress_step / '
                        'rcu_eventually_finishes: erase never waits except on the write mutex)' % (op['t'], o, v, i))
    return None


MONITORS = {'read_spins': mon_read_spins, 'fault': mon_fault, 'ledger': mon_ledger, 'contents': mon_contents, 'traversal': mon_traversal,
            'read_mutex': mon_read_mutex, 'deadlock': mon_deadlock, 'mo_weakened': mon_mo_weakened, 'write_mutex': mon_write_mutex, 'erase_spins': mon_erase_spins}
