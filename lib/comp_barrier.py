"""Barrier: generator and implementation-side monitors (C09)."""
from events import K
import rng as R

NAME = 'barrier'
DRIVER = 'harness/barrier_drv.cpp'
EXTRACT = 'Extract/BarrierExtract.v'
ML = 'barrier_model'
SANITIZE = False
ENUM = True

WAIT, DROP = 0, 1


# ---- the client obligation, decided on the case (mirror of BarrierModel.wf_prog / balanced) ----

def drop_pos(p):
    """1-based position of the first wait_and_drop in a program, None if there is none"""
    for i, o in enumerate(p):
        if o[0] == DROP:
            return i + 1
    return None


def is_wf(case):
    progs = case['progs']
    if not case['cfg'] or case['cfg'][0] != len(progs):
        return False
    for p in progs:
        if any(o[0] not in (WAIT, DROP) for o in p):
            return False
        d = drop_pos(p)
        if d is not None and d != len(p):
            return False
    return True


def is_balanced(case):
    """every participant performs the same number of generations unless it drops out earlier"""
    progs = case['progs']
    full = set(len(p) for p in progs if drop_pos(p) is None)
    if len(full) > 1:
        return False
    k = full.pop() if full else max([len(p) for p in progs] + [0])
    return all(len(p) <= k for p in progs)


# ---- generator ----

HUGE = (65538, 65537, 131074)


def gen(rng, tier, spec):
    if rng.chance(1, 25):
        # huge participant count (does not fit in 16 bits) with only 2-3 threads: far too few arrivals, nobody
        # may ever be released (expected verdict: deadlock with everybody blocked); NOT wf, the count bound of
        # early_return still applies
        nt = rng.range(2, 3)
        progs = [[[WAIT] for _ in range(rng.range(1, 2))] for _ in range(nt)]
        return {'cfg': [rng.pick(list(HUGE))], 'progs': progs, 'sched': R.any_sched(rng, nt, 30, ((14, 0), (2, 1)))}
    nt = rng.weighted([(2, 1), (5, 2), (5, 3), (4, 4)])
    gens = rng.range(1, 3)
    progs = []
    for _ in range(nt):
        if rng.chance(1, 4):
            j = rng.range(1, gens)
            progs.append([[WAIT] for _ in range(j - 1)] + [[DROP]])
        else:
            progs.append([[WAIT] for _ in range(gens)])
    start = nt
    mode = rng.below(20)
    if mode < 2:
        # ~10 %: NOT wf (correspondence only): wrong number of participants, or use after drop
        v = rng.below(4)
        if v == 0:
            start = max(0, nt - rng.range(1, 2))
        elif v == 1:
            start = nt + rng.range(1, 2)
        elif v == 2:
            t = rng.below(nt)
            progs[t] = progs[t][:rng.range(0, len(progs[t]))] + [[DROP]] + [[rng.pick([WAIT, DROP])] for _ in range(rng.range(1, 2))]
        else:
            start = rng.range(0, 1)
            progs = [[[rng.pick([WAIT, DROP])] for _ in range(rng.range(1, 3))] for _ in range(nt)]
    elif mode < 4:
        # ~10 %: wf but unbalanced: one participant stops early / goes on (a legitimate deadlock)
        t = rng.below(nt)
        if rng.chance(1, 2):
            progs[t] = [[WAIT] for _ in range(rng.range(0, max(0, gens - 1)))]
        else:
            progs[t] = [[WAIT] for _ in range(gens + 1)]
    cw = ((14, 0), (2, 1))
    kind = rng.below(6)
    if kind == 4:
        # boundary-aimed: stop a participant right after invoke / lock / cv_sleep / cv_wake / notify, run the others
        sched = R.sched_boundary(rng, nt, rng.below(nt), rng.range(1, 7), rng.range(0, 60), cw)
    elif kind == 5:
        # everybody arrives (2 or 3 steps each: up to the lock or up to the sleep), then a random tail
        order = list(range(nt))
        for i in range(nt - 1, 0, -1):
            j = rng.below(i + 1)
            order[i], order[j] = order[j], order[i]
        sched = []
        for t in order:
            sched += [(t, 0)] * rng.range(1, 3)
        sched += R.any_sched(rng, nt, 60, cw)
    else:
        sched = R.any_sched(rng, nt, 90, cw)
    return {'cfg': [start], 'progs': progs, 'sched': sched}


# ---- monitors (implementation trace only) ----

def _events(lines):
    for i, l in enumerate(lines):
        if len(l) == 5 and l[0] >= 0:
            yield i, l[0], l[1], l[3]


def _verdict(lines):
    v = [l[1] for l in lines if len(l) >= 2 and l[0] == -1]
    return v[0] if v else 3


def _count_bound(case, lines):
    """valid for EVERY client program of Barrier(n): nobody returns before n arrivals have been made; without
    drops every generation consumes exactly n arrivals, so a thread's m-th return needs n*m arrivals"""
    n = case['cfg'][0] if case['cfg'] else 0
    progs = case['progs']
    nodrop = all(drop_pos(p) is None for p in progs)
    total, inv = 0, {}
    for i, t, k, v in _events(lines):
        if k == K['INVOKE']:
            total += 1
            inv[t] = inv.get(t, 0) + 1
        elif k == K['RET']:
            need = n * inv.get(t, 1) if nodrop else n
            if total < need:
                return ('thread %d returned from its wait #%d at trace line %d after %d of %d arrivals'
                        % (t, inv.get(t, 0), i, total, need))
    return None


def mon_rearm_outside_lock(case, lines):
    """trace discipline: threshold_/count_/generation_ are plain fields (invisible to the shim) that may only be
    touched under the barrier mutex; the visible part of the last arriver's bump/re-arm/notify triple is the
    notify_all, which must be issued while the thread holds the mutex (model: barrier_notify_under_mutex)"""
    holds = set()
    for i, t, k, v in _events(lines):
        if k in (K['LOCK'], K['CV_WAKE']):
            holds.add(t)
        elif k in (K['UNLOCK'], K['CV_SLEEP']):
            holds.discard(t)
        elif k == K['NOTIFY_ALL'] and t not in holds:
            return ('thread %d calls notify_all at trace line %d without holding the barrier mutex: the re-arm of the '
                    'generation is not atomic with the release of the waiters' % (t, i))
    return None


def mon_early_return(case, lines):
    """a thread's n-th wait returned before some participant that has not dropped earlier invoked its n-th wait"""
    r = _count_bound(case, lines)
    if r or not is_wf(case):
        return r
    progs = case['progs']
    nt = len(progs)
    inv = [0] * nt
    dpos = [drop_pos(p) for p in progs]
    for i, t, k, v in _events(lines):
        if t >= nt:
            continue
        if k == K['INVOKE']:
            inv[t] += 1
        elif k == K['RET']:
            n = inv[t]
            for u in range(nt):
                if u == t or inv[u] >= n:
                    continue
                if dpos[u] is not None and dpos[u] < n:
                    continue    # u left the barrier in an earlier generation
                return ('thread %d returned from its wait #%d at trace line %d, but participant %d has only made %d arrival(s)'
                        % (t, n, i, u, inv[u]))
    return None


def mon_lost_wakeup(case, lines):
    """deadlock although every participant a blocked thread waits for has arrived; or fuel exhausted"""
    v = _verdict(lines)
    if v == 2:
        return 'the run did not terminate within the fuel bound'
    if v != 1 or not is_wf(case):
        return None
    progs = case['progs']
    nt = len(progs)
    inv, ret = [0] * nt, [0] * nt
    for i, t, k, val in _events(lines):
        if t >= nt:
            continue
        if k == K['INVOKE']:
            inv[t] += 1
        elif k == K['RET']:
            ret[t] += 1
    for t in range(nt):
        if ret[t] == len(progs[t]):
            continue
        n = ret[t] + 1      # t is stuck in (or before) its n-th wait
        # legitimate only if some participant never makes an n-th arrival and never drops: its program ended early
        if not any(drop_pos(progs[u]) is None and len(progs[u]) < n for u in range(nt)):
            return ('deadlock: thread %d is blocked in its wait #%d (made %d invocations) although every participant '
                    'that has not dropped makes an arrival #%d' % (t, n, inv[t], n))
    return None


def mon_final_state(case, lines):
    """after a complete run: threshold = participants that did not drop, count = threshold, generation = rounds"""
    if not is_wf(case) or _verdict(lines) != 0:
        return None
    fin = [l for l in lines if len(l) >= 1 and l[0] == -2]
    if not fin or len(fin[0]) != 4:
        return None if case.get('_nopeek') else 'no final-state line'
    _, th, cnt, gen = fin[0]
    progs = case['progs']
    want_th = sum(1 for p in progs if drop_pos(p) is None)
    want_gen = max([len(p) for p in progs] + [0])
    if (th, cnt, gen) != (want_th, want_th, want_gen):
        return ('final state threshold=%d count=%d generation=%d, expected %d %d %d'
                % (th, cnt, gen, want_th, want_th, want_gen))
    return None


MONITORS = {'early_return': mon_early_return, 'lost_wakeup': mon_lost_wakeup, 'final_state': mon_final_state,
            'rearm_outside_lock': mon_rearm_outside_lock}
