"""deferred_guarded: generator and implementation-side monitors (C06; also used by C02, C07, C15, C20).

cfg = [mutex kind, throwing user-call index...]   (0 shared_timed_mutex, 1 shared_mutex, 2 timed_mutex, 3 mutex)
ops: see harness/deferred_drv.cpp.  Functor ids are unique per case (1..15); the payload value is the base-16
log of the functors applied so far.
"""
from events import K
import rng as R

NAME = 'deferred'
DRIVER = 'harness/deferred_drv.cpp'
EXTRACT = 'Extract/DeferredExtract.v'
ML = 'deferred_model'
SANITIZE = False

(DETACH, ASYNC, LOCK_SH, TRY_SH, TRY_SH_FOR, TRY_SH_UNTIL, READ, BOOL, RELEASE, LOAD, FUT_READY, FUT_GET) = range(12)
SHARED_OPS = (LOCK_SH, TRY_SH, TRY_SH_FOR, TRY_SH_UNTIL)
MAXFID = 15
O_MTX_KINDS_X = (K['LOCK'], K['TRYLOCK'], K['TRYLOCK_FOR'])
O_MTX_KINDS_S = (K['LOCK_SH'], K['TRYLOCK_SH'], K['TRYLOCK_SH_FOR'])


def shcap(cfg):
    return cfg[0] in (0, 1)


def timed(cfg):
    return cfg[0] in (0, 2)


# ----------------------------------------------------------------------------- generator

def gen(rng, tier, spec):
    nt = rng.weighted([(1, 1), (6, 2), (6, 3), (2, 4)])
    mk = rng.weighted([(5, 0), (3, 1), (2, 2), (2, 3)])
    fid = [0]
    progs = []

    def submit(prog, slots):
        if fid[0] >= MAXFID:
            return
        fid[0] += 1
        if rng.chance(1, 2):
            prog.append([DETACH, fid[0]])
        else:
            s = rng.below(2)
            prog.append([ASYNC, fid[0], s])
            slots.add(s)

    def acquire(prog, h):
        kinds = [(4, LOCK_SH), (3, TRY_SH)]
        if mk in (0, 2) or rng.chance(1, 10):
            kinds += [(2, TRY_SH_FOR), (1, TRY_SH_UNTIL)]
        prog.append([rng.weighted(kinds), h])

    for t in range(nt):
        prog, slots = [], set()
        role = rng.weighted([(4, 'submit'), (4, 'reader'), (3, 'mix'), (1, 'edge')])
        n = rng.range(1, 4)
        for _ in range(n):
            if role == 'submit' or (role == 'mix' and rng.chance(1, 2)):
                submit(prog, slots)
                if slots and rng.chance(1, 3):
                    prog.append([rng.pick([FUT_READY, FUT_GET]), rng.pick(sorted(slots))])
            elif role == 'edge':
                prog.append(rng.pick([[READ, rng.below(2)], [BOOL, rng.below(2)], [RELEASE, rng.below(2)], [FUT_GET, rng.below(2)],
                                      [FUT_READY, rng.below(2)], [TRY_SH_FOR, rng.below(2)], [LOCK_SH, 0], [TRY_SH, 0], [LOAD]]))
            else:
                if rng.chance(1, 4):
                    prog.append([LOAD])
                    continue
                h = rng.below(2)
                acquire(prog, h)
                for _ in range(rng.below(3)):
                    k = rng.below(6)
                    if k == 0:
                        prog.append([BOOL, h])
                    elif k == 1 and (mk in (0, 1) or rng.chance(1, 8)):
                        submit(prog, slots)          # submitted under the thread's own handle: always queued
                    elif k == 2 and mk in (0, 1) and rng.chance(1, 3):
                        acquire(prog, 1 - h)         # a second shared handle of the same thread
                        prog.append([RELEASE, 1 - h])
                    else:
                        prog.append([READ, h])
                if not rng.chance(1, 12):
                    prog.append([RELEASE, h])
        # settle: collect the futures, then accesses made with no handle held
        if rng.chance(3, 4):
            for s in sorted(slots):
                if rng.chance(2, 3):
                    prog.append([FUT_GET, s])
        progs.append(prog)
    if rng.chance(2, 3):
        t = rng.below(nt)
        for _ in range(rng.range(1, 3)):
            k = rng.below(3)
            if k == 0:
                progs[t].append([LOAD])
            elif k == 1:
                progs[t] += [[LOCK_SH, 7], [READ, 7], [RELEASE, 7]]
            elif fid[0] < MAXFID:
                fid[0] += 1
                progs[t].append([DETACH, fid[0]])
        for s in (0, 1):
            if rng.chance(1, 2):
                progs[t].append([FUT_GET, s])
    # throw plan: indices of user-code invocations (at most one per submitted functor)
    thr = []
    if fid[0] and rng.chance(1, 3):
        for _ in range(rng.range(1, 2)):
            k = rng.below(fid[0])
            if k not in thr:
                thr.append(k)
    cw = ((14, 0), (2, 2))
    kind = rng.below(6)
    if kind == 5:
        # boundary-aimed: stop one thread inside its first call (between try-lock, push, flag store, clear, swap, run)
        sched = R.sched_boundary(rng, nt, rng.below(nt), rng.range(1, 14), rng.range(0, 90), cw)
    elif kind == 4:
        # two threads stopped inside their calls, then the rest
        a, b = rng.below(nt), rng.below(nt)
        sched = [(a, 0)] * rng.range(1, 9) + [(b, 0)] * rng.range(1, 12) + R.sched_random(rng, nt, rng.range(0, 80), cw)
    else:
        sched = R.any_sched(rng, nt, 140, cw)
    return {'cfg': [mk] + sorted(thr), 'progs': progs, 'sched': sched}


MONITORS = {}
