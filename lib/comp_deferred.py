"""deferred_guarded: generator and implementation-side monitors (C06; also used by C02, C07, C15, C20).

cfg = [mutex kind, throwing user-call index...]   (0 shared_timed_mutex, 1 shared_mutex, 2 timed_mutex, 3 mutex)
ops: see harness/deferred_drv.cpp.  Functor ids are unique per case (1..15); the payload value is the base-16
log of the functors applied so far.
"""
from events import K
import rng as R

NAME = 'deferred'
DRIVER = 'harness/deferred_drv.cpp'
EXTRACT = 'Extract/DeferredExtract.v'
ML = 'deferred_model'
SANITIZE = False
ENUM = True

(DETACH, ASYNC, LOCK_SH, TRY_SH, TRY_SH_FOR, TRY_SH_UNTIL, READ, BOOL, RELEASE, LOAD, FUT_READY, FUT_GET) = range(12)
SHARED_OPS = (LOCK_SH, TRY_SH, TRY_SH_FOR, TRY_SH_UNTIL)
MAXFID = 15
O_MTX_KINDS_X = (K['LOCK'], K['TRYLOCK'], K['TRYLOCK_FOR'])
O_MTX_KINDS_S = (K['LOCK_SH'], K['TRYLOCK_SH'], K['TRYLOCK_SH_FOR'])


def shcap(cfg):
    return cfg[0] in (0, 1)


def apply_f(fid, v):
    """the harness functor (harness/deferred_drv.cpp)"""
    return v * 16 + fid if fid < 100 else fid


def timed(cfg):
    return cfg[0] in (0, 2)


# ----------------------------------------------------------------------------- generator

BURST_SIZES = (31, 32, 33, 63, 64, 65, 127, 128, 129, 200, 257)


def gen_burst(rng, n=None, mk=None):
    """size-boundary family: a reader keeps a handle while one or two submitters queue a burst of n modifications
    (functor ids >= 100: the payload is the last functor applied); the reader releases, and then accesses made
    with nothing held must find every accepted modification applied"""
    if n is None:
        n = rng.weighted([(3, 31), (3, 32), (3, 33), (4, 63), (4, 64), (6, 65), (2, 127), (2, 128), (3, 129), (1, 200), (1, 257)])
    if mk is None:
        mk = rng.weighted([(5, 0), (3, 1), (1, 2), (1, 3)])
    nsub = rng.range(1, 2)
    subs = [[] for _ in range(nsub)]
    steps = []
    for i in range(n):
        u = rng.below(nsub)
        if rng.chance(3, 4):
            subs[u].append([DETACH, 100 + i])
            steps += [(1 + u, 0)] * 5
        else:
            subs[u].append([ASYNC, 100 + i, rng.below(2)])
            steps += [(1 + u, 0)] * 7
    reader = [[LOCK_SH, 0], [RELEASE, 0]]
    tail = rng.below(3)
    if tail == 0:
        reader += [[LOCK_SH, 1], [READ, 1], [RELEASE, 1], [LOAD]]
    elif tail == 1:
        reader += [[LOAD], [TRY_SH, 1], [READ, 1], [RELEASE, 1]]
    else:
        reader += [[TRY_SH, 1], [READ, 1], [RELEASE, 1], [LOAD]]
    for u in range(nsub):
        if rng.chance(1, 2):
            subs[u].append([FUT_GET, rng.below(2)])
    sched = [(0, 0)] * 3 + steps + [(0, 0)] * (2 + 7 * n + 30)
    return {'cfg': [mk], 'progs': [reader] + subs, 'sched': sched}


def gen_two_submitters(rng):
    """boundary-aimed: two submitters queue behind a reader's handle, the first one pre-empted somewhere inside its
    call (before / after its push, before its flag store); the reader releases and a direct modification or an
    access follows before the first submitter goes on"""
    mk = rng.weighted([(5, 0), (3, 1), (1, 2), (1, 3)])

    def sub(f):
        return [DETACH, f] if rng.chance(2, 3) else [ASYNC, f, 0]
    p0 = [[LOCK_SH, 0], [RELEASE, 0]] + ([[LOAD]] if rng.chance(1, 2) else [])
    p1 = [sub(1)] + ([[LOAD]] if rng.chance(1, 2) else [[FUT_GET, 0]])
    p2 = [sub(2), rng.pick([[DETACH, 3], [LOAD], [ASYNC, 3, 1], [LOCK_SH, 1]])] + ([[LOAD]] if rng.chance(1, 2) else [])
    cw = ((14, 0), (2, 2))
    sched = [(0, 0)] * 3 + [(1, 0)] * rng.range(2, 7) + [(2, 0)] * rng.range(4, 8) + [(0, 0)] * 2 + [(2, 0)] * rng.range(2, 12)
    sched += R.sched_random(rng, 3, rng.range(0, 60), cw)
    return {'cfg': [mk], 'progs': [p0, p1, p2], 'sched': sched}


def gen(rng, tier, spec):
    if tier != 'small' and rng.chance(1, 60):
        return gen_burst(rng)
    if tier != 'small' and rng.chance(1, 20):
        return gen_two_submitters(rng)
    nt = rng.weighted([(1, 1), (6, 2), (6, 3), (2, 4)])
    mk = rng.weighted([(5, 0), (3, 1), (2, 2), (2, 3)])
    fid = [0]
    progs = []

    def submit(prog, slots):
        if fid[0] >= MAXFID:
            return
        fid[0] += 1
        if rng.chance(1, 2):
            prog.append([DETACH, fid[0]])
        else:
            s = rng.below(2) + rng.weighted([(4, 0), (2, 100), (1, 200)])   # slots 100..: void functor; 200..: reference-returning functor
            prog.append([ASYNC, fid[0], s])
            slots.add(s)

    def acquire(prog, h):
        kinds = [(4, LOCK_SH), (3, TRY_SH)]
        if mk in (0, 2) or rng.chance(1, 10):
            kinds += [(2, TRY_SH_FOR), (1, TRY_SH_UNTIL)]
        k = rng.weighted(kinds)
        # timed forms: sometimes a zero / negative duration, or a deadline in the past (third argument, ignored by the model)
        prog.append([k, h] + ([rng.range(1, 2)] if k in (TRY_SH_FOR, TRY_SH_UNTIL) and rng.chance(1, 2) else []))

    for t in range(nt):
        prog, slots = [], set()
        role = rng.weighted([(4, 'submit'), (4, 'reader'), (3, 'mix'), (1, 'edge')])
        n = rng.range(1, 4)
        for _ in range(n):
            if role == 'submit' or (role == 'mix' and rng.chance(1, 2)):
                submit(prog, slots)
                if slots and rng.chance(1, 3):
                    prog.append([rng.pick([FUT_READY, FUT_GET]), rng.pick(sorted(slots))])
            elif role == 'edge':
                prog.append(rng.pick([[READ, rng.below(2)], [BOOL, rng.below(2)], [RELEASE, rng.below(2)], [FUT_GET, rng.below(2)],
                                      [FUT_READY, rng.below(2)], [TRY_SH_FOR, rng.below(2)], [LOCK_SH, 0], [TRY_SH, 0], [LOAD]]))
            else:
                if rng.chance(1, 4):
                    prog.append([LOAD])
                    continue
                h = rng.below(2)
                acquire(prog, h)
                for _ in range(rng.below(3)):
                    k = rng.below(6)
                    if k == 0:
                        prog.append([BOOL, h])
                    elif k == 1 and (mk in (0, 1) or rng.chance(1, 8)):
                        submit(prog, slots)          # submitted under the thread's own handle: always queued
                    elif k == 2 and mk in (0, 1) and rng.chance(1, 3):
                        acquire(prog, 1 - h)         # a second shared handle of the same thread
                        prog.append([RELEASE, 1 - h])
                    else:
                        prog.append([READ, h])
                if not rng.chance(1, 12):
                    prog.append([RELEASE, h])
        # settle: collect the futures, then accesses made with no handle held
        if rng.chance(3, 4):
            for s in sorted(slots):
                if rng.chance(2, 3):
                    prog.append([FUT_GET, s])
        progs.append(prog)
    if rng.chance(2, 3):
        t = rng.below(nt)
        for _ in range(rng.range(1, 3)):
            k = rng.below(3)
            if k == 0:
                progs[t].append([LOAD])
            elif k == 1:
                acq = [LOCK_SH, 7] if mk not in (0, 2) or rng.chance(1, 2) else [rng.pick([TRY_SH_FOR, TRY_SH_UNTIL]), 7, rng.range(1, 2)]
                progs[t] += [acq, [READ, 7], [RELEASE, 7]]
            elif fid[0] < MAXFID:
                fid[0] += 1
                progs[t].append([DETACH, fid[0]])
        for s in (0, 1, 100, 101, 200, 201):
            if rng.chance(1, 2 if s < 100 else 4):
                progs[t].append([FUT_GET, s])
    # throw plan: indices of user-code invocations (at most one per submitted functor)
    thr = []
    if fid[0] and rng.chance(1, 3):
        for _ in range(rng.range(1, 2)):
            k = rng.below(fid[0])
            if k not in thr:
                thr.append(k)
    cw = ((14, 0), (2, 2))
    kind = rng.below(6)
    if kind == 5:
        # boundary-aimed: stop one thread inside its first call (between try-lock, push, flag store, clear, swap, run)
        sched = R.sched_boundary(rng, nt, rng.below(nt), rng.range(1, 14), rng.range(0, 90), cw)
    elif kind == 4:
        # two threads stopped inside their calls, then the rest
        a, b = rng.below(nt), rng.below(nt)
        sched = [(a, 0)] * rng.range(1, 9) + [(b, 0)] * rng.range(1, 12) + R.sched_random(rng, nt, rng.range(0, 80), cw)
    else:
        sched = R.any_sched(rng, nt, 140, cw)
    return {'cfg': [mk] + sorted(thr), 'progs': progs, 'sched': sched}


# ----------------------------------------------------------------------------- trace analysis (implementation side)

SUBMIT = (DETACH, ASYNC)
ACCESS = (DETACH, ASYNC, LOCK_SH, TRY_SH, TRY_SH_FOR, TRY_SH_UNTIL, LOAD)
K_X_ACQ = (K['TRYLOCK'], K['TRYLOCK_FOR'], K['LOCK'])
K_S_ACQ = (K['LOCK_SH'], K['TRYLOCK_SH'], K['TRYLOCK_SH_FOR'])
K_TRYISH = (K['TRYLOCK'], K['TRYLOCK_FOR'], K['TRYLOCK_SH'], K['TRYLOCK_SH_FOR'])


class Walk:
    """One pass over an implementation trace: who owns the outer mutex, which functor runs, which op each event belongs to."""

    def __init__(self, case, lines):
        self.case = case
        self.ev = [l for l in lines if len(l) == 5 and l[0] >= 0]
        self.pos = [n for n, l in enumerate(lines) if len(l) == 5 and l[0] >= 0]
        self.verdict = next((l[1] for l in lines if len(l) >= 2 and l[0] == -1), 3)
        self.final = next((l[1:] for l in lines if len(l) >= 2 and l[0] == -2), None)
        self.outer = None
        for t, k, o, v, m in self.ev:
            if k in (K['TRYLOCK'], K['TRYLOCK_FOR']) + K_S_ACQ:
                self.outer = o
                break
        if self.outer is None:
            for t, k, o, v, m in self.ev:
                if k == K['LOCK']:
                    self.outer = o
                    break
        self.problems = []      # (monitor name, text)
        self.run()

    def bad(self, name, text):
        self.problems.append((name, text))

    def run(self):
        case, nt = self.case, len(self.case['progs'])
        cap = shcap(case['cfg'])
        owner, sharers = None, [0] * nt
        opidx, cur_op, op_start = [-1] * nt, [None] * nt, [None] * nt
        held = [0] * nt                 # owning client handles per thread
        running = [None] * nt           # fid whose body the thread is in
        slots = [dict() for _ in range(nt)]
        inv, ret, call, wend, threw = {}, {}, {}, {}, set()
        calls = {}
        pay = 0
        last_other = [None] * nt
        cand = [None] * nt              # candidate settling access of each thread (see mon_stranded)
        acq_pos = [None] * nt           # position of the thread's latest acquisition of the outer mutex still held
        lcand = [None] * nt             # a load() invoked with nothing held and nobody in flight, undisturbed so far
        mcand = [None] * nt             # the same for a modify_detach / modify_async call
        for i, (t, k, o, v, m) in zip(self.pos, self.ev):
            # a candidate access of another thread is spoiled by any event of this thread
            for u in range(nt):
                if u != t and cand[u] is not None:
                    cand[u] = None
                if u != t:
                    lcand[u] = None
                    mcand[u] = None
            if k == K['INVOKE']:
                opidx[t] += 1
                prog = case['progs'][t]
                cur_op[t] = prog[opidx[t]] if opidx[t] < len(prog) else None
                op_start[t] = i
                op = cur_op[t]
                if op is None or op[0] != v:
                    self.bad('trace', 'invoke %d of thread %d does not match the program' % (v, t))
                    continue
                if op[0] in SUBMIT:
                    inv[op[1]] = i
                if op[0] in ACCESS:
                    quiet = all(cur_op[u] is None for u in range(nt) if u != t) and all(h == 0 for h in held)
                    if quiet:
                        cand[t] = {'t': t, 'i': i, 'op': op, 'submitted': set(inv) - ({op[1]} if op[0] in SUBMIT else set())}
                        if op[0] == LOAD:
                            lcand[t] = {'i': i, 'submitted': set(inv)}
                        if op[0] in SUBMIT:
                            mcand[t] = {'i': i, 'submitted': set(inv)}
                continue
            op = cur_op[t]
            if k in (K['RET'], K['CATCH']):
                if op is not None:
                    if op[0] in SUBMIT and mcand[t] is not None:
                        missing = sorted(f for f in mcand[t]['submitted'] if f not in call)
                        if missing:
                            self.bad('modify_strands', 'modify call of thread %d (functor %d, invoked at line %d with no handle held and no other '
                                     'operation in flight, and run alone) returned at line %d without having applied %s' % (
                                         t, op[1], mcand[t]['i'], i,
                                         'its own function' if missing == [op[1]] else 'the modification(s) %s accepted before it%s' % (
                                             [f for f in missing if f != op[1]], ' and its own function' if op[1] in missing else '')))
                        mcand[t] = None
                    if op[0] in SUBMIT:
                        ret[op[1]] = i
                        if k == K['CATCH'] and not (op[0] == DETACH and op[1] in threw and call.get(op[1], -1) > op_start[t]):
                            self.bad('exn', 'op %s of thread %d ended with an exception at line %d%s' % (
                                op, t, i, ': modify_async itself threw - an exception of the modification function belongs into the '
                                          'returned future, nothing else may escape' if op[0] == ASYNC else ''))
                        if k == K['RET'] and op[0] == DETACH and op[1] in threw and call.get(op[1], -1) > op_start[t] and calls_by.get(op[1]) == t:
                            self.bad('exn', 'modify_detach(%d) swallowed the exception of its functor on the direct path (line %d)' % (op[1], i))
                        if op[0] == ASYNC:
                            slots[t][op[2]] = op[1]
                    elif k == K['CATCH']:
                        self.bad('exn', 'op %s of thread %d ended with an exception at line %d' % (op, t, i))
                    if op[0] in SHARED_OPS and k == K['RET'] and v == 1:
                        held[t] += 1
                        if cand[t] is not None and acq_pos[t] is not None:
                            self.grant(cand[t], acq_pos[t], call, final=True)
                    if op[0] == FUT_READY and op[1] in slots[t]:
                        f = slots[t][op[1]]
                        done = (f in wend and wend[f][0] < op_start[t]) or (f in threw and call[f] < op_start[t])
                        if v == 0 and done:
                            self.bad('future', 'future of functor %d not ready at line %d although the functor had finished' % (f, i))
                        if v == 1 and not (f in wend or f in threw):
                            self.bad('future', 'future of functor %d ready at line %d before the functor ran' % (f, i))
                    if op[0] == FUT_GET and op[1] in slots[t]:
                        f = slots[t][op[1]]
                        done = (f in wend and wend[f][0] < op_start[t]) or (f in threw and call[f] < op_start[t])
                        if v == -2:
                            if done:
                                self.bad('future', 'future of functor %d not ready at line %d although the functor had finished' % (f, i))
                        else:
                            del slots[t][op[1]]
                            if v == -4:
                                self.bad('future', 'future of functor %d holds a foreign exception (broken promise) at line %d' % (f, i))
                            elif v == -3:
                                if f not in threw:
                                    self.bad('future', 'future of functor %d reports an exception the functor did not throw (line %d)' % (f, i))
                            elif f in threw or f not in wend or (0 if op[1] >= 100 else wend[f][1]) != v:
                                self.bad('future', 'future of functor %d returned %d at line %d, the functor produced %s' % (f, v, i, wend.get(f)))
                    if op[0] == LOAD and k == K['RET'] and v != last_read[t]:
                        self.bad('payload', 'load of thread %d returned %d at line %d but read %s' % (t, v, i, last_read[t]))
                    if op[0] == LOAD and k == K['RET'] and lcand[t] is not None:
                        missing = sorted(f for f in lcand[t]['submitted'] if f not in call)
                        if missing:
                            self.bad('load_stale', 'load() of thread %d (invoked at line %d with no handle held and no other operation in flight, '
                                     'and run alone) returned %d at line %d without the modification(s) %s, whose submit calls had returned before'
                                     % (t, lcand[t]['i'], v, i, missing))
                        lcand[t] = None
                # at top level a thread owns the outer mutex only through a client handle on a plain mutex
                if owner == t and not (not cap and held[t] > 0):
                    self.bad('lock_leaked', 'thread %d is back at top level at line %d and still owns the outer mutex' % (t, i))
                cur_op[t] = None
                if cand[t] is not None:
                    cand[t] = None
                continue
            if o == self.outer and self.outer is not None:
                if k in K_X_ACQ and (k == K['LOCK'] or v == 1):
                    if owner is not None or sum(sharers) > 0:
                        self.bad('mutex', 'exclusive acquisition by thread %d at line %d while the mutex is held' % (t, i))
                    if any(r is not None for r in running):
                        self.bad('exclusive', 'thread %d acquired the outer mutex at line %d while a functor is running' % (t, i))
                    owner = t
                    acq_pos[t] = i
                elif k in K_S_ACQ and (k == K['LOCK_SH'] or v == 1):
                    if owner is not None:
                        self.bad('mutex', 'shared acquisition by thread %d at line %d while the mutex is owned exclusively' % (t, i))
                    if any(r is not None for r in running):
                        self.bad('exclusive', 'thread %d acquired a shared lock at line %d while a functor is running' % (t, i))
                    sharers[t] += 1
                    acq_pos[t] = i
                elif k == K['UNLOCK']:
                    owner = None
                    acq_pos[t] = None
                    if op is not None and op[0] == RELEASE:
                        held[t] -= 1
                elif k == K['UNLOCK_SH']:
                    sharers[t] -= 1
                    acq_pos[t] = None
                    if op is not None and op[0] == RELEASE:
                        held[t] -= 1
                if k in K_TRYISH and v == 0 and cand[t] is not None and op is not None and k == K['TRYLOCK'] and op[0] in SUBMIT + SHARED_OPS + (LOAD,):
                    # nothing is held and nobody else is active, yet a try-lock of the outer mutex failed
                    self.bad('stranded', 'try-lock of thread %d failed at line %d although no lock was held and no call was in progress' % (t, i))
                    cand[t] = None
            if k == K['CALL']:
                f = v
                if f in call:
                    self.bad('twice', 'functor %d invoked a second time at line %d (first: line %d)' % (f, i, call[f]))
                call[f] = i
                calls_by[f] = t
                running[t] = f
                if owner != t or sum(sharers) > 0:
                    self.bad('exclusive', 'functor %d invoked by thread %d at line %d without exclusive ownership of the outer mutex (owner %s, %d shared holds)'
                             % (f, t, i, owner, sum(sharers)))
                if any(r is not None for u, r in enumerate(running) if u != t):
                    self.bad('exclusive', 'functor %d invoked at line %d while another functor is running' % (f, i))
                if f not in inv:
                    self.bad('trace', 'functor %d invoked at line %d but never submitted' % (f, i))
                if cand[t] is not None and cand[t]['op'][0] in SUBMIT and cand[t]['op'][1] == f:
                    self.grant(cand[t], i, call, final=True)
                    cand[t] = None
            elif k == K['THROW']:
                threw.add(running[t])
                running[t] = None
            elif k == K['WR_END']:
                f = running[t]
                if f is None:
                    self.bad('payload', 'payload written outside a functor at line %d' % i)
                else:
                    if v != apply_f(f, pay):
                        self.bad('payload', 'functor %d wrote %d at line %d, expected %d (payload %d)' % (f, v, i, apply_f(f, pay), pay))
                    wend[f] = (i, v)
                    running[t] = None
                pay = v
            elif k == K['RD_BEGIN'] and op is not None and op[0] == LOAD and running[t] is None and cand[t] is not None and acq_pos[t] is not None:
                self.grant(cand[t], acq_pos[t], call, final=True)
                cand[t] = None
            elif k == K['RD_END']:
                last_read[t] = v
                if v != pay:
                    self.bad('payload', 'thread %d read %d at line %d, the payload is %d' % (t, v, i, pay))
            elif k == K['FAULT']:
                if v == 9:
                    self.bad('fault', 'thread %d list-initialised a payload from a payload at line %d (fault code 9): the copy is a one-element wrapper, not the stored value' % (t, i))
                else:
                    self.bad('fault', 'overlapping payload windows: fault code %d by thread %d at line %d' % (v, t, i))
        self.inv, self.ret, self.call, self.threw, self.wend, self.pay, self.held = inv, ret, call, threw, wend, pay, held

    def grant(self, c, j, call, final):
        missing = sorted(f for f in c['submitted'] if f not in call or call[f] > j)
        if missing:
            self.bad('stranded', 'access granted to thread %d at line %d (call began at line %d with no call in progress and no handle held) '
                                 'but submitted functor(s) %s had not been applied' % (c['t'], j, c['i'], missing))


calls_by = {}
last_read = {}


def _walk(case, lines):
    key = id(lines)
    if _walk.cache[0] != key:
        calls_by.clear()
        last_read.clear()
        for t in range(len(case['progs'])):
            last_read[t] = None
        _walk.cache = (key, Walk(case, lines))
    return _walk.cache[1]


_walk.cache = (None, None)


def _first(w, name):
    for n, text in w.problems:
        if n == name:
            return text
    return None


def mon_fault(case, lines):
    """a VPay window overlap (K_FAULT)"""
    return _first(_walk(case, lines), 'fault')


def mon_twice(case, lines):
    """a functor invoked twice"""
    return _first(_walk(case, lines), 'twice')


def mon_exclusive(case, lines):
    """a functor invoked without exclusive ownership, concurrently with another one, or a lock granted while one runs"""
    return _first(_walk(case, lines), 'exclusive')


def mon_order(case, lines):
    """f's submit call returned before g's began, but g was applied and f was not applied before it"""
    w = _walk(case, lines)
    for f, r in w.ret.items():
        for g, i in w.inv.items():
            if r < i and g in w.call and (f not in w.call or w.call[f] > w.call[g]):
                return ('functor %d (submit returned at line %d) was not applied before functor %d (submit began at line %d, applied at line %d)'
                        % (f, r, g, i, w.call[g]))
    return None


def mon_stranded(case, lines):
    """an access made with no call in progress and no handle held did not apply every submitted functor first"""
    return _first(_walk(case, lines), 'stranded')


def mon_lost(case, lines):
    """finished run: submitted = applied + still queued; a non-empty queue is announced by the flag; nothing is left locked"""
    w = _walk(case, lines)
    if w.verdict != 0 or w.final is None:
        return None
    pay, flag, qlen, free, nsh = w.final
    sub, done = set(w.inv), set(w.call)
    if len(sub) - len(done & sub) != qlen:
        return 'finished run: %d functors submitted, %d applied, but %d left in the queue (lost: %s)' % (len(sub), len(done), qlen, sorted(sub - done))
    if qlen > 0 and flag != 1:
        return 'finished run: %d functors are queued but the pending flag is down' % qlen
    if pay != w.pay:
        return 'final payload %d differs from the last value written %d' % (pay, w.pay)
    digits = []
    x = pay
    while x > 0:
        digits.append(x % 16)
        x //= 16
    if any(f >= 100 for f in sub):
        pass        # burst functors overwrite the payload: `pay == last value written` (above) is the check
    elif sorted(digits) != sorted(f for f in done if f not in w.threw):
        return 'final payload log %s is not the set of functors applied without exception %s' % (digits[::-1], sorted(f for f in done if f not in w.threw))
    alive = sum(w.held)
    if (free != 1 or nsh != 0) and alive == 0:
        return 'finished run with no client handle alive, but the outer mutex is still held (free=%d, sharers=%d)' % (free, nsh)
    return None


def mon_payload(case, lines):
    """every functor writes 16 * current + fid, every reader sees the current value, load returns what it read"""
    return _first(_walk(case, lines), 'payload')


def mon_future(case, lines):
    """future ready / get results against what the functor did"""
    return _first(_walk(case, lines), 'future')


def mon_exn(case, lines):
    """an exception reaches the caller exactly for a direct-path modify_detach whose functor threw"""
    return _first(_walk(case, lines), 'exn')


def mon_lock_leaked(case, lines):
    """a thread back at top level still owns the outer mutex (other than through a handle on a plain mutex)"""
    return _first(_walk(case, lines), 'lock_leaked')


def mon_deadlock(case, lines):
    """deadlock is legitimate only behind a live client handle on a plain mutex"""
    w = _walk(case, lines)
    if w.verdict == 2:
        return 'the run did not terminate within the fuel bound'
    if w.verdict == 1 and (shcap(case['cfg']) or sum(w.held) == 0):
        return 'deadlock although %s' % ('the mutex is shared-capable' if shcap(case['cfg']) else 'no client handle is alive')
    return None


def mon_seq_cst(case, lines):
    """every atomic operation carries memory_order_seq_cst"""
    for l in lines:
        if len(l) == 5 and l[0] >= 0 and 2 <= l[1] <= 7 and l[4] != 5:
            return 'atomic operation with memory order %d: %s' % (l[4], l)
    return None


def mon_trace(case, lines):
    w = _walk(case, lines)
    return _first(w, 'trace') or _first(w, 'mutex')


def mon_try_blocks(case, lines):
    """C08: try_lock_shared / try_lock_shared_for / _until and modify_detach / modify_async never wait for other
    holders: inside such a call no *blocking* acquisition of the outer mutex may appear"""
    outer = set()
    for l in lines:
        if len(l) == 5 and l[0] >= 0 and l[1] in (K['TRYLOCK'], K['TRYLOCK_FOR'], K['TRYLOCK_SH'], K['TRYLOCK_SH_FOR'], K['LOCK_SH']):
            outer.add(l[2])
    cur = {}
    for i, l in enumerate(lines):
        if len(l) != 5 or l[0] < 0:
            continue
        t, k, o, v, m = l
        if k == K['INVOKE']:
            cur[t] = v
        elif k in (K['RET'], K['CATCH']):
            cur.pop(t, None)
        elif k in (K['LOCK'], K['LOCK_SH']) and o in outer and cur.get(t) in (TRY_SH, TRY_SH_FOR, TRY_SH_UNTIL, DETACH, ASYNC):
            return 'thread %d: blocking acquisition of the wrapper mutex (trace line %d) inside the non-blocking operation %d' % (t, i, cur[t])
    return None


def mon_try_null_iff(case, lines):
    """C08: a try / timed shared acquisition returns a null handle only if the lock was not obtainable: a failed
    shared try while no OTHER thread holds the wrapper mutex exclusively (e.g. blocked by the caller's own flush
    lock) is a violation.  Shared-capable mutex kinds only; ownership is tracked from the trace."""
    if not shcap(case['cfg']):
        return None
    outer = set()
    for l in lines:
        if len(l) == 5 and l[0] >= 0 and l[1] in (K['TRYLOCK_SH'], K['TRYLOCK_SH_FOR'], K['LOCK_SH']):
            outer.add(l[2])
    owner = {}
    for i, l in enumerate(lines):
        if len(l) != 5 or l[0] < 0 or l[2] not in outer:
            continue
        t, k, o, v, m = l
        if k in (K['LOCK'],) or (k in (K['TRYLOCK'], K['TRYLOCK_FOR']) and v == 1):
            owner[o] = t
        elif k == K['UNLOCK'] and owner.get(o) == t:
            owner.pop(o, None)
        elif k in (K['TRYLOCK_SH'], K['TRYLOCK_SH_FOR']) and v == 0:
            if owner.get(o) is None or owner.get(o) == t:
                return ('thread %d: shared try-acquisition failed at trace line %d although no other thread held the mutex '
                        'exclusively (holder: %s): a null handle for an obtainable lock' % (t, i, owner.get(o)))
    return None


def mon_reader_refused_by_reader(case, lines):
    """C02: readers never exclude one another.  The only exclusive acquisition a reader entry (lock_shared,
    try_lock_shared*, load) may attempt is the drain try-lock made right after it read the pending flag as true.
    An exclusive try-lock of the wrapper mutex in a reader entry whose flag read was not `true` is a violation;
    when another reader's shared try-acquisition is refused inside such a window, that refusal is reported."""
    cap = shcap(case['cfg'])
    outer = None
    for l in lines:
        if len(l) == 5 and l[0] >= 0 and l[1] in (K['TRYLOCK'], K['TRYLOCK_FOR']) + K_S_ACQ:
            outer = l[2]
            break
    if outer is None:
        return None
    readers = SHARED_OPS + (LOAD,)
    # pass 1: the exclusive try-locks made inside reader entries, with the thread's previous event in that call
    cur, prev, per_op, bogus = {}, {}, {}, set()
    for i, l in enumerate(lines):
        if len(l) != 5 or l[0] < 0:
            continue
        t, k, o, v, m = l
        if k == K['INVOKE']:
            cur[t], prev[t], per_op[t] = v, None, []
            continue
        if k in (K['RET'], K['CATCH']):
            tl = per_op.pop(t, [])
            if not cap and cur.get(t) == TRY_SH and tl:
                tl = tl[:-1]          # plain mutex: the last try-lock of try_lock_shared is the handle acquisition itself
            bogus.update(i2 for i2, ok in tl if not ok)
            cur.pop(t, None)
            continue
        if k == K['TRYLOCK'] and o == outer and cur.get(t) in readers:
            pk = prev.get(t)
            per_op[t].append((i, pk is not None and pk[0] == K['LOAD'] and pk[1] == 1))
        prev[t] = (k, v)
    for t, tl in per_op.items():      # calls still in progress at the end of the trace
        bogus.update(i2 for i2, ok in tl if not ok)
    if not bogus:
        return None
    # pass 2: is a shared try-acquisition of another thread refused while such a try-lock is held?
    holder, cur = None, {}
    for i, l in enumerate(lines):
        if len(l) != 5 or l[0] < 0:
            continue
        t, k, o, v, m = l
        if k == K['INVOKE']:
            cur[t] = v
        if o != outer:
            continue
        if i in bogus and v == 1:
            holder = (t, i)
        elif k == K['UNLOCK'] and holder is not None and holder[0] == t:
            holder = None
        elif holder is not None and holder[0] != t and v == 0 and cur.get(t) in (TRY_SH, TRY_SH_FOR, TRY_SH_UNTIL) and \
                (k in (K['TRYLOCK_SH'], K['TRYLOCK_SH_FOR']) or (not cap and k in (K['TRYLOCK'], K['TRYLOCK_FOR']) and i not in bogus)):
            return ('thread %d: shared try-acquisition refused (null handle) at trace line %d although no writer exists: the mutex '
                    'was held exclusively only by reader thread %d, which took the exclusive try-lock on entry (line %d) '
                    'without having read the pending flag as true' % (t, i, holder[0], holder[1]))
    i = min(bogus)
    return ('thread %d: exclusive try-lock of the wrapper mutex in a reader entry at trace line %d although the pending flag '
            'was not read as true: entering readers exclude one another' % (lines[i][0], i))


def mon_functor_under_list_lock(case, lines):
    """C06: queued functors run after the pending list has been swapped out, never under the list's own mutex
    (a functor that submits a modification - to its own object or to another one - would otherwise wait for a
    list lock held by a drainer: self-deadlock, or a lock-order cycle between two objects).  A list mutex is
    recognised by its use in a push: `lock x; unlock x; store flag=1` by one thread."""
    last = {}                           # per thread: the last three events
    lists = set()
    for l in lines:
        if len(l) != 5 or l[0] < 0:
            continue
        t, k, o, v, m = l
        h = last.setdefault(t, [])
        if k == K['STORE'] and v == 1 and len(h) >= 2 and h[-1][1] == K['UNLOCK'] and h[-2][1] == K['LOCK'] and h[-1][2] == h[-2][2]:
            lists.add(h[-1][2])
        h.append(l)
        del h[:-3]
    holder = {}
    for i, l in enumerate(lines):
        if len(l) != 5 or l[0] < 0:
            continue
        t, k, o, v, m = l
        if o in lists:
            if k == K['LOCK']:
                holder[o] = t
            elif k == K['UNLOCK'] and holder.get(o) == t:
                del holder[o]
        elif k == K['CALL']:
            mine = [x for x, u in holder.items() if u == t]
            if mine:
                return ('functor %d invoked by thread %d at trace line %d while that thread holds the mutex of a pending list '
                        '(object %d): user code runs under the list lock' % (v, t, i, mine[0]))
    return None


def mon_load_stale(case, lines):
    """C15: load() is an atomic read of the register whose value includes every accepted modification: a load()
    invoked while no handle is held and no other operation is in flight, and run alone, must apply every
    modification whose submit call returned before (def_next_access_drains for the op LoadOp) and return that value"""
    return _first(_walk(case, lines), 'load_stale')


def mon_flag_not_atomic(case, lines):
    """C07 / C06: the pending flag is read without any lock (the pre-checks of do_pending_writes and
    do_pending_writes_internal) and written by submitters and drainers: it has to be an atomic object, and the
    protocol (DeferredProofs.def_all_atomics_seq_cst, SC-for-DRF) needs these accesses to be seq_cst atomic
    events.  In the trace: a queued submission (failed try-lock) returns without an atomic store 1, a reader entry
    performs no atomic load at all, or a successful exclusive try-lock is not followed by an atomic load."""
    cur, start, seen_load, failed_try, stored, expect_load = {}, {}, {}, {}, {}, {}
    outer = None
    for l in lines:
        if len(l) == 5 and l[0] >= 0 and l[1] in (K['TRYLOCK'], K['TRYLOCK_FOR']) + K_S_ACQ:
            outer = l[2]
            break
    for i, l in enumerate(lines):
        if len(l) != 5 or l[0] < 0:
            continue
        t, k, o, v, m = l
        if k == K['INVOKE']:
            cur[t], start[t], seen_load[t], failed_try[t], stored[t], expect_load[t] = v, i, False, False, False, None
            continue
        c = cur.get(t)
        if c is None:
            continue
        if expect_load.get(t) is not None:
            if k != K['LOAD']:
                return ('thread %d: the exclusive try-lock at trace line %d (operation %d) is not followed by an atomic load of the '
                        'pending flag: the flag is not an atomic object any more' % (t, expect_load[t], c))
            expect_load[t] = None
        if k in (K['RET'], K['CATCH']):
            if c in (DETACH, ASYNC) and failed_try[t] and not stored[t]:
                return ('thread %d: the modification queued by the call invoked at trace line %d was published without an atomic '
                        'store of true to the pending flag (the flag is not raised by this call, or it is no longer an atomic object)' % (t, start[t]))
            if c in SHARED_OPS + (LOAD,) and not seen_load[t] and k == K['RET'] and v != -1:
                return ('thread %d: the reader entry invoked at trace line %d (operation %d) performed no atomic load of the pending '
                        'flag (the entry skipped do_pending_writes, or its unlocked pre-check reads a flag that is no longer atomic)' % (t, start[t], c))
            cur[t] = None
            continue
        if k == K['LOAD']:
            seen_load[t] = True
        elif k == K['STORE'] and v == 1:
            stored[t] = True
        elif k == K['TRYLOCK'] and o == outer and c in (DETACH, ASYNC, LOCK_SH, TRY_SH, TRY_SH_FOR, TRY_SH_UNTIL, LOAD):
            if c in (DETACH, ASYNC):
                if v == 0:
                    failed_try[t] = True
                else:
                    expect_load[t] = i
            elif v == 1 and seen_load[t] is True and shcap(case['cfg']):
                expect_load[t] = i      # the drain try-lock of a reader entry (shared-capable mutex: not the handle itself)
    return None


def mon_modify_strands(case, lines):
    """C06: a modify_detach / modify_async invoked while no handle is held and no other operation is in flight, and
    run alone, takes the direct path: by the time it returns it has applied every modification accepted before it
    and its own function (def_next_access_drains / def_solo_trylock_succeeds for the modify calls)"""
    return _first(_walk(case, lines), 'modify_strands')


MONITORS = {'modify_strands': mon_modify_strands, 'load_stale': mon_load_stale, 'flag_not_atomic': mon_flag_not_atomic, 'functor_under_list_lock': mon_functor_under_list_lock, 'reader_refused_by_reader': mon_reader_refused_by_reader, 'try_null_iff': mon_try_null_iff, 'try_blocks': mon_try_blocks, 'fault': mon_fault, 'twice': mon_twice, 'exclusive': mon_exclusive, 'order': mon_order, 'stranded': mon_stranded,
            'lost': mon_lost, 'payload': mon_payload, 'future': mon_future, 'exn': mon_exn, 'lock_leaked': mon_lock_leaked,
            'deadlock': mon_deadlock, 'seq_cst': mon_seq_cst, 'trace': mon_trace}
