"""check <PID> [--tier quick|thorough] [--seed N] [--replay FILE]

1. proof obligations (make the closure of Properties_<PID>.vo, Print Assumptions audit, forbidden-word scan)
2. correspondence: model (extracted from Coq) vs. implementation (/repo's current headers under the
   instrumented std) on corpus + generated cases, plus the implementation-side property monitors
3. on a break: search for a concrete failing input; VIOLATION line; exit 1
4. evidence/<PID>.json
"""
import argparse
import json
import os
import sys
import time

sys.path.insert(0, os.path.dirname(os.path.abspath(__file__)))
import core  # noqa: E402
from core import ROOT, BUILD, COQ  # noqa: E402
# evidence/ and replays/ live in /verif, except when tools/run_seeded.py points a run at a patched copy
OUT = os.environ.get('VERIF_OUT', ROOT)
from events import pretty, kind_name  # noqa: E402
from rng import Rng  # noqa: E402


def load_spec(pid):
    return json.load(open(os.path.join(ROOT, 'props', pid + '.json')))


def corpus_cases(pid, compname):
    d = os.path.join(ROOT, 'corpus', pid)
    out = []
    if os.path.isdir(d):
        for f in sorted(os.listdir(d)):
            if f.endswith('.case') and (f.startswith(compname + '_') or f.startswith(compname + '.')):
                for c in core.parse_case_file(os.path.join(d, f)):
                    c['origin'] = 'corpus/%s/%s' % (pid, f)
                    out.append(c)
    return out


def replay_path(pid, seed, n):
    d = os.path.join(OUT, 'replays')
    os.makedirs(d, exist_ok=True)
    return os.path.join(d, '%s-%d-%d.case' % (pid, seed, n))


def write_replay(path, header_lines, case=None, comp=None, model_lines=None, impl_lines=None):
    with open(path, 'w') as f:
        for h in header_lines:
            for hl in str(h).split('\n'):
                f.write('# ' + hl + '\n')
        if comp is not None:
            f.write('# component %s\n' % comp)
        if case is not None:
            f.write(core.case_text(case))
        if impl_lines is not None:
            f.write('# --- implementation trace ---\n')
            for l in impl_lines:
                f.write('#   ' + pretty(l) + '\n')
        if model_lines is not None:
            f.write('# --- model trace ---\n')
            for l in model_lines:
                f.write('#   ' + pretty(l) + '\n')


KNOWN_SEEN = {}


def split_known(pid, hits, case):
    """-> hits that are not listed as open known findings (the listed ones are printed once)"""
    out = []
    for h in hits:
        kf = core.known_match(pid, h, core.case_text(case))
        if kf:
            key = kf.get('monitor', '') + '|' + kf.get('match', '')
            if key not in KNOWN_SEEN:
                print('KNOWN-FINDING: property=%s %s' % (pid, kf.get('what', h)))
            KNOWN_SEEN[key] = KNOWN_SEEN.get(key, 0) + 1
        else:
            out.append(h)
    return out


def run_monitors(comp, spec, case, impl_lines):
    hits = []
    for name in spec.get('monitors', []):
        cname, mname = name.split('.', 1)
        if cname != comp.NAME:
            continue
        fn = comp.MONITORS[mname]
        r = fn(case, impl_lines)
        if r:
            hits.append('%s: %s' % (name, r))
    return hits


def gen_cases(comp, spec, rng, n, tier, start_id):
    cases = []
    for i in range(n):
        c = comp.gen(rng, tier, spec)
        c['id'] = start_id + i
        c['origin'] = 'generated'
        cases.append(c)
    return cases


def main():
    ap = argparse.ArgumentParser()
    ap.add_argument('pid')
    ap.add_argument('--tier', default=os.environ.get('VERIF_TIER', 'quick'))
    ap.add_argument('--seed', type=int, default=int(os.environ.get('VERIF_SEED', '1') or 1))
    ap.add_argument('--replay')
    ap.add_argument('--cases', type=int, default=0)
    args = ap.parse_args()
    pid, tier, seed = args.pid, args.tier, args.seed
    if tier not in ('quick', 'thorough'):
        tier = 'quick'
    t0 = time.time()
    spec = load_spec(pid)
    comps = [core.component(c) for c in spec['components']]
    if args.replay:
        return replay(pid, spec, comps, args.replay)

    problems = []       # broken proof obligations / correspondence (strings)
    violations = []     # (what, replay path)
    notes = []
    ev = {'obligations': 0, 'discharged': 0}

    # ------------------------------------------------------------------ 1. proofs
    pfile = spec['properties_file']
    targets = [pfile[:-2] + '.vo'] + [c.EXTRACT[:-2] + '.vo' for c in comps if False]
    ok, log = core.coq_make(targets, clean=False)
    theorems = spec['theorems']
    ev['obligations'] = len(theorems)
    closure = core.coq_closure(pfile)
    audit_ok, audit, audit_log = (False, {}, '')
    if ok:
        audit_ok, audit, audit_log = core.coq_audit(pid, theorems)
    else:
        problems.append('proof: make %s failed:\n%s' % (targets[0], tail(log, 25)))
    axioms_used = {}
    for th in theorems:
        a = audit.get(th)
        if a and a['ok']:
            ev['discharged'] += 1
            if a['axioms']:
                axioms_used[th] = a['axioms']
        elif ok:
            problems.append('proof: theorem %s: %s' % (th, (a or {}).get('note', 'missing')))
    hits = core.forbidden_scan(closure)
    if hits:
        problems.append('proof: forbidden declarations in the development:\n' + '\n'.join(hits[:10]))
        ev['discharged'] = 0
    # the properties file must contain nothing but statements closed by `exact`
    lemma_count = 0
    for f in closure:
        try:
            lemma_count += len([1 for l in open(os.path.join(COQ, f)) if l.strip().startswith(('Qed.', 'Defined.')) or l.rstrip().endswith(' Qed.')])
        except OSError:
            pass
    coqchk_note = ''
    if tier == 'thorough' and ok:
        mod = 'GV.' + pfile[:-2].replace('/', '.')
        rc, out, dt = core.sh('coqchk -o -silent -Q %s GV %s' % (COQ, mod), timeout=1800, cwd=COQ)
        coqchk_note = 'coqchk rc=%d in %.0fs: %s' % (rc, dt, ' | '.join(tail(out, 12).split('\n')))
        if rc != 0:
            problems.append('proof: coqchk failed on %s:\n%s' % (mod, tail(out, 20)))

    # ------------------------------------------------------------------ 2. correspondence
    rng = Rng(seed)
    n_cases = args.cases or spec.get('%s_cases' % tier, 600 if tier == 'quick' else 12000)
    shards = core.NCPU if tier == 'thorough' else max(2, core.NCPU // 2)
    stats = {'evaluations': 0, 'nontrivial_traces': set(), 'samples': [], 'verdicts': {}, 'diffs': 0, 'monitor_hits': 0,
             'threads_hist': {}, 'ops_hist': {}, 'sched_len_hist': {}, 'trace_lines': 0, 'crashes': 0}
    saved = 0
    for comp in comps:
        share = max(1, n_cases // len(comps))
        sanitize = getattr(comp, 'SANITIZE', False) or tier == 'thorough'
        mexe, mlog = core.build_model_driver(comp)
        if mexe is None:
            problems.append('correspondence(%s): model extraction/build failed:\n%s' % (comp.NAME, tail(mlog, 20)))
            continue
        iexe, ilog = core.build_impl_driver(comp, sanitize)
        if iexe is None:
            problems.append('correspondence(%s): the driver no longer compiles against /repo:\n%s' % (comp.NAME, tail(ilog, 25)))
            continue  # the search phase retries with -DVS_NO_PEEK
        cases = corpus_cases(pid, comp.NAME)
        for i, c in enumerate(cases):
            c['id'] = i
        cases += gen_cases(comp, spec, rng.fork(comp.NAME), share, tier, len(cases))
        byid = {c['id']: c for c in cases}
        mout, merr = core.run_sharded(mexe, cases, comp.NAME + '_m', shards)
        iout, ierr = core.run_sharded(iexe, cases, comp.NAME + '_i', shards)
        first_diffs = []
        for c in cases:
            cid = c['id']
            ml = core.canon(mout.get(cid, []))
            il = core.canon(iout.get(cid, []))
            stats['evaluations'] += 1
            stats['trace_lines'] += len(il)
            kh = stats.setdefault('kind_hits', {})
            oh = stats.setdefault('opcode_hits', {}).setdefault(comp.NAME, {})
            for l in il:
                if len(l) == 5 and l[0] >= 0:
                    kn = kind_name(l[1])
                    kh[kn] = kh.get(kn, 0) + 1
                    if l[1] == 0:
                        oh[l[3]] = oh.get(l[3], 0) + 1
            v = core.verdict_of(il)
            stats['verdicts'][core_verdict(v)] = stats['verdicts'].get(core_verdict(v), 0) + 1
            nt = len(c['progs'])
            stats['threads_hist'][nt] = stats['threads_hist'].get(nt, 0) + 1
            no = sum(len(p) for p in c['progs'])
            stats['ops_hist'][no] = stats['ops_hist'].get(no, 0) + 1
            sl = min(len(c['sched']) // 10 * 10, 100)
            stats['sched_len_hist'][sl] = stats['sched_len_hist'].get(sl, 0) + 1
            if core.nontrivial(il):
                stats['nontrivial_traces'].add(hash(json.dumps(il)))
            if len(stats['samples']) < 3 and core.nontrivial(il):
                stats['samples'].append({'component': comp.NAME, 'cfg': c['cfg'], 'progs': c['progs'],
                                         'sched': ' '.join('%d:%d' % tc for tc in c['sched'][:40]),
                                         'trace_head': [pretty(l) for l in il[:12]], 'trace_lines': len(il),
                                         'verdict': core_verdict(v)})
            d = core.first_diff(ml, il)
            if d >= 0:
                stats['diffs'] += 1
                first_diffs.append((c, d, ml, il))
            mh = run_monitors(comp, spec, c, il)
            if v == 3 and not mh and spec.get('crash_is_violation', True):
                mh = ['%s.crash: the implementation crashed (sanitizer report / signal)' % comp.NAME]
            mh = split_known(pid, mh, c)
            if mh:
                stats['monitor_hits'] += 1
                if saved < 3:
                    small = shrink_monitor(comp, spec, iexe, c, mh[0])
                    path = replay_path(pid, seed, saved)
                    sil = core.canon(run_single(iexe, small))
                    mh2 = run_monitors(comp, spec, small, sil) or mh
                    write_replay(path, ['VIOLATION of %s on the implementation (monitor, independent of the model)' % pid] + mh2,
                                 small, comp.NAME, None, sil)
                    violations.append((mh[0], path))
                    saved += 1
        # ---- thorough: exhaustive enumeration of the schedules of small programs (bounded pre-emptions)
        if tier == 'thorough' and getattr(comp, 'ENUM', False):
            en = enumerate_small(comp, spec, rng.fork(comp.NAME + 'enum'), mexe, iexe, shards)
            stats.setdefault('enum', {})[comp.NAME] = en['summary']
            for (c, d, ml, il) in en['diffs'][:1]:
                first_diffs.append((c, d, ml, il))
            stats['diffs'] += len(en['diffs'])
            stats['evaluations'] += en['summary']['schedules']
            for (c, mh, il) in en['hits'][:1]:
                stats['monitor_hits'] += 1
                if saved < 3:
                    path = replay_path(pid, seed, saved)
                    write_replay(path, ['VIOLATION of %s on the implementation (monitor; schedule from the exhaustive small-scope enumeration)' % pid] + mh,
                                 c, comp.NAME, None, il)
                    violations.append((mh[0], path))
                    saved += 1
        if first_diffs:
            c, d, ml, il = first_diffs[0]
            small = shrink_diff(comp, mexe, iexe, c)
            sml, sil = core.canon(run_single(mexe, small)), core.canon(run_single(iexe, small))
            sd = core.first_diff(sml, sil)
            problems.append('correspondence(%s): %d of %d cases differ; minimised case differs at trace line %d: model "%s" vs implementation "%s"'
                            % (comp.NAME, len(first_diffs), len(cases), sd,
                               pretty(sml[sd]) if 0 <= sd < len(sml) else '<end>', pretty(sil[sd]) if 0 <= sd < len(sil) else '<end>'))
            notes.append(('diff', comp, small, sml, sil))
        if ierr.strip():
            notes.append(('stderr', comp, tail(ierr, 30)))

    # ------------------------------------------------------------------ 3. break => search
    if problems and not violations:
        found = search_failing_input(pid, spec, comps, seed, tier)
        if found:
            comp, small, what, sil = found
            path = replay_path(pid, seed, saved)
            write_replay(path, ['VIOLATION of %s: concrete failing input found by the search after a broken obligation' % pid, what]
                         + ['broken: ' + p for p in problems], small, comp.NAME, None, sil)
            violations.append((what, path))
        else:
            path = replay_path(pid, seed, saved)
            hdr = ['%s is no longer shown to hold: the following obligations no longer check' % pid] + problems + \
                  ['search (corpus, seeded schedule exploration under the property monitors) found no failing input']
            diff = [n for n in notes if n[0] == 'diff']
            if diff:
                _, comp, small, sml, sil = diff[0]
                write_replay(path, hdr, small, comp.NAME, sml, sil)
            else:
                write_replay(path, hdr)
            violations.append(('no-failing-input-found', path))

    # ------------------------------------------------------------------ 4. evidence + verdict
    wall = time.time() - t0
    evidence = {
        'property_id': pid, 'tier': tier, 'seed': seed, 'level': 'proof',
        'coverage': {
            'obligations': ev['obligations'], 'discharged': ev['discharged'],
            'checker_cmd': 'make -C coq %s (coqc 8.16.1, full .vo) ; coqc Audit_%s.v (Print Assumptions per theorem)%s'
                           % (targets[0], pid, ' ; coqchk -o' if tier == 'thorough' else ''),
            'trusted_base': spec.get('trusted_base', []) + [
                'Coq 8.16.1 kernel (vm_compute used in Examples only; no native_compute)',
                'axioms per theorem (Print Assumptions): ' + (json.dumps(axioms_used) if axioms_used else 'none - every theorem is closed under the global context'),
                'extraction: ExtrOcamlBasic only; ocaml/drv.ml reader/printer',
                'correspondence harness: harness/vstd.hpp, vsched.hpp, driver.hpp, the component driver, lib/*.py',
            ],
            'theorems': theorems,
            'lemmas_in_closure': lemma_count,
            'closure_files': closure,
            'evaluations': stats['evaluations'],
            'distinct_nontrivial': len(stats['nontrivial_traces']),
            'rule': 'corpus cases first, then seeded generation (programs x schedules: random, long-runs, PCT, boundary-aimed); '
                    'a case is non-trivial when >= 2 threads take steps and some thread is pre-empted inside a library call; '
                    'distinct = distinct canonical implementation traces',
            'samples': stats['samples'],
            'traces_validated_against_impl': stats['evaluations'] - stats['diffs'],
            'trace_lines_compared': stats['trace_lines'],
            'verdicts': stats['verdicts'], 'threads_hist': stats['threads_hist'], 'ops_hist': stats['ops_hist'],
            'sched_len_hist': stats['sched_len_hist'],
            'event_kind_hits': stats.get('kind_hits', {}), 'opcode_hits': stats.get('opcode_hits', {}),
            'correspondence_differences': stats['diffs'], 'monitor_hits': stats['monitor_hits'],
            'monitors': spec.get('monitors', []),
            'known_finding_hits': dict(KNOWN_SEEN),
            'exhaustive': bool(stats.get('enum')) and all(e['exhaustive_for_bound'] for e in stats['enum'].values()),
            'exhaustive_subspace': stats.get('enum', {}),
            'coqchk': coqchk_note,
            'partial': spec.get('partial', ''),
        },
        'assumptions': spec.get('assumptions', []),
        'wall_s': round(wall, 2),
        'violations': len(violations),
    }
    os.makedirs(os.path.join(OUT, 'evidence'), exist_ok=True)
    with open(os.path.join(OUT, 'evidence', pid + '.json'), 'w') as f:
        json.dump(evidence, f, indent=1, default=str)
    for p in problems:
        print('BROKEN: ' + p)
    for what, path in violations:
        if what == 'no-failing-input-found':
            print('VIOLATION property=%s replay=%s no-failing-input-found' % (pid, path))
        else:
            print('VIOLATION property=%s replay=%s' % (pid, path))
    if violations:
        return 1
    print('OK %s tier=%s seed=%d: %d/%d theorems checked, %d cases (%d distinct non-trivial traces) agree with the model, %.1fs'
          % (pid, tier, seed, ev['discharged'], ev['obligations'], stats['evaluations'], len(stats['nontrivial_traces']), wall))
    return 0


def enumerate_small(comp, spec, rng, mexe, iexe, shards):
    """all schedules (<= B pre-emptions / spurious wake-ups, depth D) of small programs, from the model's
    enabled sets, replayed on both sides"""
    nprog = spec.get('enum_programs', max(8, 40 // max(1, len(spec.get('components', [1])))))
    depth, budget, cap = spec.get('enum_depth', 120), spec.get('enum_budget', 2), spec.get('enum_cap', 2500)
    small = []
    gs = getattr(comp, 'gen_small', None)
    tries = 0
    while len(small) < nprog and tries < nprog * 50:
        tries += 1
        c = gs(rng, spec) if gs else comp.gen(rng, 'small', spec)
        if not gs and (len(c['progs']) > 3 or sum(len(p) for p in c['progs']) > 4):
            continue
        c['sched'] = []
        c['id'] = len(small)
        small.append(c)
    path = os.path.join(BUILD, 'cases', 'enum_%s_%d.case' % (comp.NAME, os.getpid()))
    os.makedirs(os.path.dirname(path), exist_ok=True)
    core.write_cases(path, small)
    rc, out, _ = core.sh([mexe, path, '--enum', str(depth), str(budget), str(cap)], timeout=1200)
    os.remove(path)
    cases, cur, truncated, total = [], None, False, 0
    for line in out.split('\n'):
        if line.startswith('CASE '):
            cur = small[int(line[5:])]
        elif line.startswith('S') and cur is not None:
            sc = [tuple(int(y) for y in x.split(':')) for x in line[1:].split()]
            c = dict(cur)
            c['sched'] = sc
            c['id'] = len(cases)
            c['origin'] = 'enumerated'
            cases.append(c)
        elif line.startswith('N '):
            n = int(line[2:])
            total += n
            if n > cap:
                truncated = True
    mout, _ = core.run_sharded(mexe, cases, comp.NAME + '_em', shards)
    iout, _ = core.run_sharded(iexe, cases, comp.NAME + '_ei', shards)
    diffs, hits = [], []
    for c in cases:
        ml, il = core.canon(mout.get(c['id'], [])), core.canon(iout.get(c['id'], []))
        d = core.first_diff(ml, il)
        if d >= 0:
            diffs.append((c, d, ml, il))
        mh = run_monitors(comp, spec, c, il)
        if core.verdict_of(il) == 3 and not mh:
            mh = ['%s.crash: the implementation crashed' % comp.NAME]
        mh = split_known(spec['id'], mh, c)
        if mh:
            hits.append((c, mh, il))
    return {'diffs': diffs, 'hits': hits,
            'summary': {'programs': len(small), 'schedules': len(cases), 'schedules_in_space': total, 'depth': depth,
                        'preemption_budget': budget, 'truncated': truncated,
                        'exhaustive_for_bound': not truncated}}


def core_verdict(v):
    from events import VERDICT
    return VERDICT.get(v, str(v))


def tail(s, n):
    ls = s.rstrip().split('\n')
    return '\n'.join(ls[-n:])


def run_single(exe, case):
    c = dict(case)
    c['id'] = 0
    path = os.path.join(BUILD, 'cases', 'single_%d.case' % os.getpid())
    os.makedirs(os.path.dirname(path), exist_ok=True)
    core.write_cases(path, [c])
    out, err = core.run_driver(exe, path, timeout=120)
    try:
        os.remove(path)
    except OSError:
        pass
    return out.get(0, [])


def shrink_diff(comp, mexe, iexe, case):
    def fails(c):
        return core.first_diff(core.canon(run_single(mexe, c)), core.canon(run_single(iexe, c))) >= 0
    return core.shrink(case, fails, budget=120)


def shrink_monitor(comp, spec, iexe, case, what):
    name = what.split(':')[0]

    def fails(c):
        il = core.canon(run_single(iexe, c))
        if name.endswith('.crash'):
            return core.verdict_of(il) == 3
        return any(h.split(':')[0] == name for h in run_monitors(comp, spec, c, il))
    return core.shrink(case, fails, budget=120)


def search_failing_input(pid, spec, comps, seed, tier):
    """implementation-side search under the property monitors: more seeds, boundary-aimed schedules"""
    rounds = 6 if tier == 'quick' else 24
    per = 1500
    for comp in comps:
        sanitize = True
        iexe, ilog = core.build_impl_driver(comp, sanitize)
        if iexe is None:
            iexe, ilog = core.build_impl_driver(comp, False)
        nopeek = False
        if iexe is None:
            iexe, ilog = core.build_impl_driver(comp, False, nopeek=True)
            nopeek = True
        if iexe is None:
            continue
        for r in range(rounds):
            rng = Rng(seed * 1000003 + r + 17)
            cases = gen_cases(comp, spec, rng, per, 'search', 0)
            for c in cases:
                c['_nopeek'] = nopeek
            iout, _ = core.run_sharded(iexe, cases, comp.NAME + '_s', core.NCPU)
            for c in cases:
                il = core.canon(iout.get(c['id'], []))
                mh = run_monitors(comp, spec, c, il)
                if core.verdict_of(il) == 3 and not mh:
                    mh = ['%s.crash: the implementation crashed (sanitizer report / signal)' % comp.NAME]
                mh = split_known(pid, mh, c)
                if mh:
                    small = shrink_monitor(comp, spec, iexe, c, mh[0])
                    return comp, small, '; '.join(mh), core.canon(run_single(iexe, small))
        ms = getattr(comp, 'model_search', None)
        if ms:
            r = ms(pid, spec, seed)
            if r:
                return r
    return None


def replay(pid, spec, comps, path):
    cases = core.parse_case_file(path)
    compname = None
    for l in open(path):
        if l.startswith('# component '):
            compname = l.split()[2]
    rc = 0
    for comp in comps:
        if compname and comp.NAME != compname:
            continue
        mexe, _ = core.build_model_driver(comp)
        iexe, ilog = core.build_impl_driver(comp, True)
        if iexe is None:
            print('driver does not compile:\n' + tail(ilog, 30))
            return 1
        for c in cases:
            il = core.canon(run_single(iexe, c))
            ml = core.canon(run_single(mexe, c)) if mexe else []
            d = core.first_diff(ml, il)
            print('== case %d (%s): first difference at %d' % (c['id'], comp.NAME, d))
            for i in range(max(len(il), len(ml))):
                a = pretty(il[i]) if i < len(il) else ''
                b = pretty(ml[i]) if i < len(ml) else ''
                print('%s %-50s | %s' % ('!' if a != b else ' ', a, b))
            mh = run_monitors(comp, spec, c, il)
            if core.verdict_of(il) == 3:
                mh.append('crash')
            for h in mh:
                print('MONITOR: ' + h)
            if mh or d >= 0:
                rc = 1
                print('VIOLATION property=%s replay=%s' % (pid, path))
    return rc


if __name__ == '__main__':
    sys.exit(main())
