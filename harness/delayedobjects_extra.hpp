// Component-local addition to the instrumented std for the DelayedObjects driver:
// vstd::promise<T> - a thin wrapper over the real std::promise<T> (same shared state, same futures, same
// exceptions) whose state-touching members get_future() / set_value() report the access to a hook first.
// The hook (installed by the driver) is a lockset check: a promise that currently lives INSIDE the container
// (its address is that of a mapped value of one of the four maps) may only be touched by the thread that owns
// the container's mutex.  A violation is logged as K_FAULT 0 7; nothing is logged otherwise, so the traces of
// the unmodified header are exactly those of the model (get_future is called on a local promise before it is
// moved into the map; every set_value happens under promiseLock).
#pragma once
#include "vstd.hpp"

namespace vs {
inline std::function<void(const void*)>& promise_hook()
{
    static std::function<void(const void*)> h;
    return h;
}
inline void promise_access(const void* p)
{
    if (active() && promise_hook()) promise_hook()(p);
}
}  // namespace vs

namespace vstd {
template<class T>
class promise {
    ::std::promise<T> p;

  public:
    promise() = default;
    promise(promise&&) noexcept = default;
    promise& operator=(promise&&) noexcept = default;
    promise(const promise&) = delete;
    promise& operator=(const promise&) = delete;
    ::std::future<T> get_future()
    {
        vs::promise_access(this);
        return p.get_future();
    }
    void set_value(const T& v)
    {
        vs::promise_access(this);
        p.set_value(v);
    }
    void set_value(T&& v)
    {
        vs::promise_access(this);
        p.set_value(::std::move(v));
    }
    void set_exception(::std::exception_ptr e)
    {
        vs::promise_access(this);
        p.set_exception(e);
    }
    void swap(promise& o) noexcept { p.swap(o.p); }
    // harness-only: the real promise, no hook
    ::std::promise<T>& real() { return p; }
};
}  // namespace vstd
