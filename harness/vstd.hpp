// Instrumented replacement of the synchronisation primitives of namespace std.
// Usage (in a driver):
//     #include "vstd.hpp"
//     #define std vstd
//     #include "gmlc/..."          // unmodified header from /repo
//     #undef std
// Qualified lookup vstd::X finds the declarations below first and falls back to
// the real ::std through the using-directive, so unique_lock, shared_lock,
// lock_guard, shared_ptr, promise, map ... stay the real templates, instantiated
// over the instrumented mutex types.
#pragma once
#include "vsched.hpp"

namespace vstd {
using namespace ::std;

// Virtual clocks.  Library code that measures time itself (a watchdog inside a spin loop, a deadline derived from
// now()) must not depend on the wall clock of the harness, where a blocked thread waits for the scheduler, not for
// time: every reading of a clock advances it by 700 ms, so "2 s have passed" becomes true after three polls.
// The unmodified library never reads a clock (it only passes durations on), so nothing changes for it.
namespace chrono {
    using namespace ::std::chrono;
    namespace detail_vclock {
        inline long long advance()
        {
            static ::std::atomic<long long> ns{1000000000LL};
            return ns.fetch_add(700000000LL) + 700000000LL;
        }
    }  // namespace detail_vclock
    struct steady_clock {
        using duration = ::std::chrono::nanoseconds;
        using rep = duration::rep;
        using period = duration::period;
        using time_point = ::std::chrono::time_point<steady_clock, duration>;
        static constexpr bool is_steady = true;
        static time_point now() noexcept { return time_point(duration(detail_vclock::advance())); }
    };
    using high_resolution_clock = steady_clock;
    struct system_clock {
        using duration = ::std::chrono::nanoseconds;
        using rep = duration::rep;
        using period = duration::period;
        using time_point = ::std::chrono::time_point<system_clock, duration>;
        static constexpr bool is_steady = false;
        static time_point now() noexcept { return time_point(duration(detail_vclock::advance())); }
        static ::std::time_t to_time_t(const time_point& t) noexcept
        {
            return (::std::time_t)::std::chrono::duration_cast<::std::chrono::seconds>(t.time_since_epoch()).count();
        }
    };
}  // namespace chrono

namespace detail {
    template<class T>
    inline long as_long(T v)
    {
        if constexpr (::std::is_pointer_v<T>) {
            return vs::S().id_of((const void*)v);
        } else if constexpr (::std::is_arithmetic_v<T> || ::std::is_enum_v<T>) {
            return (long)v;
        } else {
            // a value type the library did not use when the shim was written (e.g. std::thread::id):
            // keep the driver compiling; the logged value is a small hash of the object representation
            unsigned long h = 1469598103934665603UL;
            const unsigned char* b = reinterpret_cast<const unsigned char*>(&v);
            for (::std::size_t i = 0; i < sizeof(T); ++i) h = (h ^ b[i]) * 1099511628211UL;
            return (long)(h & 0xffff);
        }
    }
    template<class T>
    constexpr int kptr()
    {
        return ::std::is_pointer_v<T> ? vs::K_PTR : 0;
    }
}  // namespace detail

template<class T>
class atomic {
    T v;

  public:
    atomic() noexcept = default;
    constexpr atomic(T x) noexcept: v(x) {}
    atomic(const atomic&) = delete;
    atomic& operator=(const atomic&) = delete;
    T load(::std::memory_order o = ::std::memory_order_seq_cst) const noexcept
    {
        if (!vs::active()) return v;
        vs::S().visible(vs::K_LOAD, this);
        vs::S().emit(vs::K_LOAD + detail::kptr<T>(), this, detail::as_long(v), (int)o);
        return v;
    }
    void store(T x, ::std::memory_order o = ::std::memory_order_seq_cst) noexcept
    {
        if (!vs::active()) {
            v = x;
            return;
        }
        vs::S().visible(vs::K_STORE, this);
        v = x;
        vs::S().emit(vs::K_STORE + detail::kptr<T>(), this, detail::as_long(x), (int)o);
    }
    operator T() const noexcept { return load(); }
    T operator=(T x) noexcept
    {
        store(x);
        return x;
    }
    T exchange(T x, ::std::memory_order o = ::std::memory_order_seq_cst) noexcept
    {
        if (!vs::active()) {
            T old = v;
            v = x;
            return old;
        }
        vs::S().visible(vs::K_XCHG, this);
        T old = v;
        v = x;
        vs::S().emit(vs::K_XCHG + detail::kptr<T>(), this, detail::as_long(x), (int)o);
        return old;
    }
    bool cas(T& e, T d, ::std::memory_order o, bool weak) noexcept
    {
        if (!vs::active()) {
            if (v == e) {
                v = d;
                return true;
            }
            e = v;
            return false;
        }
        int c = vs::S().visible(vs::K_CAS_OK, this);
        if (v == e && !(weak && c == vs::C_WEAKFAIL)) {
            v = d;
            vs::S().emit(vs::K_CAS_OK + detail::kptr<T>(), this, detail::as_long(d), (int)o);
            return true;
        }
        vs::S().emit(vs::K_CAS_FAIL + detail::kptr<T>(), this, detail::as_long(v), (int)o);
        e = v;
        return false;
    }
    bool compare_exchange_weak(T& e, T d, ::std::memory_order o = ::std::memory_order_seq_cst) noexcept
    {
        return cas(e, d, o, true);
    }
    bool compare_exchange_strong(T& e, T d, ::std::memory_order o = ::std::memory_order_seq_cst) noexcept
    {
        return cas(e, d, o, false);
    }
    bool compare_exchange_weak(T& e, T d, ::std::memory_order o, ::std::memory_order) noexcept
    {
        return cas(e, d, o, true);
    }
    bool compare_exchange_strong(T& e, T d, ::std::memory_order o, ::std::memory_order) noexcept
    {
        return cas(e, d, o, false);
    }
    template<class D>
    T rmw(D d, ::std::memory_order o) noexcept
    {
        if (!vs::active()) {
            T old = v;
            v = (T)(v + d);
            return old;
        }
        vs::S().visible(vs::K_RMW, this);
        T old = v;
        v = (T)(v + d);
        vs::S().emit(vs::K_RMW, this, detail::as_long(v), (int)o);
        return old;
    }
    T fetch_add(T d, ::std::memory_order o = ::std::memory_order_seq_cst) noexcept { return rmw(d, o); }
    T fetch_sub(T d, ::std::memory_order o = ::std::memory_order_seq_cst) noexcept { return rmw(-d, o); }
    T operator++(int) noexcept { return rmw(1, ::std::memory_order_seq_cst); }
    T operator--(int) noexcept { return rmw(-1, ::std::memory_order_seq_cst); }
    T operator++() noexcept { return (T)(rmw(1, ::std::memory_order_seq_cst) + 1); }
    T operator--() noexcept { return (T)(rmw(-1, ::std::memory_order_seq_cst) - 1); }
    T operator+=(T d) noexcept { return (T)(rmw(d, ::std::memory_order_seq_cst) + d); }
    T operator-=(T d) noexcept { return (T)(rmw(-d, ::std::memory_order_seq_cst) - d); }
    // harness-only peek (no event)
    T vs_peek() const noexcept { return v; }
};
using atomic_bool = atomic<bool>;
using atomic_int = atomic<int>;

// ---- mutexes -------------------------------------------------------------
// owner: -1 free, otherwise vs::Sched::self() of the holder; sharers: shared holders
struct mutex {
    int owner = -1;
    mutex() = default;
    mutex(const mutex&) = delete;
    bool free_() const { return owner == -1; }
    void lock()
    {
        if (vs::active()) vs::S().visible(vs::Pending{vs::K_LOCK, this, [this](int) { return free_(); }});
        owner = vs::Sched::self();
        if (vs::active()) vs::S().emit(vs::K_LOCK, this, 0);
    }
    void unlock()
    {
        if (vs::active()) vs::S().visible(vs::K_UNLOCK, this);
        owner = -1;
        if (vs::active()) vs::S().emit(vs::K_UNLOCK, this, 0);
    }
    bool try_lock()
    {
        if (vs::active()) vs::S().visible(vs::K_TRYLOCK, this);
        bool ok = free_();
        if (ok) owner = vs::Sched::self();
        if (vs::active()) vs::S().emit(vs::K_TRYLOCK, this, ok);
        return ok;
    }
    // timed forms (only reachable through timed_mutex)
    // nowait: the relative limit is <= 0 - exactly a try_lock: never waits, whatever the schedule's choice
    bool try_lock_timed(bool nowait = false)
    {
        if (vs::active())
            vs::S().visible(
                vs::Pending{vs::K_TRYLOCK_FOR, this, [this, nowait](int c) { return free_() || c == vs::C_TIMEOUT || nowait; }});
        bool ok = free_();
        if (ok) owner = vs::Sched::self();
        if (vs::active()) vs::S().emit(vs::K_TRYLOCK_FOR, this, ok);
        return ok;
    }
};
// try_lock_for(rel) is try_lock_until(steady_clock::now() + rel) [thread.timedmutex.requirements]: a relative
// timeout so large that this addition overflows is undefined behaviour inside the standard library (real
// implementations then fail at once or report success without the lock).  Logged as K_FAULT <mutex> 10.
namespace detail {
    template<class R, class P>
    inline bool rel_timeout_overflows(const ::std::chrono::duration<R, P>& d)
    {
        using sc = ::std::chrono::steady_clock;
        const long double dn = ::std::chrono::duration<long double, typename sc::duration::period>(d).count();
        const long double lim = (long double)::std::numeric_limits<typename sc::duration::rep>::max();
        if (dn >= lim) return true;
        long long sum = 0;
        return __builtin_add_overflow((long long)sc::now().time_since_epoch().count(), (long long)dn, &sum);
    }
    inline void check_rel_timeout(const void* m, bool overflows)
    {
        if (overflows && vs::active()) vs::S().emit(vs::K_FAULT, m, 10);
    }
    // a relative limit <= 0 makes try_lock_for a plain try_lock (it never waits).  The wrapper drivers only ever
    // pass positive limits, so such a limit at the mutex means it was shortened on the way: K_FAULT <mutex> 12
    template<class R, class P>
    inline bool rel_limit_nowait(const void* m, const ::std::chrono::duration<R, P>& d)
    {
#ifdef VS_STRICT_POSITIVE_LIMITS
        // opt-in (wrapper drivers): other components pass 0 legitimately (DelayedDestructor::destroyObjects(0ms)),
        // and their models treat every timed attempt alike
        const bool nw = !(d > ::std::chrono::duration<R, P>::zero());
        if (nw && vs::active()) vs::S().emit(vs::K_FAULT, m, 12);
        return nw;
#else
        (void)m;
        (void)d;
        return false;
#endif
    }
}  // namespace detail
struct timed_mutex: mutex {
    template<class R, class P>
    bool try_lock_for(const ::std::chrono::duration<R, P>& d)
    {
        detail::check_rel_timeout(this, detail::rel_timeout_overflows(d));
        return try_lock_timed(detail::rel_limit_nowait(this, d));
    }
    template<class C, class D>
    bool try_lock_until(const ::std::chrono::time_point<C, D>&)
    {
        return try_lock_timed();
    }
};
struct shared_mutex {
    int owner = -1;
    ::std::vector<int> sharers;
    shared_mutex() = default;
    shared_mutex(const shared_mutex&) = delete;
    bool free_x() const { return owner == -1 && sharers.empty(); }
    bool free_s() const { return owner == -1; }
    void lock()
    {
        if (vs::active()) vs::S().visible(vs::Pending{vs::K_LOCK, this, [this](int) { return free_x(); }});
        owner = vs::Sched::self();
        if (vs::active()) vs::S().emit(vs::K_LOCK, this, 0);
    }
    void unlock()
    {
        if (vs::active()) vs::S().visible(vs::K_UNLOCK, this);
        owner = -1;
        if (vs::active()) vs::S().emit(vs::K_UNLOCK, this, 0);
    }
    bool try_lock()
    {
        if (vs::active()) vs::S().visible(vs::K_TRYLOCK, this);
        bool ok = free_x();
        if (ok) owner = vs::Sched::self();
        if (vs::active()) vs::S().emit(vs::K_TRYLOCK, this, ok);
        return ok;
    }
    void lock_shared()
    {
        if (vs::active()) vs::S().visible(vs::Pending{vs::K_LOCK_SH, this, [this](int) { return free_s(); }});
        sharers.push_back(vs::Sched::self());
        if (vs::active()) vs::S().emit(vs::K_LOCK_SH, this, 0);
    }
    void unlock_shared()
    {
        if (vs::active()) vs::S().visible(vs::K_UNLOCK_SH, this);
        auto it = ::std::find(sharers.begin(), sharers.end(), vs::Sched::self());
        if (it != sharers.end()) sharers.erase(it);
        if (vs::active()) vs::S().emit(vs::K_UNLOCK_SH, this, 0);
    }
    bool try_lock_shared()
    {
        if (vs::active()) vs::S().visible(vs::K_TRYLOCK_SH, this);
        bool ok = free_s();
        if (ok) sharers.push_back(vs::Sched::self());
        if (vs::active()) vs::S().emit(vs::K_TRYLOCK_SH, this, ok);
        return ok;
    }
    bool try_lock_timed(bool nowait = false)
    {
        if (vs::active())
            vs::S().visible(
                vs::Pending{vs::K_TRYLOCK_FOR, this, [this, nowait](int c) { return free_x() || c == vs::C_TIMEOUT || nowait; }});
        bool ok = free_x();
        if (ok) owner = vs::Sched::self();
        if (vs::active()) vs::S().emit(vs::K_TRYLOCK_FOR, this, ok);
        return ok;
    }
    bool try_lock_shared_timed(bool nowait = false)
    {
        if (vs::active())
            vs::S().visible(vs::Pending{vs::K_TRYLOCK_SH_FOR, this,
                                        [this, nowait](int c) { return free_s() || c == vs::C_TIMEOUT || nowait; }});
        bool ok = free_s();
        if (ok) sharers.push_back(vs::Sched::self());
        if (vs::active()) vs::S().emit(vs::K_TRYLOCK_SH_FOR, this, ok);
        return ok;
    }
};
struct shared_timed_mutex: shared_mutex {
    template<class R, class P>
    bool try_lock_for(const ::std::chrono::duration<R, P>& d)
    {
        detail::check_rel_timeout(this, detail::rel_timeout_overflows(d));
        return try_lock_timed(detail::rel_limit_nowait(this, d));
    }
    template<class C, class D>
    bool try_lock_until(const ::std::chrono::time_point<C, D>&)
    {
        return try_lock_timed();
    }
    template<class R, class P>
    bool try_lock_shared_for(const ::std::chrono::duration<R, P>& d)
    {
        detail::check_rel_timeout(this, detail::rel_timeout_overflows(d));
        return try_lock_shared_timed(detail::rel_limit_nowait(this, d));
    }
    template<class C, class D>
    bool try_lock_shared_until(const ::std::chrono::time_point<C, D>&)
    {
        return try_lock_shared_timed();
    }
};

// ---- recursive mutexes (additive: same event kinds as mutex / timed_mutex, plus a depth counter) ----------
// owner: -1 free, otherwise the holder; depth: how many times the holder has locked it.  Every lock / unlock
// logs K_LOCK / K_UNLOCK (K_TRYLOCK, K_TRYLOCK_FOR with the outcome), also the nested ones; the value of
// K_LOCK / K_UNLOCK is the depth before the operation (0 for the outermost lock) resp. after it (0 = released).
struct recursive_mutex {
    int owner = -1;
    int depth = 0;
    recursive_mutex() = default;
    recursive_mutex(const recursive_mutex&) = delete;
    bool mine_or_free() const { return owner == -1 || owner == vs::Sched::self(); }
    void lock()
    {
        if (vs::active()) vs::S().visible(vs::Pending{vs::K_LOCK, this, [this](int) { return mine_or_free(); }});
        owner = vs::Sched::self();
        ++depth;
        if (vs::active()) vs::S().emit(vs::K_LOCK, this, depth - 1);
    }
    void unlock()
    {
        if (vs::active()) vs::S().visible(vs::K_UNLOCK, this);
        if (depth > 0) --depth;
        if (depth == 0) owner = -1;
        if (vs::active()) vs::S().emit(vs::K_UNLOCK, this, depth);
    }
    bool try_lock()
    {
        if (vs::active()) vs::S().visible(vs::K_TRYLOCK, this);
        bool ok = mine_or_free();
        if (ok) {
            owner = vs::Sched::self();
            ++depth;
        }
        if (vs::active()) vs::S().emit(vs::K_TRYLOCK, this, ok);
        return ok;
    }
    bool try_lock_timed()
    {
        if (vs::active())
            vs::S().visible(vs::Pending{vs::K_TRYLOCK_FOR, this, [this](int c) { return mine_or_free() || c == vs::C_TIMEOUT; }});
        bool ok = mine_or_free();
        if (ok) {
            owner = vs::Sched::self();
            ++depth;
        }
        if (vs::active()) vs::S().emit(vs::K_TRYLOCK_FOR, this, ok);
        return ok;
    }
};
struct recursive_timed_mutex: recursive_mutex {
    template<class R, class P>
    bool try_lock_for(const ::std::chrono::duration<R, P>& d)
    {
        detail::check_rel_timeout(this, detail::rel_timeout_overflows(d));
        return try_lock_timed();
    }
    template<class C, class D>
    bool try_lock_until(const ::std::chrono::time_point<C, D>&)
    {
        return try_lock_timed();
    }
};

// ---- condition variable ---------------------------------------------------
enum class cv_status { no_timeout, timeout };
struct condition_variable {
    ::std::vector<int> sleepers;  // sleeping and not yet notified
    condition_variable() = default;
    condition_variable(const condition_variable&) = delete;
    void notify_all() noexcept
    {
        if (vs::active()) vs::S().visible(vs::K_NOTIFY_ALL, this);
        sleepers.clear();
        if (vs::active()) vs::S().emit(vs::K_NOTIFY_ALL, this, 0);
    }
    void notify_one() noexcept
    {
        // wakes ONE sleeper; which one is the implementation's choice: the schedule's choice c selects the
        // (c mod n)-th oldest sleeper (c = 0: the longest sleeper).  The library itself never calls notify_one;
        // this only matters for changed code under test.
        int c = 0;
        if (vs::active()) c = vs::S().visible(vs::K_NOTIFY_ONE, this);
        if (!sleepers.empty()) sleepers.erase(sleepers.begin() + (c % (int)sleepers.size()));
        if (vs::active()) vs::S().emit(vs::K_NOTIFY_ONE, this, 0);
    }
    // returns true when the wake-up was a time-out.
    // Untimed wait: one wake step (notified or spurious, and the mutex is free) that re-acquires the mutex.
    // Timed wait: the outcome (time-out / notified / spurious) is decided in a first step that does not
    // need the mutex; the mutex is re-acquired in a second step (logged as K_LOCK on the mutex).  A time-out
    // can therefore fire while another thread is inside its critical section, as with a real condition variable.
    bool sleep_wake(::std::unique_lock<vstd::mutex>& lk, bool timed)
    {
        vstd::mutex* m = lk.mutex();
        int t = vs::Sched::self();
        vs::S().visible(vs::K_CV_SLEEP, this);  // atomically release + enqueue
        m->owner = -1;
        sleepers.push_back(t);
        vs::S().emit(vs::K_CV_SLEEP, this, 0);
        if (!timed) {
            vs::S().visible(vs::Pending{vs::K_CV_WAKE, this, [this, m, t](int ch) {
                                            bool notified = ::std::find(sleepers.begin(), sleepers.end(), t) == sleepers.end();
                                            return (notified || ch == vs::C_SPURIOUS) && m->owner == -1;
                                        }});
            sleepers.erase(::std::remove(sleepers.begin(), sleepers.end(), t), sleepers.end());
            m->owner = t;
            vs::S().emit(vs::K_CV_WAKE, this, 0);
            return false;
        }
        int c = vs::S().visible(vs::Pending{vs::K_CV_WAKE, this, [this, t](int ch) {
                                                bool notified = ::std::find(sleepers.begin(), sleepers.end(), t) == sleepers.end();
                                                return notified || ch == vs::C_SPURIOUS || ch == vs::C_TIMEOUT;
                                            }});
        bool notified = ::std::find(sleepers.begin(), sleepers.end(), t) == sleepers.end();
        bool timeout = !notified && c == vs::C_TIMEOUT;
        sleepers.erase(::std::remove(sleepers.begin(), sleepers.end(), t), sleepers.end());
        vs::S().emit(vs::K_CV_WAKE, this, timeout ? 1 : 0);
        vs::S().visible(vs::Pending{vs::K_LOCK, m, [m](int) { return m->owner == -1; }});
        m->owner = t;
        vs::S().emit(vs::K_LOCK, m, 0);
        return timeout;
    }
    void wait(::std::unique_lock<vstd::mutex>& lk) { sleep_wake(lk, false); }
    template<class P>
    void wait(::std::unique_lock<vstd::mutex>& lk, P p)
    {
        while (!p()) wait(lk);
    }
    template<class R, class Pd>
    cv_status wait_for(::std::unique_lock<vstd::mutex>& lk, const ::std::chrono::duration<R, Pd>&)
    {
        return sleep_wake(lk, true) ? cv_status::timeout : cv_status::no_timeout;
    }
    template<class R, class Pd, class P>
    bool wait_for(::std::unique_lock<vstd::mutex>& lk, const ::std::chrono::duration<R, Pd>& d, P p)
    {
        while (!p()) {
            if (wait_for(lk, d) == cv_status::timeout) return p();
        }
        return true;
    }
    template<class C, class D>
    cv_status wait_until(::std::unique_lock<vstd::mutex>& lk, const ::std::chrono::time_point<C, D>&)
    {
        return sleep_wake(lk, true) ? cv_status::timeout : cv_status::no_timeout;
    }
    template<class C, class D, class P>
    bool wait_until(::std::unique_lock<vstd::mutex>& lk, const ::std::chrono::time_point<C, D>& tp, P p)
    {
        while (!p()) {
            if (wait_until(lk, tp) == cv_status::timeout) return p();
        }
        return true;
    }
};

namespace this_thread {
    inline void yield() noexcept
    {
        if (!vs::active()) return;
        vs::S().visible(vs::K_YIELD, nullptr);
        vs::S().emit(vs::K_YIELD, nullptr, 0);
    }
    template<class R, class P>
    void sleep_for(const ::std::chrono::duration<R, P>&)
    {
        if (!vs::active()) return;
        vs::S().visible(vs::K_SLEEP, nullptr);
        vs::S().emit(vs::K_SLEEP, nullptr, 0);
    }
    template<class C, class D>
    void sleep_until(const ::std::chrono::time_point<C, D>&)
    {
        if (!vs::active()) return;
        vs::S().visible(vs::K_SLEEP, nullptr);
        vs::S().emit(vs::K_SLEEP, nullptr, 0);
    }
    inline ::std::thread::id get_id() noexcept { return ::std::this_thread::get_id(); }
}  // namespace this_thread
}  // namespace vstd
