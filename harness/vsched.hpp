// Deterministic baton-passing scheduler for the correspondence check.
// Client threads are real std::threads run strictly one at a time; every
// instrumented operation (see vstd.hpp) announces itself with visible(), parks,
// and is executed when the scheduler selects its thread and it is enabled.
#pragma once
#include <bits/stdc++.h>
#include <sys/wait.h>
#include <unistd.h>
#include "events.h"

namespace vs {
struct Pending {
    int kind = -1;
    const void* obj = nullptr;
    std::function<bool(int)> enabled = [](int) { return true; };
};
using Line = std::array<long, 5>;  // tid kind obj val mo   (kind==K_SKIP: only tid,kind)

struct Sched {
    std::mutex mu;
    std::condition_variable cv;
    int current = -1;  // -1: the scheduler owns the baton
    struct Th {
        Pending pend;
        bool finished = false;
        int choice = 0;
    };
    std::vector<Th> th;
    std::map<const void*, long> ids;
    std::vector<Line> log;
    long nextid = 1;

    static Sched*& inst()
    {
        static Sched* s = nullptr;
        return s;
    }
    static int& me()
    {
        static thread_local int t = -1;
        return t;
    }
    // id used in owner fields: scheduled threads 0.., the driver's main thread 1000
    static int self() { return me() < 0 ? 1000 : me(); }

    long id_of(const void* p)
    {
        if (p == nullptr) return 0;
        auto it = ids.find(p);
        if (it != ids.end()) return it->second;
        long n = nextid++;
        ids[p] = n;
        return n;
    }
    void emit(int kind, const void* obj, long val, int mo = MO_NA)
    {
        if (me() < 0) return;
        log.push_back(Line{me(), kind, id_of(obj), val, mo});
    }
    // emit with an explicit object number (e.g. payload ids chosen by the harness)
    void emit_id(int kind, long obj, long val, int mo = MO_NA)
    {
        if (me() < 0) return;
        log.push_back(Line{me(), kind, obj, val, mo});
    }
    // thread side: announce the next visible operation and park; returns the scheduler's choice
    int visible(Pending p)
    {
        int t = me();
        if (t < 0) return 0;  // driver main thread: not scheduled
        std::unique_lock<std::mutex> lk(mu);
        th[t].pend = std::move(p);
        current = -1;
        cv.notify_all();
        cv.wait(lk, [&] { return current == t; });
        return th[t].choice;
    }
    int visible(int kind, const void* obj) { return visible(Pending{kind, obj, [](int) { return true; }}); }
    void finish()
    {
        std::unique_lock<std::mutex> lk(mu);
        th[me()].finished = true;
        current = -1;
        cv.notify_all();
    }
    // scheduler side
    bool try_step(int t, int choice)
    {
        std::unique_lock<std::mutex> lk(mu);
        cv.wait(lk, [&] { return current == -1; });
        if (t < 0 || t >= (int)th.size() || th[t].finished || !th[t].pend.enabled(choice)) return false;
        th[t].choice = choice;
        current = t;
        cv.notify_all();
        cv.wait(lk, [&] { return current == -1; });
        return true;
    }
    bool all_finished()
    {
        std::unique_lock<std::mutex> lk(mu);
        for (auto& x : th)
            if (!x.finished) return false;
        return true;
    }
    bool all_parked()
    {
        std::unique_lock<std::mutex> lk(mu);
        if (current != -1) return false;
        for (auto& x : th)
            if (!x.finished && x.pend.kind == -1) return false;
        return true;
    }
};
inline Sched& S() { return *Sched::inst(); }
inline bool active() { return Sched::inst() != nullptr && Sched::me() >= 0; }
}  // namespace vs
