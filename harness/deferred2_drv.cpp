// correspondence driver for TWO deferred_guarded objects A and B of the same type deferred_guarded<VPay, M>
// (model: coq/Model/Deferred2Model.v = product of two copies of coq/Model/DeferredModel.v)
//
// cfg   : <mutex kind>      0 shared_timed_mutex, 1 shared_mutex, 2 timed_mutex, 3 mutex   (no throw plan)
// ops   : c ...      with c in 0..11 : operation c of harness/deferred_drv.cpp on object A
//         20+c ...                   : the same operation on object B
//         12 fid fid2        A.modify_detach(nested functor): user_call(fid); B.modify_detach(functor fid2); x.write(16 x + fid)
//         13 fid fid2        A.modify_detach(nested functor) whose inner submission is B.modify_async(functor fid2) (future dropped)
//         14 fid fid2 slot   futuresA[slot] = A.modify_async(nested functor, inner B.modify_detach)
//         15 fid fid2 slot   futuresA[slot] = A.modify_async(nested functor, inner B.modify_async)
//         16..19             as 12..15, but the nested functor re-submits to A ITSELF (A.modify_detach / A.modify_async
//                            from inside a modification function of A)
// A modification function applied to A that submits a modification to ANOTHER object of the same type: the
// submission must go through B's own try-lock / queue (C02: no modification of B while a shared handle on B lives).
#include "vstd.hpp"
#include "vpay.hpp"
#define std vstd
#define private public  // harness-side only: final() peeks at the state without events
#include "gmlc/libguarded/deferred_guarded.hpp"
#undef private
#undef std
#define VS_OWN_OPERATOR_NEW
#include "driver.hpp"

// see harness/deferred_drv.cpp: frees done by client threads are postponed to the end of the case so that the
// addresses (= object ids in the trace) of task-runner mutexes are not reused inside a case
namespace quarantine {
constexpr size_t CAP = 1 << 16;
static void* held[CAP];
static size_t count = 0;
inline void release_all()
{
    for (size_t i = 0; i < count; ++i) std::free(held[i]);
    count = 0;
}
}  // namespace quarantine
void* operator new(std::size_t n)
{
    void* p = std::malloc(n ? n : 1);
    if (p == nullptr) throw std::bad_alloc();
    return p;
}
void* operator new[](std::size_t n) { return operator new(n); }
void operator delete(void* p) noexcept
{
    if (p == nullptr) return;
    if (vs::active() && quarantine::count < quarantine::CAP) {
        quarantine::held[quarantine::count++] = p;
        return;
    }
    std::free(p);
}
void operator delete[](void* p) noexcept { operator delete(p); }
void operator delete(void* p, std::size_t) noexcept { operator delete(p); }
void operator delete[](void* p, std::size_t) noexcept { operator delete(p); }

namespace {
// The payload: vs::VPay plus a recognisable initializer_list constructor (JSON-like / vector<any>-like types have
// one).  List-initialisation from a payload - `T newObj{*handle}` instead of `T newObj(*handle)` - selects it, and
// the new object is then a one-element WRAPPER, not a copy of the stored value: reported as K_FAULT code 9, the
// value is the sentinel -9999.  Nothing in the unmodified library or in this driver list-initialises a payload
// from a payload (the explicit VPay(long) keeps `T{n}` away from it), so it is never selected on the unchanged tree.
struct VPay: vs::VPay {
    explicit VPay(long x): vs::VPay(x) {}
    VPay(const VPay&) = default;
    VPay(VPay&&) = default;
    VPay(std::initializer_list<VPay> il): vs::VPay(-9999L)
    {
        (void)il;
        vs::fault(this, 9);
    }
};

struct IInst {
    virtual ~IInst() = default;
    virtual long op(int tid, const std::vector<long>& o) = 0;
    virtual void final(std::vector<std::vector<long>>& out) = 0;
};

template<class M>
struct mutex_traits {
    static constexpr bool timed = false;
    static long sharers(const M&) { return 0; }
};
template<>
struct mutex_traits<vstd::timed_mutex> {
    static constexpr bool timed = true;
    static long sharers(const vstd::timed_mutex&) { return 0; }
};
template<>
struct mutex_traits<vstd::shared_mutex> {
    static constexpr bool timed = false;
    static long sharers(const vstd::shared_mutex& m) { return (long)m.sharers.size(); }
};
template<>
struct mutex_traits<vstd::shared_timed_mutex> {
    static constexpr bool timed = true;
    static long sharers(const vstd::shared_timed_mutex& m) { return (long)m.sharers.size(); }
};

inline long apply_f(long fid, long v) { return fid < 100 ? v * 16 + fid : fid; }
// the pending flag without an event, whatever its type (instrumented atomic, or a plain bool after a change)
template<class F>
auto peek_flag(const F& f, int) -> decltype(f.vs_peek(), true)
{
    return f.vs_peek();
}
template<class F>
bool peek_flag(const F& f, long)
{
    return static_cast<bool>(f);
}
// the plain functor of harness/deferred_drv.cpp
inline long apply_plain(VPay& x, long fid)
{
    vs::user_call(fid);
    long v = apply_f(fid, x.read());
    x.write(v);
    return v;
}

template<class M>
struct Inst: IInst {
    using DG = gmlc::libguarded::deferred_guarded<VPay, M>;
    using Handle = typename DG::shared_handle;
    DG A, B;
    // per-object, per-thread tables; declared after the objects so that they are destroyed first
    std::vector<std::map<long, std::unique_ptr<Handle>>> handles[2];
    std::vector<std::map<long, std::future<long>>> futures[2];

    explicit Inst(int nthreads): A(0L), B(0L)
    {
        for (int i = 0; i < 2; ++i) {
            handles[i].resize(nthreads);
            futures[i].resize(nthreads);
        }
    }

    template<class F>
    long acquire(int obj, int tid, long h, F&& f)
    {
        auto& tab = handles[obj][tid];
        if (tab.count(h) != 0) return -1;
        tab[h] = std::unique_ptr<Handle>(new Handle(f()));
        return (bool)(*tab[h]) ? 1 : 0;
    }

    // operations 0..11 on one object (identical to harness/deferred_drv.cpp)
    long plain_op(DG& dg, int obj, int tid, long code, const std::vector<long>& o)
    {
        switch (code) {
            case 0: {
                long fid = o[1];
                dg.modify_detach([fid](VPay& x) { apply_plain(x, fid); });
                return 0;
            }
            case 1: {
                long fid = o[1];
                std::future<long> fut = dg.modify_async([fid](VPay& x) -> long { return apply_plain(x, fid); });
                futures[obj][tid][o[2]] = std::move(fut);
                return 0;
            }
            case 2: return acquire(obj, tid, o[1], [&] { return dg.lock_shared(); });
            case 3: return acquire(obj, tid, o[1], [&] { return dg.try_lock_shared(); });
            case 4:
                if constexpr (mutex_traits<M>::timed) {
                    {
                    // optional third argument (ignored by the model): 1 = zero duration, 2 = negative duration
                    const long z = o.size() > 2 ? o[2] : 0;
                    const auto d = std::chrono::milliseconds(z == 1 ? 0 : (z == 2 ? -5 : 1));
                    return acquire(obj, tid, o[1], [&] { return dg.try_lock_shared_for(d); });
                }
                } else {
                    return -1;
                }
            case 5:
                if constexpr (mutex_traits<M>::timed) {
                    {
                    // optional third argument (ignored by the model): 1 = default-constructed (epoch) deadline, 2 = now - 1 h
                    const long z = o.size() > 2 ? o[2] : 0;
                    const auto now = std::chrono::steady_clock::now();
                    const auto tp = z == 1 ? std::chrono::steady_clock::time_point{}
                                           : (z == 2 ? now - std::chrono::hours(1) : now + std::chrono::milliseconds(1));
                    return acquire(obj, tid, o[1], [&] { return dg.try_lock_shared_until(tp); });
                }
                } else {
                    return -1;
                }
            case 6: {
                auto it = handles[obj][tid].find(o[1]);
                if (it == handles[obj][tid].end() || !(bool)(*it->second)) return -1;
                return (*it->second)->read();
            }
            case 7: {
                auto it = handles[obj][tid].find(o[1]);
                if (it == handles[obj][tid].end()) return -1;
                return (bool)(*it->second) ? 1 : 0;
            }
            case 8: {
                auto it = handles[obj][tid].find(o[1]);
                if (it == handles[obj][tid].end()) return -1;
                handles[obj][tid].erase(it);
                return 0;
            }
            case 9: return dg.load().peek();
            case 10: {
                auto it = futures[obj][tid].find(o[1]);
                if (it == futures[obj][tid].end()) return -1;
                return it->second.wait_for(std::chrono::seconds(0)) == std::future_status::ready ? 1 : 0;
            }
            case 11: {
                auto it = futures[obj][tid].find(o[1]);
                if (it == futures[obj][tid].end()) return -1;
                if (it->second.wait_for(std::chrono::seconds(0)) != std::future_status::ready) return -2;
                long r;
                try {
                    r = it->second.get();
                }
                catch (const vs::VThrow&) {
                    r = -3;
                }
                catch (...) {
                    r = -4;
                }
                futures[obj][tid].erase(it);
                return r;
            }
        }
        return -9;
    }

    // the nested modification function of A: between its user_call and its payload access it submits a
    // modification to B (through B's public interface, as any client code would)
    long apply_nested(VPay& x, long fid, long fid2, bool inner_async, bool self)
    {
        vs::user_call(fid);
        DG& target = self ? A : B;
        if (inner_async) {
            (void)target.modify_async([fid2](VPay& y) -> long { return apply_plain(y, fid2); });
        } else {
            target.modify_detach([fid2](VPay& y) { apply_plain(y, fid2); });
        }
        long v = apply_f(fid, x.read());
        x.write(v);
        return v;
    }

    long op(int tid, const std::vector<long>& o) override
    {
        long c = o[0];
        if (c >= 0 && c <= 11) return plain_op(A, 0, tid, c, o);
        if (c >= 20 && c <= 31) return plain_op(B, 1, tid, c - 20, o);
        const bool self = (c >= 16 && c <= 19);
        if (self) c -= 4;
        if (c == 12 || c == 13) {
            long fid = o[1], fid2 = o[2];
            bool ia = (c == 13);
            A.modify_detach([this, fid, fid2, ia, self](VPay& x) { apply_nested(x, fid, fid2, ia, self); });
            return 0;
        }
        if (c == 14 || c == 15) {
            long fid = o[1], fid2 = o[2];
            bool ia = (c == 15);
            std::future<long> fut =
                A.modify_async([this, fid, fid2, ia, self](VPay& x) -> long { return apply_nested(x, fid, fid2, ia, self); });
            futures[0][tid][o[3]] = std::move(fut);
            return 0;
        }
        return -9;
    }

    void final(std::vector<std::vector<long>>& out) override
    {
#ifndef VS_NO_PEEK
        for (DG* dg : {&A, &B}) {
            out.push_back({dg->m_obj.peek(), peek_flag(dg->m_pendingWrites, 0) ? 1L : 0L, (long)dg->m_pendingList.m_obj.size(),
                           dg->m_mutex.owner == -1 ? 1L : 0L, mutex_traits<M>::sharers(dg->m_mutex)});
        }
#endif
    }
};
}  // namespace

struct Deferred2Comp {
    std::unique_ptr<IInst> inst;
    explicit Deferred2Comp(const vs::Case& c)
    {
        long mk = c.cfg.empty() ? 0 : c.cfg[0];
        vs::plan().reset({});
        int n = (int)c.progs.size();
        switch (mk) {
            case 1: inst.reset(new Inst<vstd::shared_mutex>(n)); break;
            case 2: inst.reset(new Inst<vstd::timed_mutex>(n)); break;
            case 3: inst.reset(new Inst<vstd::mutex>(n)); break;
            default: inst.reset(new Inst<vstd::shared_timed_mutex>(n)); break;
        }
    }
    ~Deferred2Comp()
    {
        inst.reset();
        quarantine::release_all();
    }
    long op(int tid, const std::vector<long>& o) { return inst->op(tid, o); }
    void final(std::vector<std::vector<long>>& out) { inst->final(out); }
};
int main(int argc, char** argv) { return vs::drive<Deferred2Comp>(argc, argv); }
