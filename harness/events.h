// Event-kind code table; must agree with coq/Common/Events.v and lib/events.py
#pragma once
namespace vs {
enum Kind : int {
    K_INVOKE = 0, K_RET = 1,
    K_LOAD = 2, K_STORE = 3, K_RMW = 4, K_CAS_OK = 5, K_CAS_FAIL = 6, K_XCHG = 7,
    K_LOCK = 10, K_UNLOCK = 11, K_TRYLOCK = 12, K_LOCK_SH = 13, K_UNLOCK_SH = 14, K_TRYLOCK_SH = 15,
    K_TRYLOCK_FOR = 16, K_TRYLOCK_SH_FOR = 17,
    K_CV_SLEEP = 20, K_CV_WAKE = 21, K_NOTIFY_ALL = 22, K_NOTIFY_ONE = 23,
    K_RD_BEGIN = 30, K_RD_END = 31, K_WR_BEGIN = 32, K_WR_END = 33,
    K_CALL = 40, K_THROW = 41, K_CATCH = 42,
    K_ALLOC = 50, K_CONSTRUCT = 51, K_DESTROY = 52, K_DEALLOC = 53,
    K_YIELD = 60, K_SLEEP = 61,
    K_FAULT = 90,
    K_SKIP = 99,
    K_PTR = 100
};
constexpr int MO_NA = -1;
// choices
constexpr int C_NONE = 0, C_SPURIOUS = 1, C_TIMEOUT = 2, C_WEAKFAIL = 3;
}  // namespace vs
