// correspondence driver for gmlc/libguarded/rcu_list.hpp + rcu_guarded.hpp  (model: coq/Model/RcuModel.v)
//
// ops (first int = op code):  0 LockRead | 1 LockWrite | 2 Begin it | 3 Next it | 4 Deref it | 5 IsEnd it
//   | 6 PushFront v | 7 PushBack v | 8 EmplaceFront v | 9 EmplaceBack v | 10 Erase it | 11 Release
//   | 12 BeginFail it | 13 PushFail v | 14 EraseFail it  (the first allocation inside the call throws std::bad_alloc,
//     logged K_THROW 2 at the allocate call; the driver logs K_CATCH 0)
// One handle per thread at a time, any number of iterator slots; Next / Deref / Erase on an
// iterator equal to end() do nothing; a nonsensical op is skipped with K_FAULT 9 (as in the model).
// A push / emplace of a NEGATIVE value makes the element constructor throw inside construct() (K_CALL 1,
// K_THROW 0; the exception leaves the list operation and is logged as K_CATCH 0 by the driver).
// ~rcu_list runs in final() on the main thread when every thread has finished; its allocator
// calls are printed as final lines "-2 <kind> <cell number>".
#include "vstd.hpp"
#include "rcu_extra.hpp"
#include <optional>
#define std vstd2
#ifndef VS_NO_PEEK
#define private public  // harness-side only: final() peeks at m_head / m_obj without events (VS_NO_PEEK: no contents line)
#endif
#include "gmlc/libguarded/rcu_list.hpp"
#undef private
#undef std
#include "driver.hpp"

using vs::rcu::Elem;
using vs::rcu::TrivElem;

struct IRcu {
    virtual ~IRcu() = default;
    virtual long op(int tid, const std::vector<long>& o) = 0;
    virtual void final(std::vector<std::vector<long>>& out) = 0;
};

// cfg = [unfixed (model only), element kind: 0 = Elem (owns a std::string), 1 = TrivElem (trivially destructible),
//        write mutex: 0 = std::mutex, 1 = std::timed_mutex (used through lock_guard it behaves as a plain mutex)]
template<class E, class M>
struct RcuImpl: IRcu {
    using List = gmlc::libguarded::rcu_list<E, M, vs::rcu::VAlloc<E>>;
    using Guarded = gmlc::libguarded::rcu_guarded<List>;
    struct Th {
        std::optional<typename Guarded::read_handle> rh;
        std::optional<typename Guarded::write_handle> wh;
        std::map<long, typename List::const_iterator> its;
        long nops = 0;  // the way the handle is dereferenced alternates: h->f() / (*h).f() (both register on first use)
    };
    std::unique_ptr<Guarded> g;
    std::vector<Th> th;
    explicit RcuImpl(const vs::Case& c): th(c.progs.size())
    {
        vs::rcu::reg().reset();
        g.reset(new Guarded());
    }
    static long misuse()
    {
        vs::S().emit(vs::K_FAULT, nullptr, 9);
        return 0;
    }
    long op(int tid, const std::vector<long>& o) override
    {
        Th& me = th[tid];
        const typename List::end_iterator end{};
        long a = o.size() > 1 ? o[1] : 0;
        long code = o[0];
        // 12 BeginFail it | 13 PushFail v | 14 EraseFail it: the same calls with the first allocation failing
        vs::rcu::FailNext arm(code >= 12 && code <= 14);
        if (code == 12) code = 2;
        if (code == 13) code = 7;
        if (code == 14) code = 10;
        bool star = ((me.nops++ + tid) & 1) != 0;
        switch (code) {
            case 0:
                if (me.rh || me.wh) return misuse();
                me.rh.emplace(g->lock_read());
                return 0;
            case 1:
                if (me.rh || me.wh) return misuse();
                me.wh.emplace(g->lock_write());
                return 0;
            case 2:
                if (me.rh)
                    me.its.insert_or_assign(a, star ? (*(*me.rh)).begin() : (*me.rh)->begin());
                else if (me.wh)
                    me.its.insert_or_assign(a, typename List::const_iterator(star ? (*(*me.wh)).begin() : (*me.wh)->begin()));
                else
                    return misuse();
                return 0;
            case 3: {
                auto it = me.its.find(a);
                if (it == me.its.end()) return misuse();
                if (it->second != end) ++it->second;
                return 0;
            }
            case 4: {
                auto it = me.its.find(a);
                if (it == me.its.end()) return misuse();
                if (it->second == end) return -1;
                return (*it->second).read();
            }
            case 5: {
                auto it = me.its.find(a);
                if (it == me.its.end()) return misuse();
                return it->second == end ? 1 : 0;
            }
            case 6:
                if (!me.wh) return misuse();
                if (a < 0) (*me.wh)->emplace_front(a);  // the throwing constructor is Elem(long): reached through emplace (the move constructor is noexcept)
                else if (star) (*(*me.wh)).push_front(E(typename E::Quiet{}, a)); else (*me.wh)->push_front(E(typename E::Quiet{}, a));
                return 0;
            case 7:
                if (!me.wh) return misuse();
                if (a < 0) (*me.wh)->emplace_back(a);
                else if (star) (*(*me.wh)).push_back(E(typename E::Quiet{}, a)); else (*me.wh)->push_back(E(typename E::Quiet{}, a));
                return 0;
            case 8:
                if (!me.wh) return misuse();
                if (star) {  // an LVALUE argument with a destructive move: emplace must forward it as an lvalue (copy)
                    typename E::ESrc src{a};
                    (*me.wh)->emplace_front(src);
                    if (src.stolen) vs::S().emit(vs::K_FAULT, nullptr, 5);
                } else {
                    (*me.wh)->emplace_front(a);
                }
                return 0;
            case 9:
                if (!me.wh) return misuse();
                if (star) {  // an LVALUE argument with a destructive move: emplace must forward it as an lvalue (copy)
                    typename E::ESrc src{a};
                    (*me.wh)->emplace_back(src);
                    if (src.stolen) vs::S().emit(vs::K_FAULT, nullptr, 5);
                } else {
                    (*me.wh)->emplace_back(a);
                }
                return 0;
            case 10: {
                auto it = me.its.find(a);
                if (!me.wh || it == me.its.end()) return misuse();
                if (it->second == end) return 0;
                it->second = typename List::const_iterator((*me.wh)->erase(it->second));
                return 0;
            }
            case 11:
                if (!me.rh && !me.wh) return misuse();
                me.rh.reset();
                me.wh.reset();
                me.its.clear();
                return 0;
        }
        return 0;
    }
    void final(std::vector<std::vector<long>>& out) override
    {
        if (!vs::S().all_finished()) {
            out.push_back({-4});
            return;
        }
        std::vector<long> vals{-3};
        size_t fuel = vs::rcu::reg().cells.size() + 1;
#ifndef VS_NO_PEEK
        for (auto* n = g->m_obj.m_head.vs_peek(); n != nullptr && fuel > 0; n = n->next.vs_peek(), --fuel)
            vals.push_back(n->data.v);
        out.push_back(vals);
#else
        (void)fuel;
#endif
        for (auto& t : th) t.its.clear();
        g.reset();  // ~rcu_list
        for (auto& l : vs::rcu::reg().side) out.push_back(l);
        long nf = 0;
        for (auto& c : vs::rcu::reg().cells) nf += c.state != vs::rcu::ST_FREED;
        out.push_back({-1, (long)vs::rcu::reg().cells.size(), nf, vs::rcu::reg().faults > 0 ? 1 : 0});
    }
};
struct RcuComp {
    std::unique_ptr<IRcu> p;
    explicit RcuComp(const vs::Case& c)
    {
        bool triv = c.cfg.size() > 1 && c.cfg[1] == 1;
        bool timed = c.cfg.size() > 2 && c.cfg[2] == 1;
        if (triv && timed)
            p.reset(new RcuImpl<TrivElem, vstd::timed_mutex>(c));
        else if (triv)
            p.reset(new RcuImpl<TrivElem, vstd::mutex>(c));
        else if (timed)
            p.reset(new RcuImpl<Elem, vstd::timed_mutex>(c));
        else
            p.reset(new RcuImpl<Elem, vstd::mutex>(c));
    }
    long op(int tid, const std::vector<long>& o) { return p->op(tid, o); }
    void final(std::vector<std::vector<long>>& out) { p->final(out); }
};
// UBSan's fatal path does not run the ASan death callback that driver.hpp installs, so the trace of a run
// that ends in a UBSan report would be lost; make it abort() instead: the driver's SIGABRT handler flushes
// the log (the environment's UBSAN_OPTIONS only overrides the flags it names).
// __ubsan_default_options is now provided by driver.hpp
int main(int argc, char** argv) { return vs::drive<RcuComp>(argc, argv); }
