// correspondence driver for gmlc/concurrency/SearchableObjectHolder.hpp  (model: coq/Model/SOHModel.v)
//
// cfg  = the throw plan: global indices (0-based) of the predicate invocations that throw.
// ops  : 0 n v        addObject(name n, make_shared<Pay>(v))            -> bool
//        1 n v ty     addObject(n, make_shared<Pay>(v), ty)             -> bool
//        2 n ty       addType(n, ty)                                    -> 0
//        3 n          removeObject(n)                                   -> bool
//        4 k          removeObject([k](p){ value == k })                -> bool
//        5 a b        copyObject(a, b)                                  -> bool
//        6 n s        slot[s] = findObject(n)                           -> object id (0 = null)
//        7 k s        slot[s] = findObject(pred k)                      -> object id
//        8 k ty s     slot[s] = findObject(pred k, ty)                  -> object id
//        9 n ty       checkObjectType(n, ty)                            -> bool
//        10           getObjects()                                      -> ids in key order, base 32
//        11           empty()                                           -> bool
//        12 s         slot[s].reset()                                   -> 0
//        13 s         slot[s] ? slot[s]->value : -1
//        14 n s       slot[s] ? addObject(n, slot[s]) : -1            the client adds an object it already holds
//        15 n s ty    slot[s] ? addObject(n, slot[s], ty) : -1
// Every predicate calls vs::user_call(id of the visited object) before testing it.
// shared_ptr instances are vstd::shared_ptr (soh_extra.hpp): a copy is a read window on its source, the
// destruction of a non-empty instance a write window; client-side reset / move assignment are silent.
#include "vstd.hpp"
#include "vpay.hpp"
#include "soh_extra.hpp"  // vstd::shared_ptr: copies / destructions of shared_ptr instances are visible
#define std vstd
#ifndef VS_NO_PEEK
#define private public  // harness-side only: lets final() read the maps without events.  VS_NO_PEEK (search after a change
                        // that renames a field): final() prints only the harness ledger and the marker line `8`
#endif
#include "gmlc/concurrency/SearchableObjectHolder.hpp"
#undef private
#undef std
#include "driver.hpp"

namespace {
struct Ledger {
    long live = 0;
    std::vector<char> destroyed;  // by object id
};
struct Pay {
    const long id;
    const long value;
    Ledger* led;
    Pay(long i, long v, Ledger* l): id(i), value(v), led(l)
    {
        ++led->live;
        if ((long)led->destroyed.size() <= id) led->destroyed.resize(id + 1, 0);
    }
    Pay(const Pay&) = delete;
    ~Pay()
    {
        --led->live;
        led->destroyed[id] = 1;
    }
};
using Ptr = vstd::shared_ptr<Pay>;
using Pred = std::function<bool(const Ptr&)>;
std::string nm(long n) { return "n" + std::to_string(1000 + n); }  // order of names = order of numbers
long unnm(const std::string& s) { return std::stol(s.substr(1)) - 1000; }
// final-state lines `2 name tag...` for whatever container holds the tags: a map name -> sequence of tags, or a
// multimap with one (name, tag) node per tag
template<class M>
void peek_tags(const M& m, std::vector<std::vector<long>>& out)
{
    using V = typename M::mapped_type;
    if constexpr (std::is_arithmetic_v<V> || std::is_enum_v<V>) {
        for (auto& kv : m) {
            const long n = unnm(kv.first);
            if (!out.empty() && out.back().size() >= 2 && out.back()[0] == 2 && out.back()[1] == n)
                out.back().push_back((long)kv.second);
            else
                out.push_back({2, n, (long)kv.second});
        }
    } else {
        for (auto& kv : m) {
            std::vector<long> l{2, unnm(kv.first)};
            for (auto& t : kv.second) l.push_back((long)t);
            out.push_back(l);
        }
    }
}
}  // namespace

struct SohComp {
    Ledger led;  // declared first: outlives the holder and the slots
    std::vector<std::weak_ptr<Pay>> all;  // by object id - 1
    long next_id = 1;
    gmlc::concurrency::SearchableObjectHolder<Pay, int> holder;
    std::vector<std::array<Ptr, 2>> slots;
    std::vector<std::array<long, 2>> slot_ids;  // harness-side record of what each slot was given

    explicit SohComp(const vs::Case& c): slots(c.progs.size()), slot_ids(c.progs.size(), std::array<long, 2>{0, 0})
    {
        vs::plan().reset(c.cfg);
        vs::ptrreg().reset();
    }

    Ptr make(long v)
    {
        Ptr p(std::make_shared<Pay>(next_id++, v, &led));
        all.emplace_back(p);
        return p;
    }
    static Pred pred(long k)
    {
        return [k](const Ptr& p) {
            vs::user_call(p->id);
            return p->value == k;
        };
    }
    static long idof(const Ptr& p) { return p ? p->id : 0; }

    long op(int tid, const std::vector<long>& o)
    {
        auto& sl = slots[tid];
        auto& si = slot_ids[tid];
        switch (o[0]) {
            case 0: return holder.addObject(nm(o[1]), make(o[2]));
            case 1: return holder.addObject(nm(o[1]), make(o[2]), (int)o[3]);
            case 2: holder.addType(nm(o[1]), (int)o[2]); return 0;
            case 3: return holder.removeObject(nm(o[1]));
            case 4: return holder.removeObject(pred(o[1]));
            case 5: return holder.copyObject(nm(o[1]), nm(o[2]));
            case 6: {
                Ptr& s = sl[o[2] & 1];
                s = holder.findObject(nm(o[1]));
                return si[o[2] & 1] = idof(s);
            }
            case 7: {
                Ptr& s = sl[o[2] & 1];
                s = holder.findObject(pred(o[1]));
                return si[o[2] & 1] = idof(s);
            }
            case 8: {
                Ptr& s = sl[o[3] & 1];
                s = holder.findObject(pred(o[1]), (int)o[2]);
                return si[o[3] & 1] = idof(s);
            }
            case 9: return holder.checkObjectType(nm(o[1]), (int)o[2]);
            case 10: {
                long r = 0;
                auto objs = holder.getObjects();
                for (auto& p : objs) {
                    r = r * 32 + idof(p);
                    p.reset();  // the client lets go of each copy (silent); the vector then dies empty
                }
                return r;
            }
            case 11: return holder.empty();
            case 12:
                sl[o[1] & 1].reset();
                si[o[1] & 1] = 0;
                return 0;
            case 13: {
                Ptr& s = sl[o[1] & 1];
                return s ? s->value : -1;
            }
            case 14:
            case 15: {
                Ptr& s = sl[o[2] & 1];
                if (!s) return -1;
                // the argument: a copy of the client's own pointer, made through the base class (the slot is the
                // client's private instance: no window)
                Ptr arg(static_cast<const std::shared_ptr<Pay>&>(s));
                return o[0] == 14 ? holder.addObject(nm(o[1]), std::move(arg)) : holder.addObject(nm(o[1]), std::move(arg), (int)o[3]);
            }
        }
        return 0;
    }
    void final(std::vector<std::vector<long>>& out)
    {
#ifndef VS_NO_PEEK
        out.push_back({0, led.live, holder.mapLock.owner == -1 ? -1L : (long)holder.mapLock.owner, vs::plan().calls});
        for (auto& kv : holder.objectMap) out.push_back({1, unnm(kv.first), idof(kv.second), kv.second ? kv.second->value : 0});
        peek_tags(holder.typeMap, out);
#else
        out.push_back({0, led.live, -1L, vs::plan().calls});
        out.push_back({8});  // the maps were not read
#endif
        for (size_t i = 0; i < all.size(); ++i) {
            long uc = all[i].use_count();
            if (uc > 0) out.push_back({3, (long)i + 1, uc});
        }
        // ledger line for the monitors (not part of the model): a client slot that holds a destroyed object
        for (size_t t = 0; t < slots.size(); ++t)
            for (int s = 0; s < 2; ++s)
                if (slot_ids[t][s] != 0 && led.destroyed[slot_ids[t][s]]) out.push_back({9, (long)t, s, slot_ids[t][s]});
    }
};
int main(int argc, char** argv) { return vs::drive<SohComp>(argc, argv); }
