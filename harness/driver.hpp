// Generic case reader + case runner (one forked child per run of cases).
//
// Case file:
//   case <id>
//   cfg <int>...
//   thread <int>... ; <int>... ; ...        one line per thread, ops separated by ';'
//   sched <tid>:<choice> ...
//   end
//
// Output (stdout), per case:
//   CASE <id>
//   <tid> <kind> <obj> <val> <mo>       one line per event   |   <tid> 99   (SKIP)
//   -1 <verdict>                         0 done, 1 deadlock, 2 fuel, 3 crash
//   -2 ...                               component-specific final-state lines
//
// A component type C provides:
//   explicit C(const vs::Case&);               built on the driver thread before the client threads exist
//   long op(int tid, const std::vector<long>&); one API operation, run on client thread tid; result goes to K_RET
//   void final(std::vector<std::vector<long>>&); final-state lines (must not block)
#pragma once
#include "vsched.hpp"
#include "vpay.hpp"

#if defined(__SANITIZE_ADDRESS__)
extern "C" void __sanitizer_set_death_callback(void (*)(void));
#endif

// UBSan's fatal path does not run the ASan death callback: make it abort() so that the SIGABRT handler
// below flushes the trace of the crashing case (a driver that defines its own copy sets VS_OWN_UBSAN_OPTIONS)
#ifndef VS_OWN_UBSAN_OPTIONS
extern "C" const char* __ubsan_default_options() { return "abort_on_error=1"; }
#endif

// Heap poisoning: fresh storage from the global operator new is filled with a non-zero pattern, so that a member a
// change leaves uninitialised (an atomic flag or counter, a default-initialised array of flags) does not happen to
// read as 0 / false in a young process.  Not under ASan (it has its own allocator and fill) and not when the driver
// brings its own replacement (VS_OWN_OPERATOR_NEW).
#if !defined(__SANITIZE_ADDRESS__) && !defined(VS_OWN_OPERATOR_NEW)
inline void* vs_poisoned_alloc(std::size_t n)
{
    void* p = std::malloc(n ? n : 1);
    if (p == nullptr) throw std::bad_alloc();
    std::memset(p, 0xA5, n);
    return p;
}
void* operator new(std::size_t n) { return vs_poisoned_alloc(n); }
void* operator new[](std::size_t n) { return vs_poisoned_alloc(n); }
void operator delete(void* p) noexcept { std::free(p); }
void operator delete[](void* p) noexcept { std::free(p); }
void operator delete(void* p, std::size_t) noexcept { std::free(p); }
void operator delete[](void* p, std::size_t) noexcept { std::free(p); }
inline void* vs_poisoned_alloc(std::size_t n, std::align_val_t a)
{
    std::size_t al = static_cast<std::size_t>(a);
    void* p = std::aligned_alloc(al, ((n ? n : 1) + al - 1) / al * al);
    if (p == nullptr) throw std::bad_alloc();
    std::memset(p, 0xA5, n);
    return p;
}
void* operator new(std::size_t n, std::align_val_t a) { return vs_poisoned_alloc(n, a); }
void* operator new[](std::size_t n, std::align_val_t a) { return vs_poisoned_alloc(n, a); }
void operator delete(void* p, std::align_val_t) noexcept { std::free(p); }
void operator delete[](void* p, std::align_val_t) noexcept { std::free(p); }
void operator delete(void* p, std::size_t, std::align_val_t) noexcept { std::free(p); }
void operator delete[](void* p, std::size_t, std::align_val_t) noexcept { std::free(p); }
#endif

namespace vs {
struct Case {
    long id = 0;
    std::vector<long> cfg;
    std::vector<std::vector<std::vector<long>>> progs;
    std::vector<std::pair<int, int>> sched;
};

inline std::vector<Case> parse_cases(const char* path)
{
    std::ifstream in(path);
    std::vector<Case> cases;
    std::string line;
    Case cur;
    while (std::getline(in, line)) {
        std::stringstream ss(line);
        std::string w;
        if (!(ss >> w)) continue;
        if (w == "case") {
            cur = Case{};
            ss >> cur.id;
        } else if (w == "cfg") {
            long x;
            while (ss >> x) cur.cfg.push_back(x);
        } else if (w == "thread") {
            std::vector<std::vector<long>> prog;
            std::vector<long> op;
            std::string tok;
            while (ss >> tok) {
                if (tok == ";") {
                    if (!op.empty()) prog.push_back(op);
                    op.clear();
                } else {
                    op.push_back(std::stol(tok));
                }
            }
            if (!op.empty()) prog.push_back(op);
            cur.progs.push_back(prog);
        } else if (w == "sched") {
            std::string tc;
            while (ss >> tc) {
                auto p = tc.find(':');
                cur.sched.emplace_back(std::stoi(tc.substr(0, p)), std::stoi(tc.substr(p + 1)));
            }
        } else if (w == "end") {
            cases.push_back(cur);
        }
    }
    return cases;
}

constexpr int TAIL_FUEL = 4000;  // must equal Sched.tail_fuel

// state of the case being run, reachable from the crash callback
struct Running {
    Sched* sched = nullptr;
    long id = -1;
    size_t printed = 0;
    int progress_fd = -1;
    size_t index = 0;
};
inline Running& running()
{
    static Running r;
    return r;
}
inline void write_all(int fd, const std::string& s)
{
    size_t off = 0;
    while (off < s.size()) {
        ssize_t n = ::write(fd, s.data() + off, s.size() - off);
        if (n <= 0) break;
        off += (size_t)n;
    }
}
inline std::string fmt_lines(const std::vector<Line>& log, size_t from)
{
    std::string out;
    char b[160];
    for (size_t i = from; i < log.size(); ++i) {
        const Line& l = log[i];
        if (l[1] == K_SKIP)
            std::snprintf(b, sizeof b, "%ld 99\n", l[0]);
        else
            std::snprintf(b, sizeof b, "%ld %ld %ld %ld %ld\n", l[0], l[1], l[2], l[3], l[4]);
        out += b;
    }
    return out;
}
inline void report_progress(size_t next_index)
{
    Running& r = running();
    if (r.progress_fd >= 0) {
        if (::write(r.progress_fd, &next_index, sizeof next_index) < 0) {}
    }
}
inline void crash_flush()
{
    Running& r = running();
    if (r.sched == nullptr) return;
    std::string out = fmt_lines(r.sched->log, r.printed);
    out += "-1 3\n";
    write_all(1, out);
    report_progress(r.index + 1);
    r.sched = nullptr;
}
inline void crash_signal(int sig)
{
    crash_flush();
    std::_Exit(128 + sig);
}

template<class C>
void run_one(const Case& cs, size_t index)
{
    ::alarm(30);  // watchdog: a case that hangs between two visible operations kills the child
    Sched sched;
    Sched::inst() = &sched;
    const int n = (int)cs.progs.size();
    sched.th.resize(n);
    Running& r = running();
    r.sched = &sched;
    r.id = cs.id;
    r.printed = 0;
    r.index = index;
    {
        char b[64];
        std::snprintf(b, sizeof b, "CASE %ld\n", cs.id);
        write_all(1, b);
    }
    std::unique_ptr<C> comp(new C(cs));
    std::vector<std::thread> ths;
    for (int t = 0; t < n; ++t) {
        ths.emplace_back([&, t] {
            Sched::me() = t;
            for (const auto& op : cs.progs[t]) {
                S().visible(K_INVOKE, nullptr);
                S().emit(K_INVOKE, nullptr, op.empty() ? -1 : op[0]);
                long rv = 0;
                try {
                    rv = comp->op(t, op);
                    S().emit(K_RET, nullptr, rv);
                }
                catch (const VThrow&) {
                    S().emit(K_CATCH, nullptr, 0);
                }
                catch (const std::exception&) {
                    S().emit(K_CATCH, nullptr, 0);
                }
                catch (int ex) {
                    S().emit(K_CATCH, nullptr, ex);
                }
            }
            S().finish();
        });
    }
    while (!sched.all_parked()) std::this_thread::yield();
    auto dostep = [&](int t, int c, bool log_skip) {
        bool ok = sched.try_step(t, c);
        if (!ok && log_skip) sched.log.push_back(Line{t, K_SKIP, 0, 0, 0});
        return ok;
    };
    for (auto& tc : cs.sched) dostep(tc.first, tc.second, true);
    int verdict = 2;
    for (int fuel = TAIL_FUEL; fuel > 0; --fuel) {
        if (sched.all_finished()) {
            verdict = 0;
            break;
        }
        bool any = false;
        for (int t = 0; t < n; ++t) any |= dostep(t, C_NONE, false);
        if (any) continue;
        for (int t = 0; t < n; ++t) any |= dostep(t, C_TIMEOUT, false);
        if (any) continue;
        verdict = 1;
        break;
    }
    std::string out = fmt_lines(sched.log, 0);
    r.printed = sched.log.size();
    out += "-1 " + std::to_string(verdict) + "\n";
    write_all(1, out);  // before final(): a crash in final() then still leaves the trace (and adds a `-1 3` line)
    out.clear();
    std::vector<std::vector<long>> fin;
    Sched::me() = -1;
    comp->final(fin);
    for (auto& f : fin) {
        out += "-2";
        for (long x : f) out += " " + std::to_string(x);
        out += "\n";
    }
    write_all(1, out);
    r.sched = nullptr;
    report_progress(index + 1);
    if (verdict != 0) {
        // parked threads cannot be unwound: end this process, the parent forks the next one
        std::_Exit(0);
    }
    for (auto& t : ths) t.join();
    comp.reset();
    Sched::inst() = nullptr;
}

template<class C>
int drive(int argc, char** argv)
{
    if (argc < 2) {
        std::fprintf(stderr, "usage: %s <cases>\n", argv[0]);
        return 2;
    }
    std::vector<Case> cases = parse_cases(argv[1]);
    size_t next = 0;
    while (next < cases.size()) {
        int pfd[2];
        if (pipe(pfd) != 0) return 2;
        pid_t pid = fork();
        if (pid == 0) {
            close(pfd[0]);
            running().progress_fd = pfd[1];
#if defined(__SANITIZE_ADDRESS__)
            __sanitizer_set_death_callback(crash_flush);
#endif
            std::signal(SIGSEGV, crash_signal);
            std::signal(SIGABRT, crash_signal);
            std::signal(SIGFPE, crash_signal);
            std::signal(SIGBUS, crash_signal);
            for (size_t i = next; i < cases.size(); ++i) run_one<C>(cases[i], i);
            std::_Exit(0);
        }
        close(pfd[1]);
        size_t done = next, v;
        while (read(pfd[0], &v, sizeof v) == (ssize_t)sizeof v) done = v;
        int st = 0;
        waitpid(pid, &st, 0);
        close(pfd[0]);
        if (done <= next) {
            // the child died without reporting (e.g. killed): mark the case as crashed
            std::string out = "-1 3\n";
            write_all(1, out);
            done = next + 1;
        }
        next = done;
    }
    return 0;
}
}  // namespace vs
