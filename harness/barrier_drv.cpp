// correspondence driver for gmlc/concurrency/Barrier.hpp  (model: coq/Model/BarrierModel.v)
#include "vstd.hpp"
#define std vstd
#define private public  // harness-side only: lets final() read the three size_t fields without events
#include "gmlc/concurrency/Barrier.hpp"
#undef private
#undef std
#include "driver.hpp"

struct BarrierComp {
    gmlc::concurrency::Barrier barrier;
    explicit BarrierComp(const vs::Case& c): barrier((std::size_t)(c.cfg.empty() ? 0 : c.cfg[0])) {}
    long op(int, const std::vector<long>& o)
    {
        switch (o[0]) {
            case 0: barrier.wait(); break;
            case 1: barrier.wait_and_drop(); break;
        }
        return 0;
    }
    void final(std::vector<std::vector<long>>& out)
    {
#ifndef VS_NO_PEEK
        out.push_back({(long)barrier.threshold_, (long)barrier.count_, (long)barrier.generation_});
#else
        (void)out;
#endif
    }
};
int main(int argc, char** argv) { return vs::drive<BarrierComp>(argc, argv); }
