// Component-local extension of the instrumented std for cow_guarded (C04): vstd::shared_ptr<T>, found by
// qualified lookup instead of ::std::shared_ptr inside the repo headers (exactly as vstd::mutex; the idea is that
// of harness/soh_extra.hpp).  It makes the non-atomic accesses to the TWO shared_ptr objects of the inner
// lr_guarded (m_left, m_right: the "slots") visible; every other instance (locals, temporaries, lambda captures,
// snapshots held by the client) stays silent.  The driver registers the two slot addresses after construction.
//   copy construction / copy assignment FROM a slot = a read window on the slot
//        K_RD_BEGIN slot 0 ... K_RD_END slot 0      (the copy itself is made at the end edge)
//   copy assignment TO a slot                      = a write window on the slot
//        K_WR_BEGIN slot 0 ... K_WR_END slot 0      (the old value is released and the new one stored at the end edge)
// Overlap is reported on the spot as K_FAULT slot code (and counted in vs::plan().faults):
//   1 write window opened while a read window is open   2 read window opened while a write window is open
//   3 write window opened while a write window is open
// Include after vstd.hpp / vpay.hpp and before `#define std vstd`.
#pragma once
#include "vpay.hpp"

namespace vs {
struct CowSlots {
    struct Info {
        const void* addr = nullptr;
        int readers = 0;
        bool writing = false;
    };
    Info s[2];
    void reset(const void* a, const void* b)
    {
        s[0] = Info{a, 0, false};
        s[1] = Info{b, 0, false};
    }
    Info* find(const void* p)
    {
        if (p == nullptr) return nullptr;
        if (p == s[0].addr) return &s[0];
        if (p == s[1].addr) return &s[1];
        return nullptr;
    }
};
inline CowSlots& cowslots()
{
    static CowSlots c;
    return c;
}
}  // namespace vs

namespace vstd {
template<class T>
class shared_ptr: public ::std::shared_ptr<T> {
    using base = ::std::shared_ptr<T>;

    // this = src, where either side may be one of the two registered slots
    void assign_from(const shared_ptr& src)
    {
        vs::CowSlots::Info* si = vs::active() ? vs::cowslots().find(&src) : nullptr;
        vs::CowSlots::Info* di = vs::active() ? vs::cowslots().find(this) : nullptr;
        base tmp;
        if (si != nullptr) {
            vs::S().visible(vs::K_RD_BEGIN, &src);
            if (si->writing) vs::fault(&src, 2);
            ++si->readers;
            vs::S().emit(vs::K_RD_BEGIN, &src, 0);
            vs::S().visible(vs::K_RD_END, &src);
            tmp = static_cast<const base&>(src);
            --si->readers;
            vs::S().emit(vs::K_RD_END, &src, 0);
        } else {
            tmp = static_cast<const base&>(src);
        }
        if (di != nullptr) {
            vs::S().visible(vs::K_WR_BEGIN, this);
            if (di->readers > 0) vs::fault(this, 1);
            if (di->writing) vs::fault(this, 3);
            di->writing = true;
            vs::S().emit(vs::K_WR_BEGIN, this, 0);
            vs::S().visible(vs::K_WR_END, this);
            base::operator=(::std::move(tmp));  // the old value is released here (possibly ~T)
            di->writing = false;
            vs::S().emit(vs::K_WR_END, this, 0);
        } else {
            base::operator=(::std::move(tmp));
        }
    }

  public:
    using base::base;  // every other constructor of ::std::shared_ptr (pointer + deleter [+ allocator], aliasing, from
                       // weak_ptr / unique_ptr ...): silent, as the ones spelled out below
    constexpr shared_ptr() noexcept = default;
    constexpr shared_ptr(::std::nullptr_t) noexcept {}  // NOLINT
    template<class U, class = ::std::enable_if_t<::std::is_convertible_v<U*, T*>>>
    shared_ptr(const ::std::shared_ptr<U>& b): base(b)  // NOLINT  (make_shared results etc.: silent)
    {
    }
    template<class U, class = ::std::enable_if_t<::std::is_convertible_v<U*, T*>>>
    shared_ptr(::std::shared_ptr<U>&& b) noexcept: base(::std::move(b))  // NOLINT
    {
    }
    template<class U>
    explicit shared_ptr(U* p): base(p)
    {
    }
    shared_ptr(shared_ptr&& o) noexcept: base(::std::move(static_cast<base&>(o))) {}
    shared_ptr(const shared_ptr& o): base() { assign_from(o); }
    shared_ptr& operator=(const shared_ptr& o)
    {
        if (this != &o) assign_from(o);
        return *this;
    }
    shared_ptr& operator=(shared_ptr&& o) noexcept
    {
        base::operator=(::std::move(static_cast<base&>(o)));
        return *this;
    }
    shared_ptr& operator=(::std::nullptr_t) noexcept
    {
        base::reset();
        return *this;
    }
    ~shared_ptr() = default;
};
}  // namespace vstd
