// Component-local extension of the instrumented std for SearchableObjectHolder (C17):
// vstd::shared_ptr<T>, found by qualified lookup instead of ::std::shared_ptr inside the repo header
// (exactly as vstd::mutex).  It makes the accesses to a shared_ptr *instance* visible:
//   copy construction / copy assignment = a read window on the SOURCE instance
//        K_RD_BEGIN inst 0 ... K_RD_END inst 0      (the copy itself is made at the end edge)
//   destruction of a non-empty instance  = a write window on that instance
//        K_WR_BEGIN inst 0 ... K_WR_END inst 0      (the reference is released at the end edge)
// Moves, reset(), move assignment and the destruction of an empty instance are silent: the holder's own
// instances (the values of objectMap) are only ever copied from and destroyed.
// Instances that are automatic variables of the acting thread (address inside its own stack: parameters,
// locals, temporaries) are private to it and stay silent as well; what remains are the instances in the
// heap, i.e. the map nodes (and vector elements).
// Instances are numbered by a registry keyed by address (the number is kept after destruction, so that a
// later access to the dead instance can be reported without touching its memory).  Overlap is reported on
// the spot as K_FAULT inst code:
//   1 destruction begins while a read window is open      2 read begins while the destruction is in progress
//   3 read begins on (4: ends on) an instance that has been destroyed
// Include after vstd.hpp / vpay.hpp and before `#define std vstd`.
#pragma once
#include <pthread.h>
#include "vpay.hpp"

namespace vs {
struct PtrReg {
    struct Info {
        long serial = 0;
        int readers = 0;
        bool dying = false;
        bool dead = false;
    };
    ::std::map<const void*, Info> m;
    long next = 1;
    void reset()
    {
        m.clear();
        next = 1;
    }
    Info& at(const void* a)
    {
        Info& i = m[a];
        if (i.serial == 0) i.serial = next++;
        return i;
    }
    // a new instance is being constructed at this address: whatever lived there before is forgotten
    void fresh(const void* a)
    {
        if (!m.empty()) m.erase(a);
    }
    static constexpr long BASE = 1000000;  // keeps instance numbers apart from Sched::id_of numbers
};
inline PtrReg& ptrreg()
{
    static PtrReg r;
    return r;
}
// is the address inside the calling thread's own stack?
inline bool on_my_stack(const void* a)
{
    static thread_local char* lo = nullptr;
    static thread_local char* hi = nullptr;
    if (lo == nullptr) {
        pthread_attr_t at;
        void* base = nullptr;
        size_t sz = 0;
        if (pthread_getattr_np(pthread_self(), &at) == 0) {
            pthread_attr_getstack(&at, &base, &sz);
            pthread_attr_destroy(&at);
        }
        lo = static_cast<char*>(base);
        hi = lo + sz;
    }
    const char* c = static_cast<const char*>(a);
    return c >= lo && c < hi;
}
}  // namespace vs

namespace vstd {
template<class T>
class shared_ptr: public ::std::shared_ptr<T> {
    using base = ::std::shared_ptr<T>;
    // read window on src; the caller makes the copy between the two calls
    static void rd_begin(const void* src)
    {
        vs::S().visible(vs::K_RD_BEGIN, nullptr);
        auto& i = vs::ptrreg().at(src);
        if (i.dead) vs::S().emit_id(vs::K_FAULT, vs::PtrReg::BASE + i.serial, 3), vs::plan().faults++;
        else if (i.dying) vs::S().emit_id(vs::K_FAULT, vs::PtrReg::BASE + i.serial, 2), vs::plan().faults++;
        ++i.readers;
        vs::S().emit_id(vs::K_RD_BEGIN, vs::PtrReg::BASE + i.serial, 0);
        vs::S().visible(vs::K_RD_END, nullptr);
    }
    static void rd_end(const void* src)
    {
        auto& i = vs::ptrreg().at(src);
        --i.readers;
        vs::S().emit_id(vs::K_RD_END, vs::PtrReg::BASE + i.serial, 0);
    }
    static void rd_check(const void* src)
    {
        auto& i = vs::ptrreg().at(src);
        if (i.dead) vs::S().emit_id(vs::K_FAULT, vs::PtrReg::BASE + i.serial, 4), vs::plan().faults++;
    }

  public:
    constexpr shared_ptr() noexcept = default;
    constexpr shared_ptr(::std::nullptr_t) noexcept {}  // NOLINT
    shared_ptr(const base& b): base(b)                  // NOLINT  (from make_shared results etc.: silent)
    {
        if (vs::active()) vs::ptrreg().fresh(this);
    }
    shared_ptr(base&& b) noexcept: base(::std::move(b))  // NOLINT
    {
        if (vs::active()) vs::ptrreg().fresh(this);
    }
    template<class U>
    explicit shared_ptr(U* p): base(p)
    {
        if (vs::active()) vs::ptrreg().fresh(this);
    }
    shared_ptr(shared_ptr&& o) noexcept: base(::std::move(static_cast<base&>(o)))
    {
        if (vs::active()) vs::ptrreg().fresh(this);
    }
    shared_ptr(const shared_ptr& o): base()
    {
        if (!vs::active() || vs::on_my_stack(&o)) {
            base::operator=(static_cast<const base&>(o));
            return;
        }
        vs::ptrreg().fresh(this);
        rd_begin(&o);
        rd_check(&o);  // reported before the copy touches the (possibly freed) source
        base::operator=(static_cast<const base&>(o));
        rd_end(&o);
    }
    shared_ptr& operator=(const shared_ptr& o)
    {
        if (!vs::active() || vs::on_my_stack(&o)) {
            base::operator=(static_cast<const base&>(o));
            return *this;
        }
        rd_begin(&o);
        rd_check(&o);
        base::operator=(static_cast<const base&>(o));
        rd_end(&o);
        return *this;
    }
    shared_ptr& operator=(shared_ptr&& o) noexcept
    {
        base::operator=(::std::move(static_cast<base&>(o)));
        return *this;
    }
    shared_ptr& operator=(::std::nullptr_t) noexcept
    {
        base::reset();
        return *this;
    }
    ~shared_ptr()
    {
        if (!vs::active() || !static_cast<const base&>(*this) || vs::on_my_stack(this)) return;
        vs::S().visible(vs::K_WR_BEGIN, nullptr);
        {
            auto& i = vs::ptrreg().at(this);
            if (i.readers > 0) vs::S().emit_id(vs::K_FAULT, vs::PtrReg::BASE + i.serial, 1), vs::plan().faults++;
            i.dying = true;
            vs::S().emit_id(vs::K_WR_BEGIN, vs::PtrReg::BASE + i.serial, 0);
        }
        vs::S().visible(vs::K_WR_END, nullptr);
        base::reset();
        auto& i = vs::ptrreg().at(this);
        i.dying = false;
        i.dead = true;
        vs::S().emit_id(vs::K_WR_END, vs::PtrReg::BASE + i.serial, 0);
    }
};
}  // namespace vstd
