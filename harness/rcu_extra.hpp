// Component-local instrumentation for rcu_list (model: coq/Model/RcuModel.v).
//
//  * vs::rcu::Registry - every cell the list's allocators ever handed out, in allocation
//    order (cell number k = k-th allocate call = the model's cell index), with its ledger
//    state ALLOC -> CONSTR -> DESTR -> FREED.  Memory is never returned to the heap while a
//    case runs (quarantine); a destroyed cell is filled with 0xDD so that stale reads are
//    visible.  Any other ledger transition is logged as K_FAULT 1, destroy/deallocate of a
//    null pointer as K_FAULT 2, an access to a cell that is not CONSTR as K_FAULT 3.
//  * VAlloc<U> - rebind-able allocator whose allocate/construct/destroy/deallocate are
//    scheduling points and log K_ALLOC / K_CONSTRUCT / K_DESTROY / K_DEALLOC with the cell's
//    object id (the id of the cell's start address = the id the atomics log for pointers to it).
//  * namespace vstd2 - `#define std vstd2` instead of `vstd`: vstd2::atomic<T> wraps
//    vstd::atomic<T> and, right after each operation (same scheduling step), asks the registry
//    whether `this` lies in a cell that is not CONSTR (use after free / after destroy).
//    Everything else resolves to vstd / ::std through the using-directive.  This is the
//    "UAF hook" done without editing vstd.hpp.
//  * Elem - element type with a non-trivial destructor (owns a std::string) whose read() is a
//    harness-visible event K_RD_END <cell> <value>.
//  On the driver's main thread (final(): ~rcu_list) nothing is scheduled or logged; the
//  allocator calls and faults go to Registry::side instead and are printed as final lines.
#pragma once
#include "vstd.hpp"
#include "vpay.hpp"
#include <new>
#include <initializer_list>

namespace vs { namespace rcu {
enum CState : int { ST_ALLOC = 0, ST_CONSTR = 1, ST_DESTR = 2, ST_FREED = 3 };
struct CellInfo {
    char* base;
    size_t size;
    int state;
    int kind;  // 1 node, 2 log record
};
struct Registry {
    std::vector<CellInfo> cells;
    std::vector<std::vector<long>> side;  // main-thread log: {kind, cell} or {K_FAULT, cell, code}
    long faults = 0;
    void reset()
    {
        for (auto& c : cells) ::operator delete((void*)c.base);
        cells.clear();
        side.clear();
        faults = 0;
    }
    int find(const void* p) const
    {
        const char* q = (const char*)p;
        for (int i = (int)cells.size() - 1; i >= 0; --i)
            if (q >= cells[i].base && q < cells[i].base + cells[i].size) return i;
        return -1;
    }
};
inline Registry& reg()
{
    static Registry r;
    return r;
}
inline void fault(int cell, const void* obj, long code)
{
    reg().faults++;
    if (active())
        S().emit(K_FAULT, obj, code);
    else
        reg().side.push_back({(long)K_FAULT, (long)cell, code});
}
inline void note(int kind, int cell, const void* obj, long val)
{
    if (active())
        S().emit(kind, obj, val);
    else
        reg().side.push_back({(long)kind, (long)cell});
}
// called after every operation on an instrumented atomic / element
inline void touched(const void* p)
{
    int i = reg().find(p);
    if (i >= 0 && reg().cells[i].state != ST_CONSTR) fault(i, reg().cells[i].base, 3);
}

// per-thread "the next allocation fails" flag (allocation failure as a fault; set and cleared by the driver
// around one library call)
inline bool& fail_next()
{
    static thread_local bool f = false;
    return f;
}
struct FailNext {
    explicit FailNext(bool on) { fail_next() = on; }
    ~FailNext() { fail_next() = false; }
};

template<class U, class = void>
struct is_record: std::false_type {};
template<class U>
struct is_record<U, std::void_t<decltype(std::declval<U&>().zombie_node)>>: std::true_type {};

template<class U>
struct VAlloc {
    using value_type = U;
    // a STATEFUL allocator in the C++ sense (instances may compare unequal): the library must not take a different
    // path for it - in particular it must not serialise readers' allocations with the write mutex (C14)
    using is_always_equal = std::false_type;
    long arena = 1;
    VAlloc() noexcept = default;
    template<class V>
    VAlloc(const VAlloc<V>& o) noexcept: arena(o.arena) {}  // NOLINT
    template<class V>
    bool operator==(const VAlloc<V>& o) const noexcept { return arena == o.arena; }
    template<class V>
    bool operator!=(const VAlloc<V>& o) const noexcept { return arena != o.arena; }

    U* allocate(std::size_t n)
    {
        if (active()) S().visible(K_ALLOC, nullptr);
        if (fail_next()) {  // armed by the driver for this operation: the allocation fails (K_THROW 2 = bad_alloc)
            fail_next() = false;
            if (active()) S().emit(K_THROW, nullptr, 2);
            throw std::bad_alloc();
        }
        char* p = (char*)::operator new(n * sizeof(U));
        std::memset(p, 0xCD, n * sizeof(U));
        int kind = is_record<U>::value ? 2 : 1;
        reg().cells.push_back(CellInfo{p, n * sizeof(U), ST_ALLOC, kind});
        note(K_ALLOC, (int)reg().cells.size() - 1, p, kind);
        return (U*)p;
    }
    template<class... Args>
    void construct(U* p, Args&&... args)
    {
        if (active()) S().visible(K_CONSTRUCT, nullptr);
        int i = reg().find(p);
        bool ok = i >= 0 && (char*)p == reg().cells[i].base && reg().cells[i].state == ST_ALLOC;
        if (ok) {
            ::new ((void*)p) U(std::forward<Args>(args)...);
            reg().cells[i].state = ST_CONSTR;
        }
        note(K_CONSTRUCT, i, p, 0);
        if (!ok) fault(i, p, 1);
    }
    void destroy(U* p)
    {
        if (active()) S().visible(K_DESTROY, nullptr);
        if (p == nullptr) {
            note(K_DESTROY, 0, nullptr, 0);
            fault(0, nullptr, 2);
            return;
        }
        int i = reg().find(p);
        bool ok = i >= 0 && (char*)p == reg().cells[i].base && reg().cells[i].state == ST_CONSTR;
        if (ok) {
            p->~U();
            std::memset((void*)p, 0xDD, sizeof(U));
            reg().cells[i].state = ST_DESTR;
        }
        note(K_DESTROY, i, p, 0);
        if (!ok) fault(i, p, 1);
    }
    void deallocate(U* p, std::size_t)
    {
        if (active()) S().visible(K_DEALLOC, nullptr);
        if (p == nullptr) {
            note(K_DEALLOC, 0, nullptr, 0);
            fault(0, nullptr, 2);
            return;
        }
        int i = reg().find(p);
        // legal: after destroy(), or storage that was never constructed (construction threw)
        bool ok = i >= 0 && (char*)p == reg().cells[i].base &&
            (reg().cells[i].state == ST_DESTR || reg().cells[i].state == ST_ALLOC);
        if (ok) reg().cells[i].state = ST_FREED;  // quarantined: the memory is kept
        note(K_DEALLOC, i, p, 0);
        if (!ok) fault(i, p, 1);
    }
};

// thrown by Elem's constructors (the "user code" of the list) on a negative payload
// not a std::exception (like vs::VThrow, which the runner catches): element constructors may throw any type, and
// clean-up code that filters with catch (const std::exception&) instead of catch (...) (seeded C13-10) must show
struct ElemThrow: vs::VThrow {
    const char* what() const noexcept { return "elem-ctor"; }
};
struct Elem {
    long v;
    std::string s;
    struct Quiet {};
    // user code inside allocator_traits::construct: logs K_CALL 1 in the step of the construct() scheduling
    // point (no scheduling point of its own: the step would otherwise carry no event) and throws on a
    // negative payload - the throw plan of a case is which pushes carry a negative value
    static long hook(long x)
    {
        if (!active()) return x;
        S().emit(K_CALL, nullptr, 1);
        if (x < 0) {
            S().emit(K_THROW, nullptr, 0);
            throw ElemThrow{};
        }
        return x;
    }
    static std::string mk(long x) { return "payload-of-element-" + std::to_string(x) + "-long-enough-to-live-on-the-heap"; }
    Elem(Quiet, long x): v(x), s(mk(x)) {}  // the driver's temporary: no user-code event
    Elem(long x): v(hook(x)), s(mk(x)) {}  // NOLINT  emplace_*
    // user code that cannot fail: the move constructor is noexcept (is_nothrow_move_constructible<Elem>), so a push of a
    // throwing (negative) payload goes through emplace_* in the driver - same events
    static long hook_nothrow(long x) noexcept
    {
        if (active()) S().emit(K_CALL, nullptr, 1);
        return x;
    }
    Elem(Elem&& o) noexcept: v(hook_nothrow(o.v)), s(std::move(o.s)) {}  // push_* (node(T&&))
    // a source type with a DESTRUCTIVE move: emplace_*(lvalue) must copy from it (forwarded as an lvalue), never steal
    struct ESrc {
        long v;
        bool stolen = false;
    };
    Elem(const ESrc& o): v(hook(o.v)), s(mk(o.v)) {}  // NOLINT
    Elem(ESrc&& o): v(hook(o.v)), s(mk(o.v))  // NOLINT
    {
        o.stolen = true;
        o.v = BRACED;
    }
    Elem(const Elem& o): v(hook(o.v)), s(o.s) {}
    // recognisable initializer_list constructors: chosen only if somebody LIST-initialises the element (T{args...}); the
    // driver and the library direct-initialise it (T(args...)), so the sentinel never appears
    static constexpr long BRACED = 777777;
    Elem(std::initializer_list<long>): v(BRACED), s("list-initialised") {}  // NOLINT
    Elem(std::initializer_list<Elem>): v(BRACED), s("list-initialised") {}  // NOLINT
    long read() const
    {
        if (!active()) return v;
        S().visible(K_RD_END, nullptr);
        int i = reg().find(this);
        long x = v;
        S().emit(K_RD_END, i >= 0 ? (const void*)reg().cells[i].base : (const void*)this, x);
        touched(this);
        return x;
    }
};
// the same element without an owning member: TRIVIALLY DESTRUCTIBLE (so is the list node); the allocator's destroy()
// must still be called for it before deallocate() (cfg[1] = 1 selects it)
struct TrivElem {
    long v;
    using Quiet = Elem::Quiet;
    TrivElem(Quiet, long x): v(x) {}
    TrivElem(long x): v(Elem::hook(x)) {}  // NOLINT
    TrivElem(TrivElem&& o) noexcept: v(Elem::hook_nothrow(o.v)) {}
    using ESrc = Elem::ESrc;
    TrivElem(const ESrc& o): v(Elem::hook(o.v)) {}  // NOLINT
    TrivElem(ESrc&& o): v(Elem::hook(o.v))  // NOLINT
    {
        o.stolen = true;
        o.v = Elem::BRACED;
    }
    TrivElem(const TrivElem& o): v(Elem::hook(o.v)) {}
    TrivElem(std::initializer_list<long>): v(Elem::BRACED) {}  // NOLINT
    TrivElem(std::initializer_list<TrivElem>): v(Elem::BRACED) {}  // NOLINT
    long read() const
    {
        if (!active()) return v;
        S().visible(K_RD_END, nullptr);
        int i = reg().find(this);
        long x = v;
        S().emit(K_RD_END, i >= 0 ? (const void*)reg().cells[i].base : (const void*)this, x);
        touched(this);
        return x;
    }
};
static_assert(std::is_trivially_destructible<TrivElem>::value, "TrivElem must be trivially destructible");
static_assert(std::is_nothrow_move_constructible<Elem>::value && std::is_nothrow_move_constructible<TrivElem>::value, "noexcept move");
}}  // namespace vs::rcu

namespace vstd2 {
using namespace vstd;
template<class T>
class atomic {
    vstd::atomic<T> a;

  public:
    atomic() noexcept = default;
    constexpr atomic(T x) noexcept: a(x) {}
    atomic(const atomic&) = delete;
    atomic& operator=(const atomic&) = delete;
    T load(::std::memory_order o = ::std::memory_order_seq_cst) const noexcept
    {
        T r = a.load(o);
        vs::rcu::touched(this);
        return r;
    }
    void store(T x, ::std::memory_order o = ::std::memory_order_seq_cst) noexcept
    {
        a.store(x, o);
        vs::rcu::touched(this);
    }
    operator T() const noexcept { return load(); }
    T operator=(T x) noexcept
    {
        store(x);
        return x;
    }
    T exchange(T x, ::std::memory_order o = ::std::memory_order_seq_cst) noexcept
    {
        T r = a.exchange(x, o);
        vs::rcu::touched(this);
        return r;
    }
    bool compare_exchange_weak(T& e, T d, ::std::memory_order o = ::std::memory_order_seq_cst) noexcept
    {
        bool r = a.compare_exchange_weak(e, d, o);
        vs::rcu::touched(this);
        return r;
    }
    bool compare_exchange_strong(T& e, T d, ::std::memory_order o = ::std::memory_order_seq_cst) noexcept
    {
        bool r = a.compare_exchange_strong(e, d, o);
        vs::rcu::touched(this);
        return r;
    }
    bool compare_exchange_weak(T& e, T d, ::std::memory_order o, ::std::memory_order) noexcept
    {
        return compare_exchange_weak(e, d, o);
    }
    bool compare_exchange_strong(T& e, T d, ::std::memory_order o, ::std::memory_order) noexcept
    {
        return compare_exchange_strong(e, d, o);
    }
    // integral read-modify-writes (member templates: instantiated only where the library uses them, so the pointer
    // atomics of the list are unaffected); logged by vstd::atomic like every other RMW
    template<class U = T>
    U fetch_add(U d, ::std::memory_order o = ::std::memory_order_seq_cst) noexcept
    {
        U r = a.fetch_add(d, o);
        vs::rcu::touched(this);
        return r;
    }
    template<class U = T>
    U fetch_sub(U d, ::std::memory_order o = ::std::memory_order_seq_cst) noexcept
    {
        U r = a.fetch_sub(d, o);
        vs::rcu::touched(this);
        return r;
    }
    template<class U = T>
    U operator++(int) noexcept { return fetch_add<U>(1); }
    template<class U = T>
    U operator--(int) noexcept { return fetch_sub<U>(1); }
    template<class U = T>
    U operator++() noexcept { return (U)(fetch_add<U>(1) + 1); }
    template<class U = T>
    U operator--() noexcept { return (U)(fetch_sub<U>(1) - 1); }
    template<class U = T>
    U operator+=(U d) noexcept { return (U)(fetch_add<U>(d) + d); }
    template<class U = T>
    U operator-=(U d) noexcept { return (U)(fetch_sub<U>(d) - d); }
    bool is_lock_free() const noexcept { return true; }
    T vs_peek() const noexcept { return a.vs_peek(); }
};
}  // namespace vstd2
