// correspondence driver for gmlc/concurrency/DelayedDestructor.hpp  (model: coq/Model/DelayedDestructorModel.v)
// cfg: locked(1: DelayedDestructor, 0: DelayedDestructorSingleThread)  has_callback  n  throw_index_1 .. throw_index_n
// ops: 1 slot dm cm = Add | 2 slot = Drop | 3 = destroyObjects() | 4 d = destroyObjects(d ms) | 5 = size()
//      6 = destroy the container | 7 slot = add the slot's object a second time
// dm / cm: what the element destructor / the callback re-enters on the same container:
//      0 nothing, 1 size(), 2 addObjectsToBeDestroyed(new object), 3 destroyObjects(), 4 destroyObjects(150ms)
#include "vstd.hpp"
#include "vpay.hpp"
#define std vstd
#define private public  // harness-side only: final() reads the vector size without an event
#include "gmlc/concurrency/DelayedDestructor.hpp"
#undef private
#undef std
#include "driver.hpp"

struct DDComp;
static DDComp* g_comp = nullptr;
static thread_local bool t_in_drop = false;

struct X {
    long id;
    explicit X(long i): id(i) {}
    ~X();
};
using XP = std::shared_ptr<X>;

struct IFace {
    virtual ~IFace() = default;
    virtual long destroy() = 0;
    virtual long destroyDelay(long ms) = 0;
    virtual long size() = 0;
    virtual void add(XP p) = 0;
    virtual long peek() = 0;
};
template<class DD>
struct Impl: IFace {
    DD dd;
    Impl() = default;
    explicit Impl(std::function<void(XP&)> f): dd(std::move(f)) {}
    long destroy() override { return (long)dd.destroyObjects(); }
    long destroyDelay(long ms) override { return (long)dd.destroyObjects(std::chrono::milliseconds(ms)); }
    long size() override { return (long)dd.size(); }
    void add(XP p) override { dd.addObjectsToBeDestroyed(std::move(p)); }
    long peek() override { return (long)dd.ElementsToBeDestroyed.size(); }
};

struct DDComp {
    std::unique_ptr<IFace> dd;
    int cstate = 0;  // 0 alive, 1 being destroyed, 2 destroyed
    long nobj = 0;
    long busy = 0;
    std::map<long, XP> slots;
    std::vector<std::weak_ptr<X>> wk{1};
    std::vector<long> dcount{0}, cbcount{0}, dmode{0}, cmode{0};

    explicit DDComp(const vs::Case& c)
    {
        g_comp = this;
        bool locked = c.cfg.size() < 1 || c.cfg[0] != 0;
        bool hascb = c.cfg.size() >= 2 && c.cfg[1] != 0;
        std::vector<long> thr;
        if (c.cfg.size() >= 3)
            for (long i = 0; i < c.cfg[2] && 3 + i < (long)c.cfg.size(); ++i) thr.push_back(c.cfg[3 + i]);
        vs::plan().reset(thr);
        for (auto& p : c.progs)
            for (auto& o : p)
                if (!o.empty() && o[0] != 2) ++busy;
        auto cb = [this](XP& p) { callback(p); };
        using namespace gmlc::concurrency;
        if (locked) {
            if (hascb) dd.reset(new Impl<DelayedDestructor<X>>(cb));
            else dd.reset(new Impl<DelayedDestructor<X>>());
        } else {
            if (hascb) dd.reset(new Impl<DelayedDestructorSingleThread<X>>(cb));
            else dd.reset(new Impl<DelayedDestructorSingleThread<X>>());
        }
    }
    ~DDComp()
    {
        slots.clear();
        dd.reset();
        g_comp = nullptr;
    }
    long newobj(long dm, long cm)
    {
        long id = ++nobj;
        wk.emplace_back();
        dcount.push_back(0);
        cbcount.push_back(0);
        dmode.push_back(dm);
        cmode.push_back(cm);
        return id;
    }
    void reenter(long m)
    {
        if (cstate != 0) return;
        switch (m) {
            case 1: dd->size(); break;
            case 2: {
                long id = newobj(0, 0);
                XP p = std::make_shared<X>(id);
                wk[id] = p;
                dd->add(std::move(p));
                break;
            }
            case 3: dd->destroy(); break;
            case 4: dd->destroyDelay(150); break;
            default: break;
        }
    }
    void callback(XP& p)
    {
        long id = p->id;
        if (!vs::active()) {
            cbcount[id]++;
            return;
        }
        vs::S().visible(vs::K_CALL, nullptr);
        long k = vs::plan().calls++;
        cbcount[id]++;
        vs::S().emit(vs::K_CALL, nullptr, 2 * id + 1);
        auto& th = vs::plan().throw_at;
        if (std::find(th.begin(), th.end(), k) != th.end()) {
            vs::S().emit(vs::K_THROW, nullptr, k);
            throw vs::VThrow{};
        }
        reenter(cmode[id]);
    }
    void destructor(long id)
    {
        if (!vs::active()) {
            dcount[id]++;
            return;
        }
        vs::S().visible(vs::K_CALL, nullptr);
        dcount[id]++;
        vs::S().emit(vs::K_CALL, nullptr, 2 * id);
        if (!t_in_drop) reenter(dmode[id]);
    }
    long op(int, const std::vector<long>& o)
    {
        long rv = 0;
        bool counted = o[0] != 2;
        if (counted && cstate != 0) {
            vs::fault(nullptr, 1);
            --busy;
            return 0;
        }
        switch (o[0]) {
            case 1: {
                long id = newobj(o[2], o[3]);
                XP p = std::make_shared<X>(id);
                wk[id] = p;
                if (o[1] != 0 && slots.find(o[1]) == slots.end()) slots[o[1]] = p;
                dd->add(std::move(p));
                rv = id;
                break;
            }
            case 2: {
                auto it = slots.find(o[1]);
                if (it != slots.end()) {
                    XP p = std::move(it->second);
                    slots.erase(it);
                    t_in_drop = true;
                    p.reset();
                    t_in_drop = false;
                }
                break;
            }
            case 3: rv = dd->destroy(); break;
            case 4: rv = dd->destroyDelay(o[1]); break;
            case 5: rv = dd->size(); break;
            case 6:
                vs::S().visible(vs::Pending{vs::K_DESTROY, nullptr, [this](int) { return busy == 1; }});
                cstate = 1;
                vs::S().emit(vs::K_DESTROY, nullptr, 0);
                dd.reset();
                cstate = 2;
                break;
            case 7: {
                auto it = slots.find(o[1]);
                if (it != slots.end()) {
                    XP p = it->second;
                    dd->add(std::move(p));
                }
                break;
            }
            default: break;
        }
        if (counted) --busy;
        return rv;
    }
    void final(std::vector<std::vector<long>>& out)
    {
        out.push_back({nobj, cstate == 0 ? dd->peek() : 0, cstate == 0 ? 0 : 1, vs::plan().calls});
        for (long id = 1; id <= nobj; ++id) out.push_back({id, (long)wk[id].use_count(), dcount[id], cbcount[id]});
    }
};
X::~X()
{
    if (g_comp != nullptr) g_comp->destructor(id);
}
int main(int argc, char** argv) { return vs::drive<DDComp>(argc, argv); }
