// correspondence driver for gmlc/concurrency/DelayedDestructor.hpp  (model: coq/Model/DelayedDestructorModel.v)
// cfg: locked(1: DelayedDestructor, 0: DelayedDestructorSingleThread)  has_callback  n  throw_index_1 .. throw_index_n  [kind]
//      kind (optional, default 0): 0 = element type X with a user-provided destructor (the instrumented user code);
//      1 = trivially destructible element type Y handed over as shared_ptr<Y>(p, deleter): the custom deleter is the
//      instrumented user code (same re-entry modes); for the model the deleter is the destructor step.
// ops: 1 slot dm cm = Add | 2 slot = Drop | 3 = destroyObjects() | 4 d = destroyObjects(d ms) | 5 = size()
//      6 = destroy the container | 7 slot = add the slot's object a second time
// dm / cm: what the element destructor / the callback re-enters on the same container:
//      0 nothing, 1 size(), 2 addObjectsToBeDestroyed(new object), 3 destroyObjects(), 4 destroyObjects(150ms),
//      m >= 5: addObjectsToBeDestroyed(new object whose destructor re-enters with mode 2 (m == 5) or m-1): a chain
// Re-entry happens while the container is alive and during the body of ~DelayedDestructor (its sweeps); not from
// a destructor run by a client Drop, and not while the vector member itself is being destroyed (detected by
// finding the dying element still stored in the vector).
#include "delayeddestructor_extra.hpp"  // vstd.hpp + vpay.hpp + the lockset-checking vstd::vector
#define std vstd
#define private public  // harness-side only: final() reads the vector size without an event
#include "gmlc/concurrency/DelayedDestructor.hpp"
#undef private
#undef std
#include "driver.hpp"

struct DDBase {
    virtual ~DDBase() = default;
    virtual long op(int tid, const std::vector<long>& o) = 0;
    virtual void final(std::vector<std::vector<long>>& out) = 0;
    virtual void destructor(long id, const void* x) = 0;
};
static DDBase* g_comp = nullptr;
static thread_local bool t_in_drop = false;

struct X {
    long id;
    explicit X(long i): id(i) {}
    ~X()
    {
        if (g_comp != nullptr) g_comp->destructor(id, this);
    }
    static std::shared_ptr<X> make(long id) { return std::make_shared<X>(id); }
};
struct Y {
    long id;
    static std::shared_ptr<Y> make(long id)
    {
        return std::shared_ptr<Y>(new Y{id}, [](Y* p) {
            if (g_comp != nullptr) g_comp->destructor(p->id, p);
            delete p;
        });
    }
};
static_assert(std::is_trivially_destructible<Y>::value, "Y must be trivially destructible");

template<class E>
struct DDComp: DDBase {
    using XP = std::shared_ptr<E>;
    // type-erased access to the container (no virtual calls on an object under destruction)
    std::function<long()> f_destroy, f_size;
    std::function<long(long)> f_delay;
    std::function<void(XP)> f_add;
    std::function<void()> f_delete;
    const std::vector<XP>* rawvec = nullptr;  // unchecked view of ElementsToBeDestroyed
    int cstate = 0;                           // 0 alive, 1 being destroyed, 2 destroyed
    long nobj = 0;
    long busy = 0;
    std::map<long, XP> slots;
    std::vector<std::weak_ptr<E>> wk{1};
    std::vector<long> dcount{0}, cbcount{0}, dmode{0}, cmode{0};

    template<class DD>
    void bind(DD* p)
    {
        f_destroy = [p] { return (long)p->destroyObjects(); };
        f_delay = [p](long ms) { return (long)p->destroyObjects(std::chrono::milliseconds(ms)); };
        f_size = [p] { return (long)p->size(); };
        f_add = [p](XP x) { p->addObjectsToBeDestroyed(std::move(x)); };
        f_delete = [p] { delete p; };
        rawvec = &p->ElementsToBeDestroyed.vs_raw();
    }
    explicit DDComp(const vs::Case& c)
    {
        g_comp = this;
        bool locked = c.cfg.size() < 1 || c.cfg[0] != 0;
        bool hascb = c.cfg.size() >= 2 && c.cfg[1] != 0;
        std::vector<long> thr;
        if (c.cfg.size() >= 3)
            for (long i = 0; i < c.cfg[2] && 3 + i < (long)c.cfg.size(); ++i) thr.push_back(c.cfg[3 + i]);
        vs::plan().reset(thr);
        for (auto& p : c.progs)
            for (auto& o : p)
                if (!o.empty() && o[0] != 2) ++busy;
        auto cb = [this](XP& p) { callback(p); };
        using namespace gmlc::concurrency;
        vs::vec_guard().disarm();
        if (locked) {
            auto* p = hascb ? new DelayedDestructor<E>(cb) : new DelayedDestructor<E>();
            bind(p);
            // lockset rule: until ~DelayedDestructor starts, the vector is touched only under destructionLock
            vs::vec_guard().arm(&p->ElementsToBeDestroyed, &p->destructionLock);
        } else {
            auto* p = hascb ? new DelayedDestructorSingleThread<E>(cb) : new DelayedDestructorSingleThread<E>();
            bind(p);
        }
    }
    ~DDComp() override
    {
        vs::vec_guard().disarm();
        slots.clear();
        if (cstate == 0) {
            cstate = 1;
            f_delete();
        }
        cstate = 2;
        g_comp = nullptr;
    }
    long newobj(long dm, long cm)
    {
        long id = ++nobj;
        wk.emplace_back();
        dcount.push_back(0);
        cbcount.push_back(0);
        dmode.push_back(dm);
        cmode.push_back(cm);
        return id;
    }
    void add_new(long dm, long cm)
    {
        long id = newobj(dm, cm);
        XP p = E::make(id);
        wk[id] = p;
        f_add(std::move(p));
    }
    void reenter(long m)
    {
        if (cstate == 2) return;
        switch (m) {
            case 0: break;
            case 1: f_size(); break;
            case 2: add_new(0, 0); break;
            case 3: f_destroy(); break;
            case 4: f_delay(150); break;
            default: add_new(m == 5 ? 2 : m - 1, 0); break;
        }
    }
    bool in_vector(const void* x) const
    {
        for (const auto& e : *rawvec)
            if (e.get() == x) return true;
        return false;
    }
    void callback(XP& p)
    {
        long id = p->id;
        if (!vs::active()) {
            cbcount[id]++;
            return;
        }
        vs::S().visible(vs::K_CALL, nullptr);
        long k = vs::plan().calls++;
        cbcount[id]++;
        vs::S().emit(vs::K_CALL, nullptr, 2 * id + 1);
        auto& th = vs::plan().throw_at;
        if (std::find(th.begin(), th.end(), k) != th.end()) {
            vs::S().emit(vs::K_THROW, nullptr, k);
            throw vs::VThrow{};
        }
        reenter(cmode[id]);
    }
    void destructor(long id, const void* x) override
    {
        if (!vs::active()) {
            dcount[id]++;
            return;
        }
        vs::S().visible(vs::K_CALL, nullptr);
        dcount[id]++;
        vs::S().emit(vs::K_CALL, nullptr, 2 * id);
        if (t_in_drop) return;
        if (cstate == 1 && in_vector(x)) return;  // the vector member is being destroyed: hands off
        reenter(dmode[id]);
    }
    long op(int, const std::vector<long>& o) override
    {
        long rv = 0;
        bool counted = o[0] != 2;
        if (counted && cstate != 0) {
            vs::fault(nullptr, 1);
            --busy;
            return 0;
        }
        switch (o[0]) {
            case 1: {
                long id = newobj(o[2], o[3]);
                XP p = E::make(id);
                wk[id] = p;
                if (o[1] != 0 && slots.find(o[1]) == slots.end()) slots[o[1]] = p;
                f_add(std::move(p));
                rv = id;
                break;
            }
            case 2: {
                auto it = slots.find(o[1]);
                if (it != slots.end()) {
                    XP p = std::move(it->second);
                    slots.erase(it);
                    t_in_drop = true;
                    p.reset();
                    t_in_drop = false;
                }
                break;
            }
            case 3: rv = f_destroy(); break;
            case 4: rv = f_delay(o[1]); break;
            case 5: rv = f_size(); break;
            case 6:
                vs::S().visible(vs::Pending{vs::K_DESTROY, nullptr, [this](int) { return busy == 1; }});
                cstate = 1;
                vs::vec_guard().disarm();  // the owner's destructor may touch its members without the lock
                vs::S().emit(vs::K_DESTROY, nullptr, 0);
                f_delete();
                cstate = 2;
                break;
            case 7: {
                auto it = slots.find(o[1]);
                if (it != slots.end()) {
                    XP p = it->second;
                    f_add(std::move(p));
                }
                break;
            }
            default: break;
        }
        if (counted) --busy;
        return rv;
    }
    void final(std::vector<std::vector<long>>& out) override
    {
        out.push_back({nobj, cstate == 0 ? (long)rawvec->size() : 0, cstate == 0 ? 0 : 1, vs::plan().calls});
        for (long id = 1; id <= nobj; ++id) out.push_back({id, (long)wk[id].use_count(), dcount[id], cbcount[id]});
    }
};
// the element type is selected by the case
struct DDAny {
    std::unique_ptr<DDBase> c;
    explicit DDAny(const vs::Case& cs)
    {
        long n = cs.cfg.size() >= 3 ? cs.cfg[2] : 0;
        long kind = (long)cs.cfg.size() > 3 + n ? cs.cfg[3 + n] : 0;
        if (kind == 1) c.reset(new DDComp<Y>(cs));
        else c.reset(new DDComp<X>(cs));
    }
    long op(int t, const std::vector<long>& o) { return c->op(t, o); }
    void final(std::vector<std::vector<long>>& out) { c->final(out); }
};
int main(int argc, char** argv) { return vs::drive<DDAny>(argc, argv); }
