// Instrumented payload type and user-code hooks for the correspondence drivers.
//
// VPay: the wrapped object.  Every non-atomic access is a *window* made of two
// scheduling points (begin / end), so that overlapping accesses are states the
// scheduler can reach, not timing accidents:
//     read   : K_RD_BEGIN obj 0      ...  K_RD_END obj value
//     write  : K_WR_BEGIN obj 0      ...  K_WR_END obj value   (the object is `dirty` in between)
// Overlap is detected on the spot (implementation-side monitor, independent of
// the model) and logged as K_FAULT obj code:
//     1 write window opened while a read window is open   2 read opened while a write is open
//     3 write opened while a write is open                4 read of a dirty (half-written) value
// User code (functors, predicates, callbacks): vs::user_call(fid) logs K_CALL fid
// at a scheduling point and throws vs::VThrow when the case's throw plan says so.
#pragma once
#include "vsched.hpp"

namespace vs {
// deliberately NOT derived from std::exception: user code may throw any type, and library code that filters with
// catch (const std::exception&) instead of catch (...) (seeded C04-12) must not get away with it
struct VThrow {
    const char* what() const noexcept { return "vthrow"; }
};
// the other shape user code throws: an exception DERIVED from std::exception that carries its own identity -
// library code that re-packages with the static type (std::make_exception_ptr(ex) on a `const std::exception&`,
// seeded C20-6) slices it, and the harness no longer recognises what a future rethrows.  Every harness
// handler catches `const VThrow&`, which matches both shapes; the throw plan alternates between them.
struct VThrowStd: std::exception, VThrow {
    const char* what() const noexcept override { return "vthrow-std"; }
};
struct Plan {
    std::vector<long> throw_at;  // indices (0-based, global per case) of user-code invocations that throw
    long calls = 0;
    long faults = 0;
    void reset(std::vector<long> t)
    {
        throw_at = std::move(t);
        calls = 0;
        faults = 0;
    }
};
inline Plan& plan()
{
    static Plan p;
    return p;
}
// one invocation of user code; returns normally or throws VThrow according to the plan
inline void user_call(long fid)
{
    if (!active()) return;
    S().visible(K_CALL, nullptr);
    long k = plan().calls++;
    S().emit(K_CALL, nullptr, fid);
    if (std::find(plan().throw_at.begin(), plan().throw_at.end(), k) != plan().throw_at.end()) {
        S().emit(K_THROW, nullptr, k);
        if (k % 2 == 1) throw VThrowStd{};
        throw VThrow{};
    }
}
inline void fault(const void* obj, long code)
{
    plan().faults++;
    if (active()) S().emit(K_FAULT, obj, code);
}

struct VPay {
    long v = 0;
    mutable int readers = 0;
    bool dirty = false;
    VPay() = default;
    VPay(long x): v(x) {}  // NOLINT
    // copy construction reads the source through a window; the new object is private
    VPay(const VPay& o): v(o.read()) {}
    VPay(VPay&& o) noexcept: v(o.v) {}
    VPay& operator=(const VPay& o)
    {
        long x = o.read();
        write(x);
        return *this;
    }
    VPay& operator=(VPay&& o)
    {
        write(o.v);
        return *this;
    }
    long read() const
    {
        if (!active()) return v;
        S().visible(K_RD_BEGIN, this);
        if (dirty) fault(this, 2);
        ++readers;
        S().emit(K_RD_BEGIN, this, 0);
        S().visible(K_RD_END, this);
        --readers;
        if (dirty) fault(this, 4);
        S().emit(K_RD_END, this, v);
        return v;
    }
    void write(long x)
    {
        if (!active()) {
            v = x;
            return;
        }
        S().visible(K_WR_BEGIN, this);
        if (readers > 0) fault(this, 1);
        if (dirty) fault(this, 3);
        dirty = true;
        S().emit(K_WR_BEGIN, this, 0);
        S().visible(K_WR_END, this);
        v = x;
        dirty = false;
        S().emit(K_WR_END, this, x);
    }
    void incr() { write(read() + 1); }
    bool operator==(const VPay& o) const { return read() == o.read(); }
    bool operator!=(const VPay& o) const { return !(*this == o); }
    long peek() const { return v; }  // harness-only, no event
};
}  // namespace vs
