// Component-local extension of the instrumented std for the TripWire driver (opt-in: only
// harness/tripwire_drv.cpp includes this file).
//
// vstd::shared_ptr<T>: std::shared_ptr<T> with the same interface (public inheritance), found by qualified
// lookup instead of ::std::shared_ptr inside TripWire.hpp (exactly as vstd::atomic).  It checks an *ownership
// rule* for every shared_ptr INSTANCE (the line handles: the static declared line, the slots of the static
// indexed-line table, the members of triggers and detectors):
//
//     a client thread assigns only to instances it constructed itself during the current case.
//
// Instances built on the driver's main thread (static tables, the harness's explicit lines) or in an earlier
// case are shared by all client threads without any lock, so they must be read-only once threads run; the
// members of a thread's own triggers (move assignment) are its own.  An assignment that respects the rule is
// invisible (no event, no scheduling point): the traces of correct code are unchanged and the model needs
// no step for it.  An assignment that breaks it becomes a scheduling point followed by `K_FAULT <instance> 6`,
// *before* the assignment is carried out - so the scheduler can put another thread's accesses to the same
// slot into the window (check-then-assign races become reachable states), and the `slot_assigned` monitor
// reports the event itself.  Reads (operator bool, ->, copies) are never events.
// Everything else std::shared_ptr offers is inherited unchanged (all constructors incl. deleter / allocator /
// unique_ptr / weak_ptr forms, array forms, reset, swap, owner_before, ...); the constructors that line handles
// are normally built with (default, converting copies and moves, raw pointer, aliasing) are re-declared only to
// record the constructing thread.  make_shared / allocate_shared are the real ones (their result converts).
// Include after vstd.hpp / vpay.hpp and before `#define std vstd`.
#pragma once
#include "vstd.hpp"
#include "vpay.hpp"

namespace vs {
struct SlotReg {
    ::std::map<const void*, int> owner;  // instance address -> client thread that constructed it (this case)
    void reset() { owner.clear(); }
    void born(const void* a)
    {
        if (active()) owner[a] = Sched::me();
        else if (!owner.empty()) owner.erase(a);
    }
    void gone(const void* a)
    {
        if (!owner.empty()) owner.erase(a);
    }
    void assign(const void* a)
    {
        if (!active()) return;
        auto it = owner.find(a);
        if (it != owner.end() && it->second == Sched::me()) return;
        S().visible(K_FAULT, a);
        fault(a, 6);
    }
};
inline SlotReg& slotreg()
{
    static SlotReg r;
    return r;
}
}  // namespace vs

namespace vstd {
template<class T>
class shared_ptr: public ::std::shared_ptr<T> {
    using base = ::std::shared_ptr<T>;

  public:
    using element_type = typename base::element_type;
    using base::base;
    using base::operator=;
    shared_ptr() noexcept { vs::slotreg().born(this); }
    shared_ptr(::std::nullptr_t) noexcept { vs::slotreg().born(this); }  // NOLINT
    template<class U>
    shared_ptr(const ::std::shared_ptr<U>& b): base(b)  // NOLINT (make_shared results, converting copies)
    {
        vs::slotreg().born(this);
    }
    template<class U>
    shared_ptr(::std::shared_ptr<U>&& b) noexcept: base(::std::move(b))  // NOLINT
    {
        vs::slotreg().born(this);
    }
    template<class U>
    explicit shared_ptr(U* p): base(p)
    {
        vs::slotreg().born(this);
    }
    // aliasing constructors: share ownership with r, point to p
    template<class U>
    shared_ptr(const ::std::shared_ptr<U>& r, element_type* p) noexcept: base(r, p)
    {
        vs::slotreg().born(this);
    }
    shared_ptr(const shared_ptr& o): base(static_cast<const base&>(o)) { vs::slotreg().born(this); }
    shared_ptr(shared_ptr&& o) noexcept: base(::std::move(static_cast<base&>(o))) { vs::slotreg().born(this); }
    shared_ptr& operator=(const shared_ptr& o)
    {
        vs::slotreg().assign(this);
        base::operator=(static_cast<const base&>(o));
        return *this;
    }
    shared_ptr& operator=(shared_ptr&& o) noexcept
    {
        vs::slotreg().assign(this);
        base::operator=(::std::move(static_cast<base&>(o)));
        return *this;
    }
    template<class U>
    shared_ptr& operator=(const ::std::shared_ptr<U>& o)
    {
        vs::slotreg().assign(this);
        base::operator=(o);
        return *this;
    }
    template<class U>
    shared_ptr& operator=(::std::shared_ptr<U>&& o) noexcept
    {
        vs::slotreg().assign(this);
        base::operator=(::std::move(o));
        return *this;
    }
    ~shared_ptr() { vs::slotreg().gone(this); }
};
}  // namespace vstd
