// correspondence driver for gmlc/libguarded/deferred_guarded.hpp  (model: coq/Model/DeferredModel.v)
//
// cfg   : <mutex kind> <throwing user-call index>...
//         mutex kind 0 shared_timed_mutex (the default M), 1 shared_mutex, 2 timed_mutex, 3 mutex
// ops   : 0 fid        modify_detach(functor fid)
//         1 fid slot   futures[slot] = modify_async(functor fid); slot 100..199: the functor returns void (future<void>,
//                      get() reported as 0); slot >= 200: the functor returns a reference to the payload (future<VPay&>,
//                      get() reported as 0 when it refers to the protected object, else K_FAULT 11 and -5)
//         2 h          handles[h] = lock_shared()                (no-op, -1, when slot h is in use)
//         3 h          handles[h] = try_lock_shared()
//         4 h          handles[h] = try_lock_shared_for(1ms)     (no-op, -1, when M has no timed forms)
//         5 h          handles[h] = try_lock_shared_until(now+1ms)
//         6 h          read the payload through handle h          (-1 when there is no non-null handle h)
//         7 h          (bool)handles[h]                           (-1 when slot h is empty)
//         8 h          destroy handle h
//         9            load()
//         10 slot      is futures[slot] ready?   -1 no future, 0 not ready, 1 ready
//         11 slot      futures[slot].get() without blocking: -1 no future, -2 not ready, -3 the functor threw,
//                      -4 any other exception (broken promise), otherwise the value
// functor fid: vs::user_call(fid); x.write(apply_f(fid, x.read())); (modify_async: returns the new value)
//   apply_f(fid, v) = 16 v + fid for fid < 100 (payload = log of the applied functors), = fid otherwise (long bursts)
#include "vstd.hpp"
#include "vpay.hpp"
#define std vstd
#define private public  // harness-side only: final() peeks at the state without events
#include "gmlc/libguarded/deferred_guarded.hpp"
#undef private
#undef std
#define VS_OWN_OPERATOR_NEW  // this driver replaces the global operator new / delete itself (see below)
#include "driver.hpp"

// Object ids in the trace are assigned per address.  The library frees each task runner (and with it the
// runner's mutex) after the drain, and the allocator would hand the same address to the next runner, making
// two different mutexes indistinguishable in the trace.  Frees performed by the client threads are therefore
// postponed to the end of the case (no address is reused within a case).
namespace quarantine {
constexpr size_t CAP = 1 << 16;
static void* held[CAP];
static size_t count = 0;
inline void release_all()
{
    for (size_t i = 0; i < count; ++i) std::free(held[i]);
    count = 0;
}
}  // namespace quarantine
void* operator new(std::size_t n)
{
    void* p = std::malloc(n ? n : 1);
    if (p == nullptr) throw std::bad_alloc();
    std::memset(p, 0xA5, n);  // as driver.hpp does: fresh storage does not read as 0 / false
    return p;
}
void* operator new[](std::size_t n) { return operator new(n); }
void operator delete(void* p) noexcept
{
    if (p == nullptr) return;
    if (vs::active() && quarantine::count < quarantine::CAP) {
        quarantine::held[quarantine::count++] = p;
        return;
    }
    std::free(p);
}
void operator delete[](void* p) noexcept { operator delete(p); }
void operator delete(void* p, std::size_t) noexcept { operator delete(p); }
void operator delete[](void* p, std::size_t) noexcept { operator delete(p); }

namespace {
// The payload: vs::VPay plus a recognisable initializer_list constructor (JSON-like / vector<any>-like types have
// one).  List-initialisation from a payload - `T newObj{*handle}` instead of `T newObj(*handle)` - selects it, and
// the new object is then a one-element WRAPPER, not a copy of the stored value: reported as K_FAULT code 9, the
// value is the sentinel -9999.  Nothing in the unmodified library or in this driver list-initialises a payload
// from a payload (the explicit VPay(long) keeps `T{n}` away from it), so it is never selected on the unchanged tree.
struct VPay: vs::VPay {
    explicit VPay(long x): vs::VPay(x) {}
    VPay(const VPay&) = default;
    VPay(VPay&&) = default;
    VPay(std::initializer_list<VPay> il): vs::VPay(-9999L)
    {
        (void)il;
        vs::fault(this, 9);
    }
};
inline long apply_f(long fid, long v) { return fid < 100 ? v * 16 + fid : fid; }
// the pending flag without an event, whatever its type (instrumented atomic, or a plain bool after a change)
template<class F>
auto peek_flag(const F& f, int) -> decltype(f.vs_peek(), true)
{
    return f.vs_peek();
}
template<class F>
bool peek_flag(const F& f, long)
{
    return static_cast<bool>(f);
}

struct IInst {
    virtual ~IInst() = default;
    virtual long op(int tid, const std::vector<long>& o) = 0;
    virtual void final(std::vector<std::vector<long>>& out) = 0;
};

template<class M>
struct mutex_traits {
    static constexpr bool timed = false;
    static long owner_free(const M& m) { return m.owner == -1 ? 1 : 0; }
    static long sharers(const M&) { return 0; }
};
template<>
struct mutex_traits<vstd::timed_mutex> {
    static constexpr bool timed = true;
    static long owner_free(const vstd::timed_mutex& m) { return m.owner == -1 ? 1 : 0; }
    static long sharers(const vstd::timed_mutex&) { return 0; }
};
template<>
struct mutex_traits<vstd::shared_mutex> {
    static constexpr bool timed = false;
    static long owner_free(const vstd::shared_mutex& m) { return m.owner == -1 ? 1 : 0; }
    static long sharers(const vstd::shared_mutex& m) { return (long)m.sharers.size(); }
};
template<>
struct mutex_traits<vstd::shared_timed_mutex> {
    static constexpr bool timed = true;
    static long owner_free(const vstd::shared_timed_mutex& m) { return m.owner == -1 ? 1 : 0; }
    static long sharers(const vstd::shared_timed_mutex& m) { return (long)m.sharers.size(); }
};

template<class M>
struct Inst: IInst {
    using DG = gmlc::libguarded::deferred_guarded<VPay, M>;
    using Handle = typename DG::shared_handle;
    DG dg;
    // per-thread tables; declared after dg so that they are destroyed first
    std::vector<std::map<long, std::unique_ptr<Handle>>> handles;
    std::vector<std::map<long, std::future<long>>> futures;
    std::vector<std::map<long, std::future<void>>> vfutures;  // slots 100..199
    std::vector<std::map<long, std::future<VPay&>>> rfutures;  // slots >= 200: the functor returns a reference to the payload

    explicit Inst(int nthreads): dg(0L), handles(nthreads), futures(nthreads), vfutures(nthreads), rfutures(nthreads) {}

    template<class F>
    long acquire(int tid, long h, F&& f)
    {
        auto& tab = handles[tid];
        if (tab.count(h) != 0) return -1;
        tab[h] = std::unique_ptr<Handle>(new Handle(f()));
        return (bool)(*tab[h]) ? 1 : 0;
    }

    long op(int tid, const std::vector<long>& o) override
    {
        switch (o[0]) {
            case 0: {
                long fid = o[1];
                dg.modify_detach([fid](VPay& x) {
                    vs::user_call(fid);
                    x.write(apply_f(fid, x.read()));
                });
                return 0;
            }
            case 1: {
                long fid = o[1];
                if (o[2] >= 200) {
                    // reference-returning modification function: the future must refer to the protected object itself
                    std::future<VPay&> fut = dg.modify_async([fid](VPay& x) -> VPay& {
                        vs::user_call(fid);
                        x.write(apply_f(fid, x.read()));
                        return x;
                    });
                    rfutures[tid][o[2]] = std::move(fut);
                    return 0;
                }
                if (o[2] >= 100) {
                    std::future<void> fut = dg.modify_async([fid](VPay& x) {
                        vs::user_call(fid);
                        x.write(apply_f(fid, x.read()));
                    });
                    vfutures[tid][o[2]] = std::move(fut);
                    return 0;
                }
                // the old future of the slot (if any) is dropped when the call has returned
                std::future<long> fut = dg.modify_async([fid](VPay& x) -> long {
                    vs::user_call(fid);
                    long v = apply_f(fid, x.read());
                    x.write(v);
                    return v;
                });
                futures[tid][o[2]] = std::move(fut);
                return 0;
            }
            case 2: return acquire(tid, o[1], [&] { return dg.lock_shared(); });
            case 3: return acquire(tid, o[1], [&] { return dg.try_lock_shared(); });
            case 4:
                if constexpr (mutex_traits<M>::timed) {
                    {
                    // optional third argument (ignored by the model): 1 = zero duration, 2 = negative duration
                    const long z = o.size() > 2 ? o[2] : 0;
                    const auto d = std::chrono::milliseconds(z == 1 ? 0 : (z == 2 ? -5 : 1));
                    return acquire(tid, o[1], [&] { return dg.try_lock_shared_for(d); });
                }
                } else {
                    return -1;
                }
            case 5:
                if constexpr (mutex_traits<M>::timed) {
                    {
                    // optional third argument (ignored by the model): 1 = default-constructed (epoch) deadline, 2 = now - 1 h
                    const long z = o.size() > 2 ? o[2] : 0;
                    const auto now = std::chrono::steady_clock::now();
                    const auto tp = z == 1 ? std::chrono::steady_clock::time_point{}
                                           : (z == 2 ? now - std::chrono::hours(1) : now + std::chrono::milliseconds(1));
                    return acquire(tid, o[1], [&] { return dg.try_lock_shared_until(tp); });
                }
                } else {
                    return -1;
                }
            case 6: {
                auto it = handles[tid].find(o[1]);
                if (it == handles[tid].end() || !(bool)(*it->second)) return -1;
                return (*it->second)->read();
            }
            case 7: {
                auto it = handles[tid].find(o[1]);
                if (it == handles[tid].end()) return -1;
                return (bool)(*it->second) ? 1 : 0;
            }
            case 8: {
                auto it = handles[tid].find(o[1]);
                if (it == handles[tid].end()) return -1;
                handles[tid].erase(it);  // ~shared_lock_handle: releases the lock when it owns it
                return 0;
            }
            case 9: return dg.load().peek();
            case 10: {
                if (o[1] >= 200) {
                    auto rit = rfutures[tid].find(o[1]);
                    if (rit == rfutures[tid].end()) return -1;
                    return rit->second.wait_for(std::chrono::seconds(0)) == std::future_status::ready ? 1 : 0;
                }
                if (o[1] >= 100) {
                    auto vit = vfutures[tid].find(o[1]);
                    if (vit == vfutures[tid].end()) return -1;
                    return vit->second.wait_for(std::chrono::seconds(0)) == std::future_status::ready ? 1 : 0;
                }
                auto it = futures[tid].find(o[1]);
                if (it == futures[tid].end()) return -1;
                return it->second.wait_for(std::chrono::seconds(0)) == std::future_status::ready ? 1 : 0;
            }
            case 11: {
                if (o[1] >= 200) {
                    auto rit = rfutures[tid].find(o[1]);
                    if (rit == rfutures[tid].end()) return -1;
                    if (rit->second.wait_for(std::chrono::seconds(0)) != std::future_status::ready) return -2;
                    long r = 0;
                    try {
                        VPay& ref = rit->second.get();
                        if (&ref != &dg.m_obj) {  // the future refers to something else than the protected object (a dead copy)
                            vs::fault(&dg.m_obj, 11);
                            r = -5;
                        }
                    }
                    catch (const vs::VThrow&) {
                        r = -3;
                    }
                    catch (...) {
                        r = -4;
                    }
                    rfutures[tid].erase(rit);
                    return r;
                }
                if (o[1] >= 100) {
                    auto vit = vfutures[tid].find(o[1]);
                    if (vit == vfutures[tid].end()) return -1;
                    if (vit->second.wait_for(std::chrono::seconds(0)) != std::future_status::ready) return -2;
                    long r = 0;
                    try {
                        vit->second.get();
                    }
                    catch (const vs::VThrow&) {
                        r = -3;
                    }
                    catch (...) {
                        r = -4;
                    }
                    vfutures[tid].erase(vit);
                    return r;
                }
                auto it = futures[tid].find(o[1]);
                if (it == futures[tid].end()) return -1;
                if (it->second.wait_for(std::chrono::seconds(0)) != std::future_status::ready) return -2;
                long r;
                try {
                    r = it->second.get();
                }
                catch (const vs::VThrow&) {
                    r = -3;
                }
                catch (...) {
                    r = -4;
                }
                futures[tid].erase(it);
                return r;
            }
        }
        return -9;
    }

    void final(std::vector<std::vector<long>>& out) override
    {
#ifndef VS_NO_PEEK
        out.push_back({dg.m_obj.peek(), peek_flag(dg.m_pendingWrites, 0) ? 1L : 0L, (long)dg.m_pendingList.m_obj.size(),
                       mutex_traits<M>::owner_free(dg.m_mutex), mutex_traits<M>::sharers(dg.m_mutex)});
#endif
    }
};
}  // namespace

struct DeferredComp {
    std::unique_ptr<IInst> inst;
    explicit DeferredComp(const vs::Case& c)
    {
        long mk = c.cfg.empty() ? 0 : c.cfg[0];
        std::vector<long> thr;
        for (size_t i = 1; i < c.cfg.size(); ++i) thr.push_back(c.cfg[i]);
        vs::plan().reset(thr);
        int n = (int)c.progs.size();
        switch (mk) {
            case 1: inst.reset(new Inst<vstd::shared_mutex>(n)); break;
            case 2: inst.reset(new Inst<vstd::timed_mutex>(n)); break;
            case 3: inst.reset(new Inst<vstd::mutex>(n)); break;
            default: inst.reset(new Inst<vstd::shared_timed_mutex>(n)); break;
        }
    }
    ~DeferredComp()
    {
        inst.reset();
        quarantine::release_all();
    }
    long op(int tid, const std::vector<long>& o) { return inst->op(tid, o); }
    void final(std::vector<std::vector<long>>& out) { inst->final(out); }
};
int main(int argc, char** argv) { return vs::drive<DeferredComp>(argc, argv); }
