// correspondence driver for gmlc/concurrency/Latch.hpp  (model: coq/Model/LatchModel.v)
#include "vstd.hpp"
#define std vstd
#define private public  // harness-side only: lets final() read the counter without an event
#include "gmlc/concurrency/Latch.hpp"
#undef private
#undef std
#include "driver.hpp"

struct LatchComp {
    gmlc::concurrency::Latch latch;
    explicit LatchComp(const vs::Case& c): latch((int)(c.cfg.empty() ? 0 : c.cfg[0])) {}
    long op(int, const std::vector<long>& o)
    {
        switch (o[0]) {
            case 0: latch.arrive(); break;
            case 1: latch.wait(); break;
            case 2: latch.arrive_and_wait(); break;
        }
        return 0;
    }
    void final(std::vector<std::vector<long>>& out)
    {
#ifndef VS_NO_PEEK
        out.push_back({(long)latch.counter_.vs_peek()});
#else
        (void)out;
#endif
    }
};
int main(int argc, char** argv) { return vs::drive<LatchComp>(argc, argv); }
