// correspondence driver for TWO ordered_guarded objects X, Y of one instantiation and nested calls X -> Y
// (model: coq/Model/Wrapper2Model.v; the single-object driver code of wrapper_drv.cpp is reused).
//
// cfg = mutexkind initX initY payloadkind     (payloadkind 0: vs::WPay, otherwise a plain long)
// ops = c ...         operation c of wrapper_drv.cpp on X
//       100 + c ...   the same on Y
//       50 fid c ...  X.modify(f) with f = { vs::user_call(fid); Y.<operation c ...>; ++x; }   (c: modify / read / load)
//       60            X = Y;  (the wrapper itself is the right-hand side)
//                     result: as Modify fid (the new value of x when fid is odd, otherwise 0)
// A nested call is an ordinary call of the library made on the client thread inside the functor: it has no
// K_INVOKE / K_RET of its own.  final(): value / owner / sharers of X, of Y, then the fault and call counters.
#define WRAPPER_NO_MAIN
#include "wrapper_drv.cpp"

struct IWrap2 {
    virtual ~IWrap2() = default;
    virtual long op(int tid, const std::vector<long>& o) = 0;
    virtual void final(std::vector<std::vector<long>>& out) = 0;
};

template<class M, class P>
struct Wrap2: IWrap2 {
    using One = Wrap<4, M, P>;
    using PA = Pay<P>;
    One x, y;
    Wrap2(const vs::Case& c, long ix, long iy): x(c, true, ix), y(c, true, iy) {}
    long op(int tid, const std::vector<long>& o) override
    {
        const long code = o.empty() ? -1 : o[0];
        if (code == 50) {
            const long fid = o.size() > 1 ? o[1] : 0;
            std::vector<long> inner(o.begin() + (o.size() > 2 ? 2 : o.size()), o.end());
            One* py = &y;
            auto body = [fid, tid, py, &inner](P& p) -> long {
                vs::user_call(fid);
                if (!inner.empty()) py->op(tid, inner);  // Y.modify / Y.read / Y.load from inside X's functor
                long v = PA::rd(p);
                PA::wr(p, v + 1);
                return v + 1;
            };
            if (fid % 2 == 0) {
                x.w->modify([&body](P& p) { (void)body(p); });
                return 0;
            }
            return x.w->modify(body);
        }
        if (code == 60) {  // X = Y: whole-object assignment from the other wrapper (instrumented payload only)
            if constexpr (std::is_same_v<P, WPay>) { *x.w = *y.w; }
            return 0;
        }
        if (code >= 100) {
            std::vector<long> oy(o);
            oy[0] = code - 100;
            return y.op(tid, oy);
        }
        return x.op(tid, o);
    }
    static void one(One& w, std::vector<std::vector<long>>& out)
    {
#ifndef VS_NO_PEEK
        out.push_back({peek_value<PA>(*w.w, 0), peek_owner(*w.w, 0), peek_sharers(*w.w, 0)});
#else
        (void)w;
        (void)out;
#endif
    }
    void final(std::vector<std::vector<long>>& out) override
    {
        one(x, out);
        one(y, out);
#ifndef VS_NO_PEEK
        out.push_back({vs::plan().faults, vs::plan().calls});
#endif
    }
};

template<class P>
IWrap2* make2(const vs::Case& c, long mk, long ix, long iy)
{
    switch (mk) {
        case 0: return new Wrap2<vstd::mutex, P>(c, ix, iy);
        case 1: return new Wrap2<vstd::timed_mutex, P>(c, ix, iy);
        case 2: return new Wrap2<vstd::shared_mutex, P>(c, ix, iy);
        default: return new Wrap2<vstd::shared_timed_mutex, P>(c, ix, iy);
    }
}

struct Wrapper2Comp {
    std::unique_ptr<IWrap2> w;
    explicit Wrapper2Comp(const vs::Case& c)
    {
        auto cf = [&](size_t i) { return i < c.cfg.size() ? c.cfg[i] : 0L; };
        vs::plan().reset({});
        if (cf(3) != 0)
            w.reset(make2<long>(c, cf(0), cf(1), cf(2)));
        else
            w.reset(make2<WPay>(c, cf(0), cf(1), cf(2)));
    }
    long op(int tid, const std::vector<long>& o) { return w->op(tid, o); }
    void final(std::vector<std::vector<long>>& out) { w->final(out); }
};
int main(int argc, char** argv) { return vs::drive<Wrapper2Comp>(argc, argv); }
