// Component-local payload for the Wrapper driver (wrapper_drv.cpp).
//
// vs::VPay (vpay.hpp) gives every read / write of the wrapped object a two-step
// window, but its copy / assignment cannot throw.  C20 needs "the wrapped type's
// copy or assignment throws", so the wrapper driver wraps a WPay: a VPay whose
// copy construction and (copy / move) assignment are *user code*: they first call
// vs::user_call(FID) - one scheduling point, event K_CALL fid, throws vs::VThrow
// when the case's throw plan names this invocation - and then do what VPay does.
//     copy construction   : K_CALL 901 ; read window on the source
//     copy assignment     : K_CALL 900 ; read window on the source ; write window on *this
//     move assignment     : K_CALL 900 ; write window on *this   (the source's value is read silently)
//     move construction   : silent, noexcept (as VPay)
// Direct accesses read() / write() / incr() (through a handle's operator->, or inside a
// modify / read functor) are VPay's, unchanged.
#pragma once
#include "vpay.hpp"

namespace vs {
constexpr long FID_ASSIGN = 900;
constexpr long FID_COPY = 901;

struct WPay: VPay {
    WPay() = default;
    WPay(long x): VPay(x) {}  // NOLINT
    WPay(const WPay& o): VPay((user_call(FID_COPY), static_cast<const VPay&>(o))) {}
    WPay(WPay&& o) noexcept: VPay(static_cast<VPay&&>(o)) {}
    WPay& operator=(const WPay& o)
    {
        user_call(FID_ASSIGN);
        VPay::operator=(static_cast<const VPay&>(o));
        return *this;
    }
    WPay& operator=(WPay&& o)
    {
        user_call(FID_ASSIGN);
        VPay::operator=(static_cast<VPay&&>(o));
        return *this;
    }
};
}  // namespace vs
