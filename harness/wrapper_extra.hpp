// Component-local payload for the Wrapper driver (wrapper_drv.cpp).
//
// vs::VPay (vpay.hpp) gives every read / write of the wrapped object a two-step
// window, but its copy / assignment cannot throw.  C20 needs "the wrapped type's
// copy or assignment throws", so the wrapper driver wraps a WPay: a VPay whose
// copy construction and (copy / move) assignment are *user code*: they first call
// vs::user_call(FID) - one scheduling point, event K_CALL fid, throws vs::VThrow
// when the case's throw plan names this invocation - and then do what VPay does.
//     copy construction   : K_CALL 901 ; read window on the source
//     copy assignment     : K_CALL 900 ; read window on the source ; write window on *this
//     move assignment     : K_CALL 900 ; write window on *this   (the source's value is read silently)
//     move construction   : silent, noexcept (as VPay)
// Direct accesses read() / write() / incr() (through a handle's operator->, or inside a
// modify / read functor) are VPay's, unchanged.
#pragma once
#include "vpay.hpp"

namespace vs {
constexpr long FID_ASSIGN = 900;
constexpr long FID_COPY = 901;

// WSrc: the caller's own object in `wrapper = lvalue;` (operator= / store from a non-const lvalue).  Assigning
// from it is user code like every WPay assignment (K_CALL 900, write window on the target); copying leaves it
// intact, MOVING from it steals the value and marks it (moved, v = -7) - a forwarding operator= never does that
// to an lvalue.  The source itself is read silently, so `w = src` and `w = WPay(v)` produce the same events.
struct WSrc {
    long v = 0;
    bool moved = false;
};

// user code that cannot throw (a noexcept move assignment): the same scheduling point and K_CALL event as
// user_call, it takes its place in the numbering of the throw plan, but an index of the plan that falls on it
// is ignored (the generator never aims a throw at it)
inline void user_call_nothrow(long fid) noexcept
{
    if (!active()) return;
    S().visible(K_CALL, nullptr);
    plan().calls++;
    S().emit(K_CALL, nullptr, fid);
}

// WPay has the shape of std::string / std::vector: a noexcept move assignment, a copy assignment that may throw.
struct WPay: VPay {
    WPay() = default;
    WPay(long x): VPay(x) {}  // NOLINT
    // (tag, value): lets a wrapper constructor that forwards ALL its arguments to T be viable for `W(intFlag, value)`
    WPay(int /*tag*/, long x): VPay(x) {}
    WPay(const WPay& o): VPay((user_call(FID_COPY), static_cast<const VPay&>(o))) {}
    WPay(WPay&& o) noexcept: VPay(static_cast<VPay&&>(o)) {}
    // `T copy{other};` picks this one instead of the copy constructor: K_FAULT 0 13 and the sentinel value -13
    // (neither the drivers nor the unmodified library list-initialise a payload from a payload)
    inline WPay(std::initializer_list<WPay> l);
    // construction from the caller's object (not used by the unmodified library; lets the driver keep compiling
    // when a change builds a temporary T from the argument of store / operator=)
    explicit WPay(const WSrc& s): VPay(s.v) {}
    explicit WPay(WSrc&& s): VPay(s.v)
    {
        s.moved = true;
        s.v = -7;
    }
    WPay& operator=(const WPay& o)
    {
        user_call(FID_ASSIGN);
        VPay::operator=(static_cast<const VPay&>(o));
        return *this;
    }
    WPay& operator=(WPay&& o) noexcept
    {
        user_call_nothrow(FID_ASSIGN);
        VPay::operator=(static_cast<VPay&&>(o));
        return *this;
    }
    WPay& operator=(const WSrc& s)
    {
        user_call(FID_ASSIGN);
        write(s.v);
        return *this;
    }
    WPay& operator=(WSrc&& s)
    {
        user_call(FID_ASSIGN);
        write(s.v);
        s.moved = true;
        s.v = -7;
        return *this;
    }
};

inline WPay::WPay(std::initializer_list<WPay>): VPay(-13) { fault(nullptr, 13); }

// TPay: a trivially copyable payload whose equality is NOT bitwise and NOT reflexive: operator== compares v only
// (the driver varies tag), and the value TPAY_NAN is unequal to everything, itself included (like a NaN).
// Its accesses are invisible like those of a plain long (payload kind 2, a plain kind for the model); the
// generator never uses TPAY_NAN as the expected value of a compare_exchange.
constexpr long TPAY_NAN = 7;
struct TPay {
    long v;
    long tag;
    bool operator==(const TPay& o) const { return v == o.v && v != TPAY_NAN; }
    bool operator!=(const TPay& o) const { return !(*this == o); }
};
static_assert(std::is_trivially_copyable<TPay>::value, "TPay must be trivially copyable");
}  // namespace vs
