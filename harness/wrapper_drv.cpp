// correspondence driver for the mutex-based wrappers of gmlc/libguarded
//   handles.hpp guarded.hpp guarded_opt.hpp shared_guarded.hpp shared_guarded_opt.hpp
//   ordered_guarded.hpp atomic_guarded.hpp                 (model: coq/Model/WrapperModel.v)
//
// cfg   = flavour mutexkind enabled init payloadkind throw_k...
//   flavour   0 guarded  1 guarded_opt  2 shared_guarded  3 shared_guarded_opt  4 ordered_guarded  5 atomic_guarded
//   mutexkind 0 mutex  1 timed_mutex  2 shared_mutex  3 shared_timed_mutex
//   enabled   the enableLocking constructor argument of the _opt flavours (ignored by the others)
//   init      initial payload value;   throw_k... : indices of the user-code invocations that throw (vs::plan())
//   payloadkind 0: the wrapped type is vs::WPay (instrumented: every access is a window, copy / assignment are
//             user code);  1: a plain `long` - its accesses are invisible, only the mutex operations, the
//             functor calls of modify / read and K_INVOKE / K_RET remain in the trace;  2: vs::TPay, a trivially
//             copyable struct {v, tag} whose operator== ignores tag (invisible accesses like kind 1; the same
//             plain kind for the model)
// ops (first int = code, logged as the K_INVOKE value):
//   0 Lock h  1 TryLock h  2 TryLockFor h  3 TryLockUntil h  4 LockShared h  5 TryLockShared h
//   6 TryLockSharedFor h  7 TryLockSharedUntil h  8 ConstLock h   (result: 1 = handle is true, 0 = null handle)
//   9 Unlock h  10 Destroy h  11 MoveCtor src dst  12 MoveAssign src dst
//   13 Use h acc v guard   acc 0 read / 1 incr / 2 write v through operator->; guard 1 = "if (h)" first
//   14 Bool h  15 Load  16 Store v  17 Assign v [lv]  (lv = 1: `wrapper = lvalue;`, K_FAULT 0 8 if the lvalue
//   was stolen)  18 Modify fid  (functor shape (fid / 2) % 3)  19 Read fid  20 Exchange v
//   21 CompareExchange e d  (result 2*expected_after + success)  22 Cast (operator T() const)
// Every thread has NSLOTS handle slots; a slot holds nothing, a lock_handle or a shared_lock_handle.
// An acquisition into an occupied slot is `slot = wrapper.lock();`: the new handle is acquired first and
// then move-assigned over the old one (which releases the old one's lock if it owned one).
// Conventions shared with the model ("not expressible in C++ / refused by the driver", result -1, no effect):
// a method the (flavour, mutex kind) instantiation does not have, a slot index >= NSLOTS, Unlock / Destroy /
// Bool / Use / Move* naming an empty slot, Move* with src == dst, MoveAssign between handles of different
// types, Use incr / write through a shared (const) handle.  Use on a null handle without guard would be a
// null dereference: the driver logs K_FAULT 0 9 instead of executing it (result -1); with guard it is skipped (-2).
// Handles still alive when a thread's program ends are NOT destroyed by that thread: the generator appends
// explicit Destroy ops; what is left is destroyed un-logged by the driver's main thread after final().
#define VS_STRICT_POSITIVE_LIMITS  // the wrapper drivers only pass positive limits: a limit <= 0 at the mutex was shortened on the way
#include "vstd.hpp"
#include "wrapper_extra.hpp"
#define std vstd
#define private public  // harness-side only: final() reads the mutex / payload without events
#include "gmlc/libguarded/handles.hpp"
#include "gmlc/libguarded/guarded.hpp"
#include "gmlc/libguarded/guarded_opt.hpp"
#include "gmlc/libguarded/shared_guarded.hpp"
#include "gmlc/libguarded/shared_guarded_opt.hpp"
#include "gmlc/libguarded/ordered_guarded.hpp"
#include "gmlc/libguarded/atomic_guarded.hpp"
#undef private
#undef std
#include "driver.hpp"

namespace lg = gmlc::libguarded;
using vs::WPay;
constexpr int NSLOTS = 3;

// access to the two payload kinds
template<class P>
struct Pay;
template<>
struct Pay<WPay> {
    static long rd(const WPay& p) { return p.read(); }
    static void wr(WPay& p, long v) { p.write(v); }
    static long peek(const WPay& p) { return p.peek(); }
    static void poke(WPay& p, long v) { p.v = v; }
    static WPay mk(long v) { return WPay(v); }
};
template<>
struct Pay<long> {
    static long rd(const long& p) { return p; }
    static void wr(long& p, long v) { p = v; }
    static long peek(const long& p) { return p; }
    static void poke(long& p, long v) { p = v; }
    static long mk(long v) { return v; }
};
inline long next_tag()
{
    static long t = 0;  // only ever touched by the thread holding the baton
    return ++t;
}
template<>
struct Pay<vs::TPay> {
    static long rd(const vs::TPay& p) { return p.v; }
    static void wr(vs::TPay& p, long v)
    {
        p.v = v;
        p.tag = next_tag();
    }
    static long peek(const vs::TPay& p) { return p.v; }
    static void poke(vs::TPay& p, long v)
    {
        p.v = v;
        p.tag = next_tag();
    }
    static vs::TPay mk(long v) { return vs::TPay{v, next_tag()}; }
};

// functor shapes for ordered_guarded::modify (all of them modify through the non-const overload)
template<class P>
struct ModVisitor {  // both overloads; the const one only reads
    long fid;
    long operator()(P& p) const
    {
        vs::user_call(fid);
        long x = Pay<P>::rd(p);
        Pay<P>::wr(p, x + 1);
        return x + 1;
    }
    long operator()(const P& p) const { return Pay<P>::rd(p); }
};
template<class P>
struct ModVisitorVoid {
    long fid;
    void operator()(P& p) const
    {
        vs::user_call(fid);
        long x = Pay<P>::rd(p);
        Pay<P>::wr(p, x + 1);
    }
    void operator()(const P& p) const { (void)Pay<P>::rd(p); }
};

// final() reads the payload and the mutex of the wrapper without events.  The members are looked up by name
// through SFINAE so that the driver keeps compiling when a change renames or removes them (the value is then
// -2); with -DVS_NO_PEEK no private member is mentioned at all and final() prints nothing.
#ifndef VS_NO_PEEK
template<class M>
long sharers_of_any(const M&)
{
    return 0;
}
inline long sharers_of_any(const vstd::shared_mutex& m) { return (long)m.sharers.size(); }
inline long sharers_of_any(const vstd::shared_timed_mutex& m) { return (long)m.sharers.size(); }
template<class W>
auto peek_owner(W& w, int) -> decltype((long)w.m_mutex.owner)
{
    return (long)w.m_mutex.owner;
}
template<class W>
long peek_owner(W&, long)
{
    return -2;
}
template<class W>
auto peek_sharers(W& w, int) -> decltype(sharers_of_any(w.m_mutex))
{
    return sharers_of_any(w.m_mutex);
}
template<class W>
long peek_sharers(W&, long)
{
    return -2;
}
template<class PA, class W>
auto peek_value(W& w, int) -> decltype(PA::peek(w.m_obj))
{
    return PA::peek(w.m_obj);
}
template<class PA, class W>
long peek_value(W&, long)
{
    return -2;
}
#endif
// tags of the TPay objects already returned by an exchange (each written object is replaced exactly once)
inline std::set<long>& consumed_tags()
{
    static std::set<long> s;
    return s;
}

struct IWrap {
    virtual ~IWrap() = default;
    virtual long op(int tid, const std::vector<long>& o) = 0;
    virtual void final(std::vector<std::vector<long>>& out) = 0;
};

template<int FL, class M, class P>
struct WType;
template<class M, class P>
struct WType<0, M, P> {
    using type = lg::guarded<P, M>;
};
template<class M, class P>
struct WType<1, M, P> {
    using type = lg::guarded_opt<P, M>;
};
template<class M, class P>
struct WType<2, M, P> {
    using type = lg::shared_guarded<P, M>;
};
template<class M, class P>
struct WType<3, M, P> {
    using type = lg::shared_guarded_opt<P, M>;
};
template<class M, class P>
struct WType<4, M, P> {
    using type = lg::ordered_guarded<P, M>;
};
template<class M, class P>
struct WType<5, M, P> {
    using type = lg::atomic_guarded<P, M>;
};
// 6: atomic_guarded<T> with its DEFAULT mutex argument (std::mutex on the unmodified library: the same type as <T, M>)
template<class M, class P>
struct WType<6, M, P> {
    using type = lg::atomic_guarded<P>;
};

template<class M>
long sharers_of(const M&)
{
    return 0;
}
inline long sharers_of(const vstd::shared_mutex& m) { return (long)m.sharers.size(); }
inline long sharers_of(const vstd::shared_timed_mutex& m) { return (long)m.sharers.size(); }

template<int FL, class M, class P>
struct Wrap: IWrap {
    using W = typename WType<FL, M, P>::type;
    using XH = lg::lock_handle<P, M>;
    using SH = lg::shared_lock_handle<P, M>;
    using PA = Pay<P>;
    static constexpr bool isOpt = (FL == 1 || FL == 3);
    static constexpr bool hasX = (FL <= 3);
    static constexpr bool hasS = (FL >= 2 && FL <= 4);
    static constexpr bool hasConst = (FL == 2 || FL == 3);
    static constexpr bool hasLS = (FL == 0 || FL == 1 || FL == 4 || FL == 5 || FL == 6);
    static constexpr bool hasFn = (FL == 4);
    static constexpr bool hasXc = (FL == 5 || FL == 6);
    static constexpr bool hasCast = (FL == 4 || FL == 5 || FL == 6);
    static constexpr bool timed = std::is_same_v<M, vstd::timed_mutex> || std::is_same_v<M, vstd::shared_timed_mutex>;

    struct Slot {
        std::optional<XH> x;
        std::optional<SH> s;
        bool occupied() const { return x.has_value() || s.has_value(); }
        bool truth() const { return x ? bool(*x) : bool(*s); }
    };
    std::unique_ptr<W> w;
    std::vector<std::array<Slot, NSLOTS>> slots;
    std::vector<P> expected;  // compare_exchange's in/out argument: one per thread, stable address
    std::vector<vs::WSrc> sources;  // the caller's lvalue of `wrapper = lvalue;`, one per thread

    // intflag: the enableLocking argument is passed as an int 0 / 1 (a C-style flag) instead of a bool: the same
    // object on the unmodified library, where the only constructors take `bool enableLocking` first
    static W* build(bool en, long init, bool intflag)
    {
        if constexpr (isOpt) {
            if (intflag) {
                const int flag = en ? 1 : 0;
                if constexpr (std::is_same_v<P, vs::TPay>) {
                    return new W(flag, PA::mk(init));
                } else {
                    return new W(flag, init);
                }
            }
            // relocate: build the wrapper and move it to its final place before use - only for a wrapper type that
            // is move constructible at all (the unmodified guarded_opt / shared_guarded_opt are not)
            if constexpr (std::is_move_constructible_v<W>) {
                if (init % 3 == 1) {
                    W tmp(en, PA::mk(init));
                    return new W(std::move(tmp));
                }
            }
            return new W(en, PA::mk(init));
        } else {
            return new W(PA::mk(init));
        }
    }
    Wrap(const vs::Case& c, bool en, long init): w(build(en, init, ((c.cfg.size() > 3 ? c.cfg[3] : 0) + (c.cfg.size() > 1 ? c.cfg[1] : 0)) % 2 != 0)), slots(c.progs.size()), expected(c.progs.size()), sources(c.progs.size()) {}

    static long installX(Slot& sl, XH&& tmp)
    {
        if (sl.x) {
            *sl.x = std::move(tmp);  // move assignment: releases the lock the old handle owned
        } else {
            sl.s.reset();
            sl.x.emplace(std::move(tmp));
        }
        return bool(*sl.x) ? 1 : 0;
    }
    static long installS(Slot& sl, SH&& tmp)
    {
        if (sl.s) {
            *sl.s = std::move(tmp);
        } else {
            sl.x.reset();
            sl.s.emplace(std::move(tmp));
        }
        return bool(*sl.s) ? 1 : 0;
    }

    long op(int tid, const std::vector<long>& o) override
    {
        auto arg = [&](size_t i) { return i < o.size() ? o[i] : 0L; };
        const long code = arg(0);
        const long h = arg(1);
        auto& my = slots[tid];
        const auto ms = std::chrono::milliseconds(1);
        if (code <= 14 && (h < 0 || h >= NSLOTS)) return -1;
        switch (code) {
            case 0:
                if constexpr (hasX) return installX(my[h], w->lock());
                return -1;
            case 1:
                if constexpr (hasX) return installX(my[h], w->try_lock());
                return -1;
            case 2:
                if constexpr (hasX && timed) {
                    // second argument: the (positive) limit in another representation, below one millisecond
                    if (arg(2) == 1) return installX(my[h], w->try_lock_for(std::chrono::microseconds(900)));
                    if (arg(2) == 2) return installX(my[h], w->try_lock_for(std::chrono::nanoseconds(250000)));
                    if (arg(2) == 3) return installX(my[h], w->try_lock_for(std::chrono::duration<double, std::milli>(0.9)));
                    return installX(my[h], w->try_lock_for(ms));
                }
                return -1;
            case 3:
                if constexpr (hasX && timed) {
                    // second argument 1: "no deadline" = time_point::max() (identical on the shim: a timed attempt)
                    if (arg(2) == 1) return installX(my[h], w->try_lock_until(std::chrono::steady_clock::time_point::max()));
                    return installX(my[h], w->try_lock_until(std::chrono::steady_clock::now() + ms));
                }
                return -1;
            case 4:
                if constexpr (hasS) return installS(my[h], w->lock_shared());
                return -1;
            case 5:
                if constexpr (hasS) return installS(my[h], w->try_lock_shared());
                return -1;
            case 6:
                if constexpr (hasS && timed) {
                    if (arg(2) == 1) return installS(my[h], w->try_lock_shared_for(std::chrono::microseconds(900)));
                    if (arg(2) == 2) return installS(my[h], w->try_lock_shared_for(std::chrono::nanoseconds(250000)));
                    if (arg(2) == 3)
                        return installS(my[h], w->try_lock_shared_for(std::chrono::duration<double, std::milli>(0.9)));
                    return installS(my[h], w->try_lock_shared_for(ms));
                }
                return -1;
            case 7:
                if constexpr (hasS && timed) {
                    if (arg(2) == 1)
                        return installS(my[h], w->try_lock_shared_until(std::chrono::steady_clock::time_point::max()));
                    return installS(my[h], w->try_lock_shared_until(std::chrono::steady_clock::now() + ms));
                }
                return -1;
            case 8:
                if constexpr (hasConst) return installS(my[h], static_cast<const W&>(*w).lock());
                return -1;
            case 9: {
                Slot& sl = my[h];
                if (!sl.occupied()) return -1;
                if (sl.x)
                    sl.x->unlock();
                else
                    sl.s->unlock();
                return 0;
            }
            case 10: {
                Slot& sl = my[h];
                if (!sl.occupied()) return -1;
                sl.x.reset();
                sl.s.reset();
                return 0;
            }
            case 11: {
                const long d = arg(2);
                if (d < 0 || d >= NSLOTS || d == h || !my[h].occupied()) return -1;
                Slot& S = my[h];
                Slot& D = my[d];
                D.x.reset();
                D.s.reset();
                if (S.x)
                    D.x.emplace(std::move(*S.x));
                else
                    D.s.emplace(std::move(*S.s));
                return 0;
            }
            case 12: {
                const long d = arg(2);
                if (d < 0 || d >= NSLOTS || d == h || !my[h].occupied() || !my[d].occupied()) return -1;
                Slot& S = my[h];
                Slot& D = my[d];
                if (S.x.has_value() != D.x.has_value()) return -1;
                if (S.x)
                    *D.x = std::move(*S.x);
                else
                    *D.s = std::move(*S.s);
                return 0;
            }
            case 13: {
                Slot& sl = my[h];
                const long acc = arg(2), v = arg(3), guard = arg(4);
                if (!sl.occupied()) return -1;
                if (sl.s && acc != 0) return -1;
                if (acc < 0 || acc > 2) return -1;
                if (!sl.truth()) {
                    if (guard != 0) return -2;
                    vs::fault(nullptr, 9);
                    return -1;
                }
                if (sl.s) return PA::rd(**sl.s);
                XH& hx = *sl.x;
                if (acc == 0) return PA::rd(*hx);
                if (acc == 1) {
                    long x = PA::rd(*hx);
                    PA::wr(*hx, x + 1);
                    return x + 1;
                }
                PA::wr(*hx, v);
                return 0;
            }
            case 14:
                if (!my[h].occupied()) return -1;
                return my[h].truth() ? 1 : 0;
            case 15:
                if constexpr (hasLS) {
                    P r = w->load();
                    return PA::peek(r);
                }
                return -1;
            case 16:
                if constexpr (hasLS) {
                    if (arg(2) != 0) {
                        // store(lvalue): the caller's object must be intact afterwards
                        if constexpr (std::is_same_v<P, WPay>) {
                            vs::WSrc& src = sources[tid];
                            src.v = arg(1);
                            src.moved = false;
                            w->store(src);
                            if (src.moved || src.v != arg(1)) vs::fault(nullptr, 8);
                        } else {
                            P src = PA::mk(arg(1));
                            w->store(src);
                            if (PA::peek(src) != arg(1)) vs::fault(nullptr, 8);
                        }
                        return 0;
                    }
                    w->store(PA::mk(arg(1)));
                    return 0;
                }
                return -1;
            case 17:
                if constexpr (hasLS) {
                    if (arg(2) != 0) {
                        // `wrapper = lvalue;` : the caller's object must be intact afterwards
                        if constexpr (std::is_same_v<P, WPay>) {
                            vs::WSrc& src = sources[tid];
                            src.v = arg(1);
                            src.moved = false;
                            *w = src;
                            if (src.moved || src.v != arg(1)) vs::fault(nullptr, 8);
                        } else {
                            P src = PA::mk(arg(1));
                            *w = src;
                            if (PA::peek(src) != arg(1)) vs::fault(nullptr, 8);
                        }
                        return 0;
                    }
                    *w = PA::mk(arg(1));
                    return 0;
                }
                return -1;
            case 18:
                if constexpr (hasFn) {
                    const long fid = arg(1);
                    // functor shape (invisible to the model: all three modify through a non-const reference):
                    // 0 lambda taking T&; 1 visitor with operator()(T&) and operator()(const T&);
                    // 2 generic lambda with an explicit return type
                    const long shape = (fid / 2) % 3;
                    if (fid % 2 == 0) {
                        if (shape == 1) {
                            w->modify(ModVisitorVoid<P>{fid});
                        } else if (shape == 2) {
                            w->modify([fid](auto& p) -> void {
                                vs::user_call(fid);
                                long x = PA::rd(p);
                                PA::wr(p, x + 1);
                            });
                        } else {
                            w->modify([fid](P& p) {
                                vs::user_call(fid);
                                long x = PA::rd(p);
                                PA::wr(p, x + 1);
                            });
                        }
                        return 0;
                    }
                    if (shape == 1) return w->modify(ModVisitor<P>{fid});
                    if (shape == 2)
                        return w->modify([fid](auto& p) -> long {
                            vs::user_call(fid);
                            long x = PA::rd(p);
                            PA::wr(p, x + 1);
                            return x + 1;
                        });
                    return w->modify([fid](P& p) -> long {
                        vs::user_call(fid);
                        long x = PA::rd(p);
                        PA::wr(p, x + 1);
                        return x + 1;
                    });
                }
                return -1;
            case 19:
                if constexpr (hasFn) {
                    const long fid = arg(1);
                    if (fid % 2 == 0) {
                        static_cast<const W&>(*w).read([fid](const P& p) {
                            vs::user_call(fid);
                            (void)PA::rd(p);
                        });
                        return 0;
                    }
                    return static_cast<const W&>(*w).read([fid](const P& p) -> long {
                        vs::user_call(fid);
                        return PA::rd(p);
                    });
                }
                return -1;
            case 20:
                if constexpr (hasXc) {
                    P old = w->exchange(PA::mk(arg(1)));
                    if constexpr (std::is_same_v<P, vs::TPay>) {
                        // exchange returns THE object it replaced: no object is handed out twice
                        if (!consumed_tags().insert(old.tag).second) vs::fault(nullptr, 11);
                    }
                    return PA::peek(old);
                }
                return -1;
            case 21:
                if constexpr (hasXc) {
                    P& e = expected[tid];
                    PA::poke(e, arg(1));
                    bool ok = w->compare_exchange(e, PA::mk(arg(2)));
                    return 2 * PA::peek(e) + (ok ? 1 : 0);
                }
                return -1;
            case 22:
                if constexpr (hasCast) {
                    P r(static_cast<const W&>(*w).operator P());
                    return PA::peek(r);
                }
                return -1;
            default: return -1;
        }
    }
    void final(std::vector<std::vector<long>>& out) override
    {
#ifndef VS_NO_PEEK
        out.push_back({peek_value<PA>(*w, 0), peek_owner(*w, 0), peek_sharers(*w, 0), vs::plan().faults, vs::plan().calls});
#else
        (void)out;
#endif
    }
};

template<int FL, class P>
IWrap* make_k(const vs::Case& c, long mk, bool en, long init)
{
    switch (mk) {
        case 0: return new Wrap<FL, vstd::mutex, P>(c, en, init);
        case 1: return new Wrap<FL, vstd::timed_mutex, P>(c, en, init);
        case 2: return new Wrap<FL, vstd::shared_mutex, P>(c, en, init);
        default: return new Wrap<FL, vstd::shared_timed_mutex, P>(c, en, init);
    }
}
template<int FL>
IWrap* make_p(const vs::Case& c, long mk, bool en, long init, long kind)
{
    if (kind == 2) return make_k<FL, vs::TPay>(c, mk, en, init);
    return kind != 0 ? make_k<FL, long>(c, mk, en, init) : make_k<FL, WPay>(c, mk, en, init);
}

struct WrapperComp {
    std::unique_ptr<IWrap> w;
    explicit WrapperComp(const vs::Case& c)
    {
        auto cf = [&](size_t i) { return i < c.cfg.size() ? c.cfg[i] : 0L; };
        std::vector<long> throws;
        for (size_t i = 5; i < c.cfg.size(); ++i) throws.push_back(c.cfg[i]);
        vs::plan().reset(throws);
        consumed_tags().clear();
        const bool en = cf(2) != 0;
        const long plain = cf(4);
        switch (cf(0)) {
            case 0: w.reset(make_p<0>(c, cf(1), en, cf(3), plain)); break;
            case 1: w.reset(make_p<1>(c, cf(1), en, cf(3), plain)); break;
            case 2: w.reset(make_p<2>(c, cf(1), en, cf(3), plain)); break;
            case 3: w.reset(make_p<3>(c, cf(1), en, cf(3), plain)); break;
            case 4: w.reset(make_p<4>(c, cf(1), en, cf(3), plain)); break;
            default:
                // atomic_guarded over a plain mutex: with an even initial value through the default template argument
                if (cf(1) == 0 && cf(3) % 2 == 0) {
                    if (plain == 2)
                        w.reset(new Wrap<6, vstd::mutex, vs::TPay>(c, en, cf(3)));
                    else if (plain != 0)
                        w.reset(new Wrap<6, vstd::mutex, long>(c, en, cf(3)));
                    else
                        w.reset(new Wrap<6, vstd::mutex, WPay>(c, en, cf(3)));
                } else {
                    w.reset(make_p<5>(c, cf(1), en, cf(3), plain));
                }
                break;
        }
    }
    long op(int tid, const std::vector<long>& o) { return w->op(tid, o); }
    void final(std::vector<std::vector<long>>& out) { w->final(out); }
};
#ifndef WRAPPER_NO_MAIN  // wrapper2_drv.cpp reuses Wrap<FL, M, P>
int main(int argc, char** argv) { return vs::drive<WrapperComp>(argc, argv); }
#endif
