// correspondence driver for gmlc/libguarded/lr_guarded.hpp  (model: coq/Model/LRModel.v)
// T = LPay = vs::VPay (every payload access is a two-step window) with an operator== that is coarser than the
// object state: the functor id 7 is "auxiliary data" that comparisons ignore (digits 7 of the base-8 log are
// skipped).  lr_guarded never compares payloads, so this is invisible on the real code.
// Mutex = std::mutex (instrumented).
// The lr_guarded object is DEFAULT-initialised by placement new (`new (buf) LR;`) into storage pre-filled with
// a poison byte (0x01 when the slot count is odd, 0xFF when even): the variadic constructor with zero arguments
// must run and initialise the flags and counters.
// cfg = <slots per thread> <throw plan: global indices of the user_call invocations that throw>... <flags>...
//       flags are NEGATIVE entries (never equal to an invocation index, so the plan - and the model - ignore them):
//       -1  construct the object from an RVALUE payload `LR(LPay(0))`; LPay's move constructor leaves its source
//           with the recognisable value -7777.  (Without -1: default-initialisation into poisoned storage.)
//           The second copy must be copied from the first, not built from the moved-from argument.
//       -3  the payload's copy assignment throws part-way (write window left open: a torn object) whenever it runs
//           OUTSIDE an exception handler.  lr_guarded assigns payloads only inside its two catch blocks (where
//           std::current_exception() is set), so on the real code this never happens.
//       -4  Mutex = OvMutex: the instrumented mutex with an additional overload lock(int) (a mutex type whose
//           lock() is overloaded: &M::lock is ambiguous); lock_guard calls lock(): same events
//       -2  Mutex = std::timed_mutex instead of std::mutex (same lock/unlock events; the try_lock_shared_for /
//           _until forms ignore their argument and must not touch the write mutex)
// ops:  0 fid   modify(f_fid)        f_fid(x) = user_call(fid); x.write(x.read()*8+fid); user_call(fid+100)
//       0 fid 1 the same modification passed as an RVALUE class object whose call operator is value-category
//               aware: operator()(T&) && behaves like f_fid and then gives up its state (every later call only
//               does user_call(fid+50)).  modify must apply its named parameter (an lvalue) twice, so the
//               && overload never runs and the trace is the same as for `0 fid`.
//       0 fid 3 the same modification by a functor that RETURNS a value (long: fid % 2, i.e. 0 for even fids);
//               modify discards whatever its functor returns: same trace as `0 fid`
//       0 fid 2 the same modification issued from the destructor of a scope guard while an unrelated exception
//               unwinds the stack (std::uncaught_exceptions() > 0 throughout): same trace as `0 fid`; a functor
//               exception is carried out of the destructor by hand and re-raised after the unwinding
//       6 s 1 ; 1 s   "refresh" a held handle: when shared_handle is move-assignable (it is not: the deleter holds
//               a reference) the pair is executed as `h = lr.lock_shared();` at the second op and the first op
//               does nothing; otherwise as written: release, then lock_shared into the same slot
//       6 s 2   release the handle on a DIFFERENT OS thread than the one that took it (a helper std::thread that
//               acts as the same logical thread for the scheduler): same trace as `6 s`; the decrement must hit
//               the counter recorded in the handle, whoever runs the deleter
//       1..4 s  lock_shared / try_lock_shared / try_lock_shared_for / try_lock_shared_until into slot s
//       5 s     read once through the handle in slot s (returns the value)
//       6 s     release the handle in slot s
// A reader op on a slot in the wrong state (occupied for 1..4, empty for 5/6, out of range) returns -1
// without touching the library.
#include "vstd.hpp"
#include "vpay.hpp"
#define std vstd
#define private public  // harness-side only: lets final() read the state without events
#include "gmlc/libguarded/lr_guarded.hpp"
#undef private
#undef std
#include "driver.hpp"
#include <optional>

// payload: VPay with an equality that ignores the auxiliary modifications (fid 7)
struct LPay: vs::VPay {
    using vs::VPay::VPay;
    LPay() = default;
    LPay(const LPay&) = default;
    static bool& assign_throws()
    {
        static bool b = false;
        return b;
    }
    // copy assignment = VPay's (read window on the source, write window on the target); with cfg flag -3 it
    // throws after opening the write window when no exception is being handled (never the case inside
    // lr_guarded's catch blocks, the only places that assign payloads)
    LPay& operator=(const LPay& o)
    {
        if (vs::active() && assign_throws() && !std::current_exception()) {
            (void)o.read();
            vs::S().visible(vs::K_WR_BEGIN, this);
            if (readers > 0) vs::fault(this, 1);
            if (dirty) vs::fault(this, 3);
            dirty = true;
            vs::S().emit(vs::K_WR_BEGIN, this, 0);
            throw vs::VThrow{};
        }
        vs::VPay::operator=(static_cast<const vs::VPay&>(o));
        return *this;
    }
    // destructive move assignment (never used by lr_guarded: its recovery handlers COPY from the other instance;
    // moving would take the published value away from the readers): the source is overwritten with -7777
    LPay& operator=(LPay&& o)
    {
        long x = o.read();
        write(x);
        o.write(-7777);
        return *this;
    }
    // destructive move: the source is left with a recognisable value (no events: moves only happen on the
    // driver thread, before the object exists)
    LPay(LPay&& o) noexcept: vs::VPay(o.v) { o.v = -7777; }
    static long strip7(long v)
    {
        long out = 0, mul = 1;
        for (; v > 0; v /= 8) {
            if (v % 8 != 7) {
                out += (v % 8) * mul;
                mul *= 8;
            }
        }
        return out;
    }
    bool operator==(const LPay& o) const { return strip7(read()) == strip7(o.read()); }
    bool operator!=(const LPay& o) const { return !(*this == o); }
};

// value-category aware functor (see op `0 fid 1`)
struct RvFunctor {
    long fid;
    bool spent = false;
    void body(vs::VPay& x)
    {
        vs::user_call(fid);
        x.write(x.read() * 8 + fid);
        vs::user_call(fid + 100);
    }
    void operator()(vs::VPay& x) &
    {
        if (spent) {
            vs::user_call(fid + 50);
            return;
        }
        body(x);
    }
    void operator()(vs::VPay& x) &&
    {
        if (spent) {
            vs::user_call(fid + 50);
            return;
        }
        body(x);
        spent = true;  // an rvalue call may consume the captured state
    }
};

// peeks at private state for final(): through SFINAE, so that the driver keeps compiling when a change renames
// or restructures a member (the value is then reported as -12345 and the final-state line differs)
template<class A> auto peek_atomic(const A& a, int) -> decltype((long)a.vs_peek()) { return (long)a.vs_peek(); }
template<class A> long peek_atomic(const A&, long) { return -12345; }
template<class A> auto max_atomic(const A& a, int) -> decltype((long)a.vs_peek())
{
    return (long)std::numeric_limits<decltype(a.vs_peek())>::max();
}
template<class A> long max_atomic(const A&, long) { return -12345; }

// a mutex whose lock() is overloaded
struct OvMutex: vstd::mutex {
    using vstd::mutex::lock;
    void lock(int spins)
    {
        (void)spins;
        vstd::mutex::lock();
    }
};

// the component, for one mutex type
template<class M>
struct LRImpl {
    using LR = gmlc::libguarded::lr_guarded<LPay, M>;
    using Handle = typename LR::shared_handle;
    alignas(LR) unsigned char buf[sizeof(LR)];
    LR* lrp;
    // the deleter holds a reference: handles cannot be move-assigned, so they are emplaced
    std::vector<std::vector<std::optional<Handle>>> slots;
    std::vector<std::vector<char>> refresh;  // slot marked by `6 s 1`: the next lock_shared assigns into the handle
    int ns;
    template<class H>
    static void acquire_into(std::optional<H>& h, LR& lr)
    {
        if constexpr (std::is_move_assignable_v<H>) *h = lr.lock_shared();
        else h.emplace(lr.lock_shared());
    }
    LRImpl(const vs::Case& c, bool from_rvalue): ns((int)(c.cfg.empty() ? 0 : c.cfg[0]))
    {
        std::memset(buf, (ns % 2) ? 0x01 : 0xFF, sizeof(LR));
        if (from_rvalue)
            lrp = new (buf) LR(LPay(0L));  // rvalue argument with a destructive move
        else
            lrp = new (buf) LR;  // default-initialisation: no parentheses, no braces
        slots.resize(c.progs.size());
        for (auto& s : slots) s.resize((size_t)ns);
        refresh.assign(c.progs.size(), std::vector<char>((size_t)ns, 0));
    }
    LRImpl(const LRImpl&) = delete;
    ~LRImpl()
    {
        slots.clear();  // handles first
        lrp->~LR();
    }
    void plain_modify(long a)
    {
        lrp->modify([a](vs::VPay& x) {
            vs::user_call(a);
            x.write(x.read() * 8 + a);
            vs::user_call(a + 100);
        });
    }
    long op(int tid, const std::vector<long>& o)
    {
        LR& lr = *lrp;
        const long a = o.size() > 1 ? o[1] : 0;
        const long flag = o.size() > 2 ? o[2] : 0;
        if (o[0] == 0 && flag == 1) {
            lr.modify(RvFunctor{a});
            return 0;
        }
        if (o[0] == 0 && flag == 3) {
            lr.modify([a](vs::VPay& x) -> long {
                vs::user_call(a);
                x.write(x.read() * 8 + a);
                vs::user_call(a + 100);
                return a % 2;
            });
            return 0;
        }
        if (o[0] == 0 && flag == 2) {
            // modify() from a destructor during stack unwinding
            std::exception_ptr fromFunctor;
            try {
                struct Guard {
                    LRImpl& self;
                    long a;
                    std::exception_ptr& out;
                    ~Guard()
                    {
                        try {
                            self.plain_modify(a);
                        }
                        catch (...) {
                            out = std::current_exception();
                        }
                    }
                } guard{*this, a, fromFunctor};
                throw 1;
            }
            catch (int) {
            }
            if (fromFunctor) std::rethrow_exception(fromFunctor);
            return 0;
        }
        if (o[0] == 0) {
            plain_modify(a);
            return 0;
        }
        if (a < 0 || a >= ns) return -1;
        auto& h = slots[(size_t)tid][(size_t)a];
        char& rf = refresh[(size_t)tid][(size_t)a];
        if (o[0] == 6 && flag == 1 && h && std::is_move_assignable_v<Handle>) {
            rf = 1;  // keep the handle: the following lock_shared assigns over it
            return 0;
        }
        if (o[0] == 1 && rf) {
            rf = 0;
            acquire_into(h, lr);
            return 0;
        }
        if (o[0] == 6 && flag == 2 && h) {
            std::thread helper([&h, tid] {
                vs::Sched::me() = tid;  // same logical thread: its operations are scheduled and logged as tid's
                h.reset();
            });
            helper.join();
            return 0;
        }
        switch (o[0]) {
            case 1: if (h) return -1; h.emplace(lr.lock_shared()); return 0;
            case 2: if (h) return -1; h.emplace(lr.try_lock_shared()); return 0;
            case 3: if (h) return -1; h.emplace(lr.try_lock_shared_for(std::chrono::milliseconds(1))); return 0;
            case 4:
                if (h) return -1;
                h.emplace(lr.try_lock_shared_until(std::chrono::steady_clock::now() + std::chrono::milliseconds(1)));
                return 0;
            case 5: if (!h) return -1; return (**h).read();
            case 6: if (!h) return -1; h.reset(); return 0;
        }
        return -1;
    }
    void final(std::vector<std::vector<long>>& out)
    {
#ifndef VS_NO_PEEK
        LR& lr = *lrp;
        out.push_back({lr.m_left.peek(), lr.m_right.peek(), peek_atomic(lr.m_readingLeft, 0),
                       peek_atomic(lr.m_countingLeft, 0), peek_atomic(lr.m_leftReadCount, 0),
                       peek_atomic(lr.m_rightReadCount, 0), vs::plan().faults});
        // the range of the reader counters (the model's are unbounded; it assumes int: LRModel.COUNTER_MAX)
        out.push_back({max_atomic(lr.m_leftReadCount, 0), max_atomic(lr.m_rightReadCount, 0)});
#else
        (void)out;
#endif
    }
};

struct LRComp {
    std::unique_ptr<LRImpl<vstd::mutex>> plain;
    std::unique_ptr<LRImpl<vstd::timed_mutex>> timed;
    std::unique_ptr<LRImpl<OvMutex>> ovl;
    explicit LRComp(const vs::Case& c)
    {
        std::vector<long> plan;
        bool rv = false, tm = false, as = false, ov = false;
        for (size_t i = 1; i < c.cfg.size(); ++i) {
            if (c.cfg[i] == -4) ov = true;
            else if (c.cfg[i] == -3) as = true;
            else if (c.cfg[i] == -1) rv = true;
            else if (c.cfg[i] == -2) tm = true;
            else plan.push_back(c.cfg[i]);
        }
        vs::plan().reset(plan);
        LPay::assign_throws() = as;
        if (ov) ovl.reset(new LRImpl<OvMutex>(c, rv));
        else if (tm) timed.reset(new LRImpl<vstd::timed_mutex>(c, rv));
        else plain.reset(new LRImpl<vstd::mutex>(c, rv));
    }
    long op(int tid, const std::vector<long>& o)
    {
        return ovl ? ovl->op(tid, o) : timed ? timed->op(tid, o) : plain->op(tid, o);
    }
    void final(std::vector<std::vector<long>>& out)
    {
        if (ovl) ovl->final(out);
        else if (timed) timed->final(out);
        else plain->final(out);
    }
};
int main(int argc, char** argv) { return vs::drive<LRComp>(argc, argv); }
