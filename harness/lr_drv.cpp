// correspondence driver for gmlc/libguarded/lr_guarded.hpp  (model: coq/Model/LRModel.v)
// T = LPay = vs::VPay (every payload access is a two-step window) with an operator== that is coarser than the
// object state: the functor id 7 is "auxiliary data" that comparisons ignore (digits 7 of the base-8 log are
// skipped).  lr_guarded never compares payloads, so this is invisible on the real code.
// Mutex = std::mutex (instrumented).
// The lr_guarded object is DEFAULT-initialised by placement new (`new (buf) LR;`) into storage pre-filled with
// a poison byte (0x01 when the slot count is odd, 0xFF when even): the variadic constructor with zero arguments
// must run and initialise the flags and counters.
// cfg = <slots per thread> <throw plan: global indices of the user_call invocations that throw>... <flags>...
//       flags are NEGATIVE entries (never equal to an invocation index, so the plan - and the model - ignore them):
//       -1  construct the object from an RVALUE payload `LR(LPay(0))`; LPay's move constructor leaves its source
//           with the recognisable value -7777.  (Without -1: default-initialisation into poisoned storage.)
//           The second copy must be copied from the first, not built from the moved-from argument.
//       -2  Mutex = std::timed_mutex instead of std::mutex (same lock/unlock events; the try_lock_shared_for /
//           _until forms ignore their argument and must not touch the write mutex)
// ops:  0 fid   modify(f_fid)        f_fid(x) = user_call(fid); x.write(x.read()*8+fid); user_call(fid+100)
//       0 fid 1 the same modification passed as an RVALUE class object whose call operator is value-category
//               aware: operator()(T&) && behaves like f_fid and then gives up its state (every later call only
//               does user_call(fid+50)).  modify must apply its named parameter (an lvalue) twice, so the
//               && overload never runs and the trace is the same as for `0 fid`.
//       0 fid 2 the same modification issued from the destructor of a scope guard while an unrelated exception
//               unwinds the stack (std::uncaught_exceptions() > 0 throughout): same trace as `0 fid`; a functor
//               exception is carried out of the destructor by hand and re-raised after the unwinding
//       1..4 s  lock_shared / try_lock_shared / try_lock_shared_for / try_lock_shared_until into slot s
//       5 s     read once through the handle in slot s (returns the value)
//       6 s     release the handle in slot s
// A reader op on a slot in the wrong state (occupied for 1..4, empty for 5/6, out of range) returns -1
// without touching the library.
#include "vstd.hpp"
#include "vpay.hpp"
#define std vstd
#define private public  // harness-side only: lets final() read the state without events
#include "gmlc/libguarded/lr_guarded.hpp"
#undef private
#undef std
#include "driver.hpp"
#include <optional>

// payload: VPay with an equality that ignores the auxiliary modifications (fid 7)
struct LPay: vs::VPay {
    using vs::VPay::VPay;
    LPay() = default;
    LPay(const LPay&) = default;
    LPay& operator=(const LPay&) = default;
    // destructive move: the source is left with a recognisable value (no events: moves only happen on the
    // driver thread, before the object exists)
    LPay(LPay&& o) noexcept: vs::VPay(o.v) { o.v = -7777; }
    static long strip7(long v)
    {
        long out = 0, mul = 1;
        for (; v > 0; v /= 8) {
            if (v % 8 != 7) {
                out += (v % 8) * mul;
                mul *= 8;
            }
        }
        return out;
    }
    bool operator==(const LPay& o) const { return strip7(read()) == strip7(o.read()); }
    bool operator!=(const LPay& o) const { return !(*this == o); }
};

// value-category aware functor (see op `0 fid 1`)
struct RvFunctor {
    long fid;
    bool spent = false;
    void body(vs::VPay& x)
    {
        vs::user_call(fid);
        x.write(x.read() * 8 + fid);
        vs::user_call(fid + 100);
    }
    void operator()(vs::VPay& x) &
    {
        if (spent) {
            vs::user_call(fid + 50);
            return;
        }
        body(x);
    }
    void operator()(vs::VPay& x) &&
    {
        if (spent) {
            vs::user_call(fid + 50);
            return;
        }
        body(x);
        spent = true;  // an rvalue call may consume the captured state
    }
};

// the component, for one mutex type
template<class M>
struct LRImpl {
    using LR = gmlc::libguarded::lr_guarded<LPay, M>;
    using Handle = typename LR::shared_handle;
    alignas(LR) unsigned char buf[sizeof(LR)];
    LR* lrp;
    // the deleter holds a reference: handles cannot be move-assigned, so they are emplaced
    std::vector<std::vector<std::optional<Handle>>> slots;
    int ns;
    LRImpl(const vs::Case& c, bool from_rvalue): ns((int)(c.cfg.empty() ? 0 : c.cfg[0]))
    {
        std::memset(buf, (ns % 2) ? 0x01 : 0xFF, sizeof(LR));
        if (from_rvalue)
            lrp = new (buf) LR(LPay(0L));  // rvalue argument with a destructive move
        else
            lrp = new (buf) LR;  // default-initialisation: no parentheses, no braces
        slots.resize(c.progs.size());
        for (auto& s : slots) s.resize((size_t)ns);
    }
    LRImpl(const LRImpl&) = delete;
    ~LRImpl()
    {
        slots.clear();  // handles first
        lrp->~LR();
    }
    void plain_modify(long a)
    {
        lrp->modify([a](vs::VPay& x) {
            vs::user_call(a);
            x.write(x.read() * 8 + a);
            vs::user_call(a + 100);
        });
    }
    long op(int tid, const std::vector<long>& o)
    {
        LR& lr = *lrp;
        const long a = o.size() > 1 ? o[1] : 0;
        const long flag = o.size() > 2 ? o[2] : 0;
        if (o[0] == 0 && flag == 1) {
            lr.modify(RvFunctor{a});
            return 0;
        }
        if (o[0] == 0 && flag == 2) {
            // modify() from a destructor during stack unwinding
            std::exception_ptr fromFunctor;
            try {
                struct Guard {
                    LRImpl& self;
                    long a;
                    std::exception_ptr& out;
                    ~Guard()
                    {
                        try {
                            self.plain_modify(a);
                        }
                        catch (...) {
                            out = std::current_exception();
                        }
                    }
                } guard{*this, a, fromFunctor};
                throw 1;
            }
            catch (int) {
            }
            if (fromFunctor) std::rethrow_exception(fromFunctor);
            return 0;
        }
        if (o[0] == 0) {
            plain_modify(a);
            return 0;
        }
        if (a < 0 || a >= ns) return -1;
        auto& h = slots[(size_t)tid][(size_t)a];
        switch (o[0]) {
            case 1: if (h) return -1; h.emplace(lr.lock_shared()); return 0;
            case 2: if (h) return -1; h.emplace(lr.try_lock_shared()); return 0;
            case 3: if (h) return -1; h.emplace(lr.try_lock_shared_for(std::chrono::milliseconds(1))); return 0;
            case 4:
                if (h) return -1;
                h.emplace(lr.try_lock_shared_until(std::chrono::steady_clock::now() + std::chrono::milliseconds(1)));
                return 0;
            case 5: if (!h) return -1; return (**h).read();
            case 6: if (!h) return -1; h.reset(); return 0;
        }
        return -1;
    }
    void final(std::vector<std::vector<long>>& out)
    {
#ifndef VS_NO_PEEK
        LR& lr = *lrp;
        out.push_back({lr.m_left.peek(), lr.m_right.peek(), (long)lr.m_readingLeft.vs_peek(),
                       (long)lr.m_countingLeft.vs_peek(), (long)lr.m_leftReadCount.vs_peek(),
                       (long)lr.m_rightReadCount.vs_peek(), vs::plan().faults});
        // the range of the reader counters (the model's are unbounded; it assumes int: LRModel.COUNTER_MAX)
        out.push_back({(long)std::numeric_limits<decltype(lr.m_leftReadCount.vs_peek())>::max(),
                       (long)std::numeric_limits<decltype(lr.m_rightReadCount.vs_peek())>::max()});
#else
        (void)out;
#endif
    }
};

struct LRComp {
    std::unique_ptr<LRImpl<vstd::mutex>> plain;
    std::unique_ptr<LRImpl<vstd::timed_mutex>> timed;
    explicit LRComp(const vs::Case& c)
    {
        std::vector<long> plan;
        bool rv = false, tm = false;
        for (size_t i = 1; i < c.cfg.size(); ++i) {
            if (c.cfg[i] == -1) rv = true;
            else if (c.cfg[i] == -2) tm = true;
            else plan.push_back(c.cfg[i]);
        }
        vs::plan().reset(plan);
        if (tm) timed.reset(new LRImpl<vstd::timed_mutex>(c, rv));
        else plain.reset(new LRImpl<vstd::mutex>(c, rv));
    }
    long op(int tid, const std::vector<long>& o) { return timed ? timed->op(tid, o) : plain->op(tid, o); }
    void final(std::vector<std::vector<long>>& out)
    {
        if (timed) timed->final(out);
        else plain->final(out);
    }
};
int main(int argc, char** argv) { return vs::drive<LRComp>(argc, argv); }
