// correspondence driver for gmlc/libguarded/lr_guarded.hpp  (model: coq/Model/LRModel.v)
// T = LPay = vs::VPay (every payload access is a two-step window) with an operator== that is coarser than the
// object state: the functor id 7 is "auxiliary data" that comparisons ignore (digits 7 of the base-8 log are
// skipped).  lr_guarded never compares payloads, so this is invisible on the real code.
// Mutex = std::mutex (instrumented).
// The lr_guarded object is DEFAULT-initialised by placement new (`new (buf) LR;`) into storage pre-filled with
// a poison byte (0x01 when the slot count is odd, 0xFF when even): the variadic constructor with zero arguments
// must run and initialise the flags and counters.
// cfg = <slots per thread> <throw plan: global indices of the user_call invocations that throw>...
// ops:  0 fid   modify(f_fid)        f_fid(x) = user_call(fid); x.write(x.read()*8+fid); user_call(fid+100)
//       0 fid 1 the same modification passed as an RVALUE class object whose call operator is value-category
//               aware: operator()(T&) && behaves like f_fid and then gives up its state (every later call only
//               does user_call(fid+50)).  modify must apply its named parameter (an lvalue) twice, so the
//               && overload never runs and the trace is the same as for `0 fid`.
//       1..4 s  lock_shared / try_lock_shared / try_lock_shared_for / try_lock_shared_until into slot s
//       5 s     read once through the handle in slot s (returns the value)
//       6 s     release the handle in slot s
// A reader op on a slot in the wrong state (occupied for 1..4, empty for 5/6, out of range) returns -1
// without touching the library.
#include "vstd.hpp"
#include "vpay.hpp"
#define std vstd
#define private public  // harness-side only: lets final() read the state without events
#include "gmlc/libguarded/lr_guarded.hpp"
#undef private
#undef std
#include "driver.hpp"
#include <optional>

// payload: VPay with an equality that ignores the auxiliary modifications (fid 7)
struct LPay: vs::VPay {
    using vs::VPay::VPay;
    static long strip7(long v)
    {
        long out = 0, mul = 1;
        for (; v > 0; v /= 8) {
            if (v % 8 != 7) {
                out += (v % 8) * mul;
                mul *= 8;
            }
        }
        return out;
    }
    bool operator==(const LPay& o) const { return strip7(read()) == strip7(o.read()); }
    bool operator!=(const LPay& o) const { return !(*this == o); }
};

// value-category aware functor (see op `0 fid 1`)
struct RvFunctor {
    long fid;
    bool spent = false;
    void body(vs::VPay& x)
    {
        vs::user_call(fid);
        x.write(x.read() * 8 + fid);
        vs::user_call(fid + 100);
    }
    void operator()(vs::VPay& x) &
    {
        if (spent) {
            vs::user_call(fid + 50);
            return;
        }
        body(x);
    }
    void operator()(vs::VPay& x) &&
    {
        if (spent) {
            vs::user_call(fid + 50);
            return;
        }
        body(x);
        spent = true;  // an rvalue call may consume the captured state
    }
};

struct LRComp {
    using LR = gmlc::libguarded::lr_guarded<LPay, vstd::mutex>;
    using Handle = LR::shared_handle;
    alignas(LR) unsigned char buf[sizeof(LR)];
    LR* lrp;
    LR& lr;
    // the deleter holds a reference: handles cannot be move-assigned, so they are emplaced
    std::vector<std::vector<std::optional<Handle>>> slots;  // destroyed before lr
    int ns;
    static LR* make(unsigned char* b, int ns)
    {
        std::memset(b, (ns % 2) ? 0x01 : 0xFF, sizeof(LR));
        return new (b) LR;  // default-initialisation: no parentheses, no braces
    }
    LRComp(const LRComp&) = delete;
    ~LRComp()
    {
        slots.clear();
        lrp->~LR();
    }
    explicit LRComp(const vs::Case& c):
        lrp(make(buf, (int)(c.cfg.empty() ? 0 : c.cfg[0]))), lr(*lrp), ns((int)(c.cfg.empty() ? 0 : c.cfg[0]))
    {
        slots.resize(c.progs.size());
        for (auto& s : slots) s.resize((size_t)ns);
        vs::plan().reset(c.cfg.size() > 1 ? std::vector<long>(c.cfg.begin() + 1, c.cfg.end()) : std::vector<long>{});
    }
    long op(int tid, const std::vector<long>& o)
    {
        const long a = o.size() > 1 ? o[1] : 0;
        if (o[0] == 0 && o.size() > 2 && o[2] == 1) {
            lr.modify(RvFunctor{a});
            return 0;
        }
        if (o[0] == 0) {
            lr.modify([a](vs::VPay& x) {
                vs::user_call(a);
                x.write(x.read() * 8 + a);
                vs::user_call(a + 100);
            });
            return 0;
        }
        if (a < 0 || a >= ns) return -1;
        auto& h = slots[(size_t)tid][(size_t)a];
        switch (o[0]) {
            case 1: if (h) return -1; h.emplace(lr.lock_shared()); return 0;
            case 2: if (h) return -1; h.emplace(lr.try_lock_shared()); return 0;
            case 3: if (h) return -1; h.emplace(lr.try_lock_shared_for(std::chrono::milliseconds(1))); return 0;
            case 4:
                if (h) return -1;
                h.emplace(lr.try_lock_shared_until(std::chrono::steady_clock::now() + std::chrono::milliseconds(1)));
                return 0;
            case 5: if (!h) return -1; return (**h).read();
            case 6: if (!h) return -1; h.reset(); return 0;
        }
        return -1;
    }
    void final(std::vector<std::vector<long>>& out)
    {
#ifndef VS_NO_PEEK
        out.push_back({lr.m_left.peek(), lr.m_right.peek(), (long)lr.m_readingLeft.vs_peek(),
                       (long)lr.m_countingLeft.vs_peek(), (long)lr.m_leftReadCount.vs_peek(),
                       (long)lr.m_rightReadCount.vs_peek(), vs::plan().faults});
        // the range of the reader counters (the model's are unbounded; it assumes int: LRModel.COUNTER_MAX)
        out.push_back({(long)std::numeric_limits<decltype(lr.m_leftReadCount.vs_peek())>::max(),
                       (long)std::numeric_limits<decltype(lr.m_rightReadCount.vs_peek())>::max()});
#else
        (void)out;
#endif
    }
};
int main(int argc, char** argv) { return vs::drive<LRComp>(argc, argv); }
