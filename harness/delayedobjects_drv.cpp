// correspondence driver for gmlc/concurrency/DelayedObjects.hpp  (model: coq/Model/DelayedObjectsModel.v)
//
// cfg: <nslots> <variant> <k>...   future slots per client thread; instantiation; global indices of the copies that throw
//   variant 0: X = harness payload {long v}: its copy constructor calls vs::user_call(v) (K_CALL v, throw plan);
//              moving it is silent and leaves the source with the value MOVED (-7777); its default constructor is
//              user-provided and not noexcept (is_nothrow_default_constructible<X> is false)
//   variant 1: X = long (scalar: default-initialisation is NOT value-initialisation).  Programs of this variant
//              contain no const X& setter and no fulfillAllPromises (the model would expect their copies).
// ops: 0 kind key slot     slot = getFuture(key).share()        kind 0: int key, else string key with id k: "k" (k < 10) or "n%09d"
//      1 kind key v        setDelayedValue(key, const X&)
//      2 kind key v        setDelayedValue(key, X&&)
//      3 v                 fulfillAllPromises(X(v))   - an rvalue argument, as callers write it
//      4 kind key          isRecognized      5 kind key  isCompleted      6 kind key  finishedWithValue
//      7 slot              client: slot.wait_for(0s) == ready  (1/0; -2 empty slot)
//      8 slot              client: slot.get() if ready (value; -1 not ready; -2 empty slot; -3 broken_promise)
// A std::future_error escaping a library call is logged as K_FAULT 0 1 and returns -99; a vs::VThrow (throwing
// copy) is caught by the runner: K_CATCH.  std::promise is wrapped (delayedobjects_extra.hpp): touching a promise
// that lives inside the container without owning promiseLock is logged as K_FAULT 0 7.
// final(): sizes of the four maps and the number of copies made; then, unless a pending map holds a moved-from
// promise (`998 n`), the container is destroyed on the driver thread; then one line per held future.
// Built with -ftrivial-auto-var-init=pattern (lib/comp_delayedobjects.py): an uninitialised automatic has a
// fixed non-zero pattern instead of whatever is on the stack.
#include "vstd.hpp"
#include "vpay.hpp"
#include "delayedobjects_extra.hpp"
#define std vstd
#ifndef VS_NO_PEEK
#define private public  // harness-side only: lets final() and the lockset hook read the maps without an event
#endif
#include "gmlc/concurrency/DelayedObjects.hpp"
#undef private
#undef std
#include "driver.hpp"

// Peeks at the private state, robust against a header that no longer has a member (SFINAE: an absent map is
// skipped / counts as empty, an absent lock as "held"); with -DVS_NO_PEEK no private member is mentioned at all.
#ifndef VS_NO_PEEK
#define DO_PEEK(NAME, MEMBER)                                                          \
    template<class C, class F>                                                         \
    auto NAME(C& c, F f, int)->decltype((void)c.MEMBER, void()) { f(c.MEMBER); }       \
    template<class C, class F>                                                         \
    void NAME(C&, F, long) {}
DO_PEEK(peek_pI, promiseByInteger)
DO_PEEK(peek_pS, promiseByString)
DO_PEEK(peek_uI, usedPromiseByInteger)
DO_PEEK(peek_uS, usedPromiseByString)
#undef DO_PEEK
template<class C>
auto peek_owner(C& c, int) -> decltype((long)c.promiseLock.owner) { return (long)c.promiseLock.owner; }
template<class C>
long peek_owner(C&, long) { return -2; }
#else
template<class C, class F> void peek_pI(C&, F, long) {}
template<class C, class F> void peek_pS(C&, F, long) {}
template<class C, class F> void peek_uI(C&, F, long) {}
template<class C, class F> void peek_uS(C&, F, long) {}
template<class C> long peek_owner(C&, long) { return -2; }
#endif

constexpr long MOVED = -7777;

// the payload: copying it is user code (a scheduling point inside the critical section, K_CALL v, and a
// throw point driven by the case's throw plan); moving it is silent
struct X {
    long v;
    X(): v(0) {}  // user-provided and NOT noexcept: a default constructor that may throw, as far as the library can tell
    explicit X(long x): v(x) {}
    X(const X& o): v(o.v) { vs::user_call(o.v); }
    X(X&& o) noexcept: v(o.v) { o.v = MOVED; }
    X& operator=(const X&) = delete;
    X& operator=(X&& o) noexcept
    {
        v = o.v;
        o.v = MOVED;
        return *this;
    }
};
inline X mk(long v, const X*) { return X(v); }
inline long mk(long v, const long*) { return v; }
inline long val(const X& x) { return x.v; }
inline long val(long x) { return x; }

template<class XT>
struct Core {
    using DO = gmlc::concurrency::DelayedObjects<XT>;
    std::unique_ptr<DO> cont;
    size_t nslots;
    std::vector<std::vector<std::shared_future<XT>>> slots;

    Core(size_t ns, size_t nthreads): cont(new DO()), nslots(ns), slots(nthreads)
    {
        for (auto& s : slots) s.resize(nslots);
        // lockset check for promises that live inside the container
        vs::promise_hook() = [this](const void* p) {
            if (!cont) return;
            bool inside = false;
            auto look = [&](auto& m) { for (auto& e : m) inside |= ((const void*)&e.second == p); };
            peek_pI(*cont, look, 0);
            peek_pS(*cont, look, 0);
            peek_uI(*cont, look, 0);
            peek_uS(*cont, look, 0);
            const long own = peek_owner(*cont, 0);
            if (inside && own != -2 && own != vs::Sched::self()) vs::S().emit(vs::K_FAULT, nullptr, 7);
        };
    }
    ~Core() { vs::promise_hook() = nullptr; }
    // the string key with id k: the decimal text of k for 0 <= k < 10 (so that it is what an integer key k would
    // be called if somebody stored integers under their names), "n%09d" above; either way the lexicographic
    // order of the names is the numeric order of the ids (0 <= k < 10^9)
    static std::string name(long key)
    {
        char b[32];
        if (key >= 0 && key < 10) std::snprintf(b, sizeof b, "%ld", key); else std::snprintf(b, sizeof b, "n%09ld", key);
        return b;
    }
    static long peek_get(std::shared_future<XT>& f)
    {
        if (!f.valid()) return -2;
        if (f.wait_for(std::chrono::seconds(0)) != std::future_status::ready) return -1;
        try {
            return val(f.get());  // const XT&: no copy of the payload
        }
        catch (const std::future_error&) {
            return -3;
        }
    }
    long call(int tid, const std::vector<long>& o)
    {
        const bool str = o.size() > 1 && o[1] != 0;
        switch (o[0]) {
            case 0: {
                if (o.size() != 4) break;
                std::shared_future<XT> f =
                    str ? cont->getFuture(name(o[2])).share() : cont->getFuture((int)o[2]).share();
                if (o[3] >= 0 && (size_t)o[3] < nslots) slots[tid][(size_t)o[3]] = std::move(f);
                return 0;
            }
            case 1: {
                if (o.size() != 4) break;
                const XT v = mk(o[3], (const XT*)nullptr);
                if (str) cont->setDelayedValue(name(o[2]), v); else cont->setDelayedValue((int)o[2], v);
                return 0;
            }
            case 2: {
                if (o.size() != 4) break;
                XT v = mk(o[3], (const XT*)nullptr);
                if (str) cont->setDelayedValue(name(o[2]), std::move(v)); else cont->setDelayedValue((int)o[2], std::move(v));
                return 0;
            }
            case 3: {
                if (o.size() != 2) break;
                cont->fulfillAllPromises(mk(o[1], (const XT*)nullptr));  // a temporary: binds to const X& in the header
                return 0;
            }
            case 4:
                if (o.size() != 3) break;
                return str ? cont->isRecognized(name(o[2])) : cont->isRecognized((int)o[2]);
            case 5:
                if (o.size() != 3) break;
                return str ? cont->isCompleted(name(o[2])) : cont->isCompleted((int)o[2]);
            case 6:
                if (o.size() != 3) break;
                if (str) cont->finishedWithValue(name(o[2])); else cont->finishedWithValue((int)o[2]);
                return 0;
            case 7: {
                if (o.size() != 2) break;
                if (o[1] < 0 || (size_t)o[1] >= nslots) return -2;
                auto& f = slots[tid][(size_t)o[1]];
                if (!f.valid()) return -2;
                return f.wait_for(std::chrono::seconds(0)) == std::future_status::ready ? 1 : 0;
            }
            case 8: {
                if (o.size() != 2) break;
                if (o[1] < 0 || (size_t)o[1] >= nslots) return -2;
                return peek_get(slots[tid][(size_t)o[1]]);
            }
        }
        return 0;
    }
    // a moved-from promise has no shared state: get_future() says no_state (a live one: future_already_retrieved)
    template<class M>
    static long count_stale(M& m)
    {
        long n = 0;
        for (auto& e : m) {
            try {
                (void)e.second.real().get_future();
            }
            catch (const std::future_error& ex) {
                if (ex.code() == std::make_error_code(std::future_errc::no_state)) ++n;
            }
        }
        return n;
    }
    void final(std::vector<std::vector<long>>& out)
    {
        long nI = 0, nS = 0, uI = 0, uS = 0, st = 0;
        peek_pI(*cont, [&](auto& m) { nI = (long)m.size(); st += count_stale(m); }, 0);
        peek_pS(*cont, [&](auto& m) { nS = (long)m.size(); st += count_stale(m); }, 0);
        peek_uI(*cont, [&](auto& m) { uI = (long)m.size(); }, 0);
        peek_uS(*cont, [&](auto& m) { uS = (long)m.size(); }, 0);
        out.push_back({100, nI, nS, uI, uS, vs::plan().calls});
        if (st > 0) {
            // ~DelayedObjects would call set_value on a moved-from promise: std::future_error in a
            // destructor = std::terminate.  Report it and leave the container alone.
            out.push_back({998, st});
            (void)cont.release();
        } else {
            cont.reset();  // ~DelayedObjects on the driver thread (not scheduled, not logged)
        }
        for (size_t t = 0; t < slots.size(); ++t)
            for (size_t i = 0; i < nslots; ++i) out.push_back({(long)t, (long)i, peek_get(slots[t][i])});
    }
};

struct DelayedObjectsComp {
    std::unique_ptr<Core<X>> pay;
    std::unique_ptr<Core<long>> scalar;

    explicit DelayedObjectsComp(const vs::Case& c)
    {
        const size_t ns = c.cfg.empty() ? 0 : (size_t)c.cfg[0];
        const long variant = c.cfg.size() > 1 ? c.cfg[1] : 0;
        if (variant == 1) scalar.reset(new Core<long>(ns, c.progs.size())); else pay.reset(new Core<X>(ns, c.progs.size()));
        vs::plan().reset(c.cfg.size() > 2 ? std::vector<long>(c.cfg.begin() + 2, c.cfg.end()) : std::vector<long>{});
    }
    // vs::VThrow (a throwing copy) passes through to the runner (K_CATCH); a std::future_error is a fault
    long op(int tid, const std::vector<long>& o)
    {
        try {
            return scalar ? scalar->call(tid, o) : pay->call(tid, o);
        }
        catch (const std::future_error&) {
            vs::S().emit(vs::K_FAULT, nullptr, 1);
            return -99;
        }
    }
    void final(std::vector<std::vector<long>>& out)
    {
        if (scalar) scalar->final(out); else pay->final(out);
    }
};
int main(int argc, char** argv) { return vs::drive<DelayedObjectsComp>(argc, argv); }
