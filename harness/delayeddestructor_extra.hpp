// Component-local extension of the instrumented std for the DelayedDestructor driver (opt-in: only
// harness/delayeddestructor_drv.cpp includes this file, nothing changes for the other components).
//
// vstd::vector<T>: std::vector<T> with the same interface (public inheritance, inherited constructors) whose
// accessors check a *lockset rule* for ONE registered container object: between vs::vec_guard().arm() and
// disarm() every access to that object must be made by the thread that owns the registered mutex.
// An access that respects the rule is invisible (no event, no scheduling point), so the traces of correct
// code are unchanged and the model needs no new step.  An access without the lock becomes a scheduling point
// followed by `K_FAULT <vector> 5`: the scheduler can then put another thread's operation into the window, and
// the `unlocked_access` monitor reports the event itself.
#pragma once
#include "vstd.hpp"
#include "vpay.hpp"

namespace vs {
struct VecGuard {
    const void* vec = nullptr;        // the guarded container
    const vstd::mutex* mtx = nullptr;  // the mutex that must be held
    bool on = false;
    void arm(const void* v, const vstd::mutex* m)
    {
        vec = v;
        mtx = m;
        on = true;
    }
    void disarm() { on = false; }
};
inline VecGuard& vec_guard()
{
    static VecGuard g;
    return g;
}
inline void vec_touch(const void* self)
{
    VecGuard& g = vec_guard();
    if (!g.on || g.vec != self || !active()) return;
    if (g.mtx != nullptr && g.mtx->owner == Sched::self()) return;
    S().visible(K_FAULT, self);
    fault(self, 5);
}
}  // namespace vs

namespace vstd {
template<class T, class A = ::std::allocator<T>>
class vector: public ::std::vector<T, A> {
    using B = ::std::vector<T, A>;

  public:
    using B::B;
    vector() = default;
    using typename B::iterator;
    using typename B::const_iterator;
    using typename B::size_type;
    using typename B::reference;
    using typename B::const_reference;
    iterator begin() noexcept
    {
        vs::vec_touch(this);
        return B::begin();
    }
    const_iterator begin() const noexcept
    {
        vs::vec_touch(this);
        return B::begin();
    }
    iterator end() noexcept
    {
        vs::vec_touch(this);
        return B::end();
    }
    const_iterator end() const noexcept
    {
        vs::vec_touch(this);
        return B::end();
    }
    size_type size() const noexcept
    {
        vs::vec_touch(this);
        return B::size();
    }
    bool empty() const noexcept
    {
        vs::vec_touch(this);
        return B::empty();
    }
    reference operator[](size_type i)
    {
        vs::vec_touch(this);
        return B::operator[](i);
    }
    const_reference operator[](size_type i) const
    {
        vs::vec_touch(this);
        return B::operator[](i);
    }
    void push_back(const T& x)
    {
        vs::vec_touch(this);
        B::push_back(x);
    }
    void push_back(T&& x)
    {
        vs::vec_touch(this);
        B::push_back(::std::move(x));
    }
    template<class... Args>
    decltype(auto) emplace_back(Args&&... args)
    {
        vs::vec_touch(this);
        return B::emplace_back(::std::forward<Args>(args)...);
    }
    iterator erase(const_iterator p)
    {
        vs::vec_touch(this);
        return B::erase(p);
    }
    iterator erase(const_iterator a, const_iterator b)
    {
        vs::vec_touch(this);
        return B::erase(a, b);
    }
    void clear() noexcept
    {
        vs::vec_touch(this);
        B::clear();
    }
    // harness-only view without any check
    const B& vs_raw() const { return *this; }
};
}  // namespace vstd
