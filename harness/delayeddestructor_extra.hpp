// Component-local extension of the instrumented std for the DelayedDestructor driver (opt-in: only
// harness/delayeddestructor_drv.cpp includes this file, nothing changes for the other components).
//
// vstd::vector<T>: std::vector<T> with the same interface (public inheritance, inherited constructors) whose
// accessors check a *lockset rule* for ONE registered container object: between vs::vec_guard().arm() and
// disarm() every access to that object must be made by the thread that owns the registered mutex.
// An access that respects the rule is invisible (no event, no scheduling point), so the traces of correct
// code are unchanged and the model needs no new step.  An access without the lock becomes a scheduling point
// followed by `K_FAULT <vector> 5`: the scheduler can then put another thread's operation into the window, and
// the `unlocked_access` monitor reports the event itself.
// Reads (begin/end/size/empty/[]) need the lock at least shared, modifications need it exclusively; the lock may
// be any instrumented mutex type (the rule looks at its owner / sharers fields, not at its type).
#pragma once
#include "vstd.hpp"
#include "vpay.hpp"

namespace vs {
namespace detail {
    template<class M, class = void>
    struct has_sharers: std::false_type {};
    template<class M>
    struct has_sharers<M, std::void_t<decltype(std::declval<const M&>().sharers)>>: std::true_type {};
}  // namespace detail
struct VecGuard {
    const void* vec = nullptr;            // the guarded container
    std::function<bool()> holds_excl;     // the current thread owns the lock exclusively
    std::function<bool()> holds_shared;   // ... or at least shared (reads)
    std::function<bool()> shared_only;    // holds it shared but not exclusively (shared lock types only)
    bool on = false;
    // any instrumented lock type: mutex / timed_mutex / recursive_(timed_)mutex (field owner) and
    // shared_(timed_)mutex (fields owner, sharers)
    template<class M>
    void arm(const void* v, const M* m)
    {
        vec = v;
        holds_excl = [m] { return m->owner == Sched::self(); };
        if constexpr (detail::has_sharers<M>::value) {
            shared_only = [m] {
                return m->owner != Sched::self() &&
                    std::find(m->sharers.begin(), m->sharers.end(), Sched::self()) != m->sharers.end();
            };
            holds_shared = [this] { return holds_excl() || shared_only(); };
        } else {
            shared_only = [] { return false; };
            holds_shared = holds_excl;
        }
        on = true;
    }
    void disarm() { on = false; }
};
inline VecGuard& vec_guard()
{
    static VecGuard g;
    return g;
}
// write = the access modifies the container (needs the exclusive lock); reads need at least a shared lock
inline void vec_touch(const void* self, bool write)
{
    VecGuard& g = vec_guard();
    if (!g.on || !active()) return;
    // a thread working on the container under a shared lock only runs concurrently with other such threads:
    // every vector operation it performs (also on its local vectors, e.g. the copy into ecall that follows a
    // use_count() test) is a scheduling point, logged as K_YIELD <vector>.  Never happens with an exclusive mutex.
    if (g.shared_only()) {
        S().visible(K_YIELD, self);
        S().emit(K_YIELD, self, 0);
    }
    if (g.vec != self) return;
    if (write ? g.holds_excl() : g.holds_shared()) return;
    S().visible(K_FAULT, self);
    fault(self, 5);
}
}  // namespace vs

namespace vstd {
template<class T, class A = ::std::allocator<T>>
class vector: public ::std::vector<T, A> {
    using B = ::std::vector<T, A>;

  public:
    using B::B;
    vector() = default;
    using typename B::iterator;
    using typename B::const_iterator;
    using typename B::size_type;
    using typename B::reference;
    using typename B::const_reference;
    iterator begin() noexcept
    {
        vs::vec_touch(this, false);
        return B::begin();
    }
    const_iterator begin() const noexcept
    {
        vs::vec_touch(this, false);
        return B::begin();
    }
    iterator end() noexcept
    {
        vs::vec_touch(this, false);
        return B::end();
    }
    const_iterator end() const noexcept
    {
        vs::vec_touch(this, false);
        return B::end();
    }
    size_type size() const noexcept
    {
        vs::vec_touch(this, false);
        return B::size();
    }
    bool empty() const noexcept
    {
        vs::vec_touch(this, false);
        return B::empty();
    }
    reference operator[](size_type i)
    {
        vs::vec_touch(this, false);
        return B::operator[](i);
    }
    const_reference operator[](size_type i) const
    {
        vs::vec_touch(this, false);
        return B::operator[](i);
    }
    void push_back(const T& x)
    {
        vs::vec_touch(this, true);
        B::push_back(x);
    }
    void push_back(T&& x)
    {
        vs::vec_touch(this, true);
        B::push_back(::std::move(x));
    }
    template<class... Args>
    decltype(auto) emplace_back(Args&&... args)
    {
        vs::vec_touch(this, true);
        return B::emplace_back(::std::forward<Args>(args)...);
    }
    iterator erase(const_iterator p)
    {
        vs::vec_touch(this, true);
        return B::erase(p);
    }
    iterator erase(const_iterator a, const_iterator b)
    {
        vs::vec_touch(this, true);
        return B::erase(a, b);
    }
    void clear() noexcept
    {
        vs::vec_touch(this, true);
        B::clear();
    }
    template<class... Args>
    iterator insert(Args&&... args)
    {
        vs::vec_touch(this, true);
        return B::insert(::std::forward<Args>(args)...);
    }
    void swap(vector& o) noexcept
    {
        vs::vec_touch(this, true);
        vs::vec_touch(&o, true);
        B::swap(o);
    }
    // harness-only view without any check
    const B& vs_raw() const { return *this; }
};
}  // namespace vstd
