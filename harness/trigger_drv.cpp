// correspondence driver for gmlc/concurrency/TriggerVariable.hpp  (model: coq/Model/TriggerModel.v)
#include "vstd.hpp"
#define std vstd
#define private public  // harness-side only: lets final() read the two flags without an event
#include "gmlc/concurrency/TriggerVariable.hpp"
#undef private
#undef std
#include "driver.hpp"

struct TriggerComp {
    gmlc::concurrency::TriggerVariable tv;
    explicit TriggerComp(const vs::Case& c): tv(!c.cfg.empty() && c.cfg[0] != 0) {}
    long op(int, const std::vector<long>& o)
    {
        // the shim turns a time-out into a scheduler choice; the optional second number of a wait_for /
        // wait_forActivation op is the duration handed to the library (0 and negative: the degenerate durations)
        const std::chrono::milliseconds d(o.size() > 1 ? o[1] : 10);
        switch (o[0]) {
            case 0: return tv.activate() ? 1 : 0;
            case 1: return tv.trigger() ? 1 : 0;
            case 2: return tv.isTriggered() ? 1 : 0;
            case 3: return tv.wait() ? 1 : 0;
            case 4: return tv.wait_for(d) ? 1 : 0;
            case 5: tv.waitActivation(); return 0;
            case 6: return tv.wait_forActivation(d) ? 1 : 0;
            case 7: tv.reset(); return 0;
            case 8: return tv.isActive() ? 1 : 0;
        }
        return 0;
    }
    void final(std::vector<std::vector<long>>& out)
    {
        out.push_back({(long)tv.activated.vs_peek(), (long)tv.triggered.vs_peek()});
    }
};
int main(int argc, char** argv) { return vs::drive<TriggerComp>(argc, argv); }
