// correspondence driver for gmlc/libguarded/cow_guarded.hpp  (model: coq/Model/CowModel.v)
//
// T = CowT: a harness struct holding one vs::VPay (every access to the payload is a two-step window).
// The copy constructor calls vs::user_call(7) first (throw point of `new T(**data)` in lock()), then
// copies the payload through a read window on the *source* object.  Every CowT lives in a bump arena
// that is never re-used inside a case (stable object ids, and a destroyed version can be recognised:
// touching one is logged as K_FAULT code 5 instead of depending on the heap's mood).  Constructions and
// destructions are counted in a ledger that final() reports.
//
// cfg = <write-handle slots per thread> <snapshot slots per thread> <initial value> <mutex kind: 0 std::mutex,
//        1 std::timed_mutex> <throw plan: global indices of the user_call invocations that throw>...
// ops:  0 s      lock() into write slot s   (codes 1..3 are reserved for try_lock / try_lock_for / try_lock_until,
//                which cannot be instantiated: `return handle();` is ill-formed for every T; they are refused)
//       4 s v    h->p.write(v) through the write handle in slot s
//       5 s      h->p.incr()
//       6 s      read once through the write handle in slot s (returns the value)
//       7 s      release (destroy) the write handle in slot s: commit
//       8 s      cancel() the write handle in slot s
//       9 a b    move-construct a handle in the empty slot b from the one in slot a; slot a keeps the moved-from (null)
//                handle object: 7 / 17 destroy it, 8 calls cancel() on it - all without any visible effect
//       10..13 s lock_shared / try_lock_shared / try_lock_shared_for / try_lock_shared_until into snapshot slot s
//                (12, 13 only with mutex kind 1; refused with kind 0)
//       14 s     read once through the snapshot in slot s (returns the value)
//       15 s     drop the snapshot in slot s
//       16 a b   copy the snapshot of slot a into the empty slot b
//       18 s     re-arm the handle variable of slot s with `h = b.lock()` from a second object b: only if the handle type is
//                move-assignable (it is not in the unmodified library: refused)
//       17 s     release the write handle in slot s from a scope guard's destructor while an unrelated exception unwinds
//                the stack (std::uncaught_exceptions() == 1); the exception is caught inside the operation, which returns
//                normally.  The commit must happen exactly as for op 7.
// An op on a slot in the wrong state (occupied / empty / null handle dereferenced / out of range) returns -1 without
// touching the library.
#include "vstd.hpp"
#include "vpay.hpp"
#include "cow_extra.hpp"  // vstd::shared_ptr: the two shared_ptr objects of the inner lr_guarded become observable

namespace cowh {
struct Ledger {
    long created = 0, destroyed = 0;
    size_t top = 0;
};
inline Ledger& ledger()
{
    static Ledger l;
    return l;
}
constexpr size_t ARENA = 1 << 20;
inline char* arena()
{
    alignas(16) static char a[ARENA];
    return a;
}
struct CowT {
    vs::VPay p;
    bool dead = false;
    explicit CowT(long x): p(x) { ledger().created++; }
    CowT(const CowT& o): p(copy_from(o)) { ledger().created++; }
    // Recognisable initializer_list constructor (JSON-like / vector<any>-like payloads have one): list-initialisation
    // from a CowT - `new T{**data}` instead of `new T(**data)` - selects it, and the new object is then a one-element
    // WRAPPER, not a copy of the committed value: reported as K_FAULT code 9, the value is the sentinel -9999.
    // Nothing in the unmodified library or in this driver list-initialises a CowT from a CowT (the explicit
    // CowT(long) keeps `T{n}` away from it), so it is never selected on the unchanged tree.
    CowT(std::initializer_list<CowT> il): p(-9999L)
    {
        (void)il;
        vs::fault(&p, 9);
        ledger().created++;
    }
    // assignment: never used by the unmodified library (a published version is immutable, a private copy is edited
    // through its handle); instrumented - a write window on the destination - so that a library change that
    // assigns into a version in place is observed
    CowT& operator=(const CowT& o)
    {
        touch();
        o.touch();
        p = o.p;  // read window on the source, write window on *this
        return *this;
    }
    CowT& operator=(CowT&& o)
    {
        touch();
        o.touch();
        p = std::move(o.p);  // write window on *this
        return *this;
    }
    ~CowT()
    {
        dead = true;
        ledger().destroyed++;
    }
    static long copy_from(const CowT& o)
    {
        vs::user_call(7);
        o.touch();
        return o.p.read();
    }
    void touch() const
    {
        if (dead) vs::fault(&p, 5);
    }
    static void* operator new(size_t n)
    {
        Ledger& l = ledger();
        size_t at = (l.top + 15) & ~size_t(15);
        if (at + n > ARENA) throw std::bad_alloc();
        l.top = at + n;
        return arena() + at;
    }
    static void operator delete(void*) noexcept {}  // quarantined until the next case
};
}  // namespace cowh

#define std vstd
#ifndef VS_NO_PEEK
#define private public  // harness-side only: lets final() read the state without events, and the driver register the two
                        // shared_ptr objects of the inner lr_guarded with the wrapper.  VS_NO_PEEK (search after a change
                        // that renames a field): no final-state line, the two objects stay silent
#endif
#include "gmlc/libguarded/cow_guarded.hpp"
#undef private
#undef std
#include "driver.hpp"
#include <optional>

template<class M>
struct CowImpl {
    using Cow = gmlc::libguarded::cow_guarded<cowh::CowT, M>;
    using WH = typename Cow::handle;
    using SH = typename Cow::shared_handle;
    static constexpr bool TIMED = std::is_same_v<M, vstd::timed_mutex>;
    Cow cow;
    std::optional<Cow> cowb;  // a second, unrelated object: built by the first op 18 that is not refused
    long init0;
    // the deleter holds a reference: write handles cannot be move-assigned, so they are emplaced
    std::vector<std::vector<std::optional<WH>>> ws;  // destroyed before cow
    std::vector<std::vector<SH>> ss;
    std::list<WH> grave;  // cancelled (null) handles, destroyed with the component
    std::vector<long> nops;  // operations issued so far, per thread
    int nw, ns;
    CowImpl(size_t nthreads, int nw_, int ns_, long init): cow(init), init0(init), nw(nw_), ns(ns_)
    {
        ws.resize(nthreads);
        for (auto& s : ws) s.resize((size_t)nw);
        ss.resize(nthreads);
        nops.assign(nthreads, 0);
        for (auto& s : ss) s.resize((size_t)ns);
#ifndef VS_NO_PEEK
        vs::cowslots().reset(&cow.m_data.m_left, &cow.m_data.m_right);
#else
        vs::cowslots().reset(nullptr, nullptr);
#endif
    }
    long op(int tid, const std::vector<long>& o)
    {
        const long a = o.size() > 1 ? o[1] : 0;
        const long b = o.size() > 2 ? o[2] : 0;
        const long k = o[0];
        auto& W = ws[(size_t)tid];
        const bool via_get = (nops[(size_t)tid]++ % 2) == 1;
        auto& S = ss[(size_t)tid];
        if (k == 18) {
            // `h = other.lock();` - re-arm the handle variable of slot a from a SECOND cow_guarded object.  The handle
            // type of the unmodified library is not move-assignable (its deleter holds a reference), so the operation
            // does not exist there and is refused (the model: Refused 18).  If a library change makes it compile, the
            // old handle must be released into the first object and everything done through the variable afterwards
            // must concern the second object only (monitors: no_lost_update / base_latest on the first object).
            if constexpr (std::is_move_assignable_v<WH>) {
                if (a < 0 || a >= nw || !W[(size_t)a] || !*W[(size_t)a]) return -1;
                if (!cowb) cowb.emplace(init0 + 1000);
                *W[(size_t)a] = cowb->lock();
                return 0;
            } else {
                return -1;
            }
        }
        if (k == 17) {
            if (a < 0 || a >= nw || !W[(size_t)a]) return -1;
            auto& slot = W[(size_t)a];
            try {
                struct Guard {
                    std::optional<WH>& s;
                    ~Guard() { s.reset(); }  // ~handle -> deleter::operator() runs during unwinding
                } guard{slot};
                throw 1;
            }
            catch (int) {
            }
            return 0;
        }
        if (k <= 9) {
            if (a < 0 || a >= nw) return -1;
            auto& h = W[(size_t)a];
            switch (k) {
                case 0: if (h) return -1; h.emplace(cow.lock()); return 0;
                // 1..3 (try_lock / try_lock_for / try_lock_until) cannot be driven: those three members do not
                // compile for any T, Mutex (`return handle();` needs a default-constructible deleter)
                // a slot may hold a NULL handle object (moved-from): it cannot be dereferenced
                // Access path to the private copy: every other operation of a thread (by its running count, so that the
                // model need not know) goes through the inherited unique_ptr::get() instead of the handle's operator->
                // - both are legal ways for a client to modify the copy.
                case 4: if (!h || !*h) return -1; { cowh::CowT* q = via_get ? h->get() : &**h; q->touch(); q->p.write(b); } return 0;
                case 5: if (!h || !*h) return -1; { cowh::CowT* q = via_get ? h->get() : &**h; q->touch(); q->p.incr(); } return 0;
                case 6: if (!h || !*h) return -1; { const cowh::CowT* q = h->get(); q->touch(); return q->p.read(); }
                case 7: if (!h) return -1; h.reset(); return 0;
                case 8:
                    // cancel(); the (now null) handle object itself stays alive until the end of the case, as a client's
                    // local variable would: cancel() has to free the outer mutex itself, not leave it to ~handle.
                    // On a moved-from (null) handle cancel() does nothing and the object stays in its slot.
                    if (!h) return -1;
                    if (!*h) {
                        h->cancel();
                        return 0;
                    }
                    h->cancel();
                    grave.emplace_back(std::move(*h));
                    h.reset();
                    return 0;
                case 9: {
                    // handle h2(std::move(h1)): ownership (pointer and unique_lock) goes to slot b; slot a keeps the
                    // moved-from, null handle object (ops 7 / 8 / 17 on it must do nothing)
                    if (!h || !*h || b < 0 || b >= nw || b == a || W[(size_t)b]) return -1;
                    W[(size_t)b].emplace(std::move(*h));
                    return 0;
                }
            }
            return -1;
        }
        if (a < 0 || a >= ns) return -1;
        auto& sp = S[(size_t)a];
        switch (k) {
            case 10: if (sp) return -1; sp = cow.lock_shared(); return 0;
            case 11: if (sp) return -1; sp = cow.try_lock_shared(); return 0;
            // the timed shared forms are instantiated for std::timed_mutex only (they are documented to need a timed
            // mutex); with std::mutex the op is refused, as in the model (CowModel.decode_op)
            case 12:
                if constexpr (TIMED) {
                    if (sp) return -1;
                    sp = cow.try_lock_shared_for(std::chrono::milliseconds(1));
                    return 0;
                } else {
                    return -1;
                }
            case 13:
                if constexpr (TIMED) {
                    if (sp) return -1;
                    sp = cow.try_lock_shared_until(std::chrono::steady_clock::now() + std::chrono::milliseconds(1));
                    return 0;
                } else {
                    return -1;
                }
            case 14: if (!sp) return -1; sp->touch(); return sp->p.read();
            case 15: if (!sp) return -1; sp.reset(); return 0;
            case 16:
                if (!sp || b < 0 || b >= ns || b == a || S[(size_t)b]) return -1;
                S[(size_t)b] = sp;
                return 0;
        }
        return -1;
    }
    void final(std::vector<std::vector<long>>& out)
    {
#ifndef VS_NO_PEEK
        auto& d = cow.m_data;
        out.push_back({d.m_left->p.peek(), d.m_right->p.peek(), (long)d.m_readingLeft.vs_peek(),
                       (long)d.m_countingLeft.vs_peek(), (long)d.m_leftReadCount.vs_peek(),
                       (long)d.m_rightReadCount.vs_peek(), (long)(cow.m_writeMutex.owner != -1),
                       (long)(d.m_writeMutex.owner != -1), cowh::ledger().created, cowh::ledger().destroyed,
                       vs::plan().faults});
        // the range of the inner reader counters (the model's are unbounded; it assumes int: CowModel.COUNTER_MAX)
        out.push_back({(long)std::numeric_limits<decltype(d.m_leftReadCount.vs_peek())>::max(),
                       (long)std::numeric_limits<decltype(d.m_rightReadCount.vs_peek())>::max()});
#else
        (void)out;
#endif
    }
};

struct CowComp {
    std::unique_ptr<CowImpl<vstd::mutex>> plain;
    std::unique_ptr<CowImpl<vstd::timed_mutex>> timed;
    explicit CowComp(const vs::Case& c)
    {
        auto cf = [&](size_t i) { return c.cfg.size() > i ? c.cfg[i] : 0L; };
        cowh::ledger() = cowh::Ledger{};
        vs::plan().reset(c.cfg.size() > 4 ? std::vector<long>(c.cfg.begin() + 4, c.cfg.end()) : std::vector<long>{});
        if (cf(3) == 1)
            timed.reset(new CowImpl<vstd::timed_mutex>(c.progs.size(), (int)cf(0), (int)cf(1), cf(2)));
        else
            plain.reset(new CowImpl<vstd::mutex>(c.progs.size(), (int)cf(0), (int)cf(1), cf(2)));
    }
    long op(int tid, const std::vector<long>& o) { return plain ? plain->op(tid, o) : timed->op(tid, o); }
    void final(std::vector<std::vector<long>>& out)
    {
        if (plain) plain->final(out); else timed->final(out);
    }
};
int main(int argc, char** argv) { return vs::drive<CowComp>(argc, argv); }
