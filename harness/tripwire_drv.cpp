// correspondence driver for gmlc/concurrency/TripWire.hpp  (model: coq/Model/TripWireModel.v)
//
// cfg: <COUNT of indexed lines (must be TW_COUNT)> <explicit lines> <data>
// ops (first int = op code; s, d = per-thread slot numbers, separate tables for triggers and detectors):
//   0 s l  trigger on explicit line l      1 s  trigger on the declared line   2 s i  trigger on indexed line i
//   3 s d  move-construct trigger d from s  4 s d  move-assign trigger d = s   5 s    destroy trigger s
//   6 s l / 7 s / 8 s i  detector (explicit / declared / indexed)              9 s    isTripped
//   10 d v write datum d   11 d read datum d   12 s d  if (det[s].isTripped()) read datum d else -1
//   13 l   ReleaseLine: the harness drops its own reference to explicit line l (as a client that moved its
//          handle into the trigger would); the line lives on in the triggers / detectors holding it; later
//          Make operations on explicit line l are refused (-1).  Static lines are not affected.
//   14 s l / 15 s / 16 s i  detector in the table shared by all threads (explicit / declared / indexed)
//   17 s   isTripped of shared detector s          18 s d  if (shared[s].isTripped()) read datum d else -1
// Index arguments (ops 2, 8, 16) 100..103 are selectors for huge indices that must be rejected like any other
// out-of-range index: 100 = UINT_MAX, 101 = 0x80000000, 102 = 0x80000002, 103 = COUNT + 2^31 (they turn negative /
// small when narrowed to int); every other value is passed as it is.  For the model they are just indices >= COUNT.
// An operation the harness cannot perform (slot occupied / empty, number out of the configured range,
// s == d in a move) does not reach the library and returns -1 (the model does the same).
//
// cfg[4] = 1 asks for a process in which no static line has been used yet ("first use" cases: the first use of an
// indexed line by a trigger thread and by a detector thread may be concurrent).  The component constructor then
// touches no static line; if an earlier case has already run in this child process it ends the process right there
// (`_Exit(0)` before anything of the case is logged): the parent forks a new child that starts with this case (the
// repeated `CASE <id>` header replaces the empty first one).  In every case the constructor only *primes* the
// indexed-line table with an out-of-range request (index COUNT, exception swallowed), so that whatever the library
// initialises once per process is initialised on the driver's main thread, not inside a client thread's first call.
// shared_ptr instances are vstd::shared_ptr (tripwire_extra.hpp): assignments by a client thread to an instance it
// did not construct itself are a scheduling point + K_FAULT 6; everything else about them is invisible.
//
// EarlyUser: a global object defined textually BEFORE the DECLARE_* macros attaches a trigger and a detector to the
// declared line and to indexed line COUNT-1 during its own static initialisation (instrumentation inactive: no
// events), as a client's global object may.  The lines must exist by then (on /repo they are function-local statics,
// built on first use).  If an attachment came back without a line or a valid index was rejected, every case of the
// process starts with `K_FAULT 0 <700 + bits>` (bit 0/1: trigger/detector on the declared line has no line, bit 2/3:
// indexed trigger/detector rejected or without a line); the early objects are kept alive for the whole process.
//
// Static lines (DECLARE_TRIPLINE / DECLARE_INDEXED_TRIPLINES) live for the whole child process, which
// runs many cases: the component constructor (driver main thread, not scheduled, not logged) resets
// them to false through the private accessors, so every case starts from untripped lines, as in the model.
#include "vstd.hpp"
#include "vpay.hpp"
#include "tripwire_extra.hpp"  // vstd::shared_ptr: ownership rule on the line handles (silent when respected)
#define std vstd
#define private public  // harness-side only: TripWire::getLine / getIndexedLine for reset and final()
#include "gmlc/concurrency/TripWire.hpp"
#undef private
#undef std
#include "driver.hpp"

#define TW_COUNT 3
struct EarlyUser {
    int bad = 0;
    std::unique_ptr<gmlc::concurrency::TripWireTrigger> trigD, trigI;
    std::unique_ptr<gmlc::concurrency::TripWireDetector> detD, detI;
    EarlyUser()
    {
        using namespace gmlc::concurrency;
        try {
            trigD = std::make_unique<TripWireTrigger>();
            if (!trigD->lineTrigger) bad |= 1;
        }
        catch (const std::exception&) {
            bad |= 1;
        }
        try {
            detD = std::make_unique<TripWireDetector>();
            if (!detD->lineDetector) bad |= 2;
        }
        catch (const std::exception&) {
            bad |= 2;
        }
        try {
            trigI = std::make_unique<TripWireTrigger>((unsigned int)(TW_COUNT - 1));
            if (!trigI->lineTrigger) bad |= 4;
        }
        catch (const std::exception&) {
            bad |= 4;
        }
        try {
            detI = std::make_unique<TripWireDetector>((unsigned int)(TW_COUNT - 1));
            if (!detI->lineDetector) bad |= 8;
        }
        catch (const std::exception&) {
            bad |= 8;
        }
    }
};
static EarlyUser early_user;  // must stay before the DECLARE_* macros
DECLARE_TRIPLINE()
DECLARE_INDEXED_TRIPLINES(TW_COUNT)

using namespace gmlc::concurrency;

static unsigned int index_arg(long b)
{
    switch (b) {
        case 100: return 0xFFFFFFFFu;
        case 101: return 0x80000000u;
        case 102: return 0x80000002u;
        case 103: return 0x80000000u + TW_COUNT;
        default: return (unsigned int)b;
    }
}

struct TripWireComp {
    std::vector<TriplineType> lines;  // explicit lines of this case
    std::vector<vs::VPay> data;
    std::vector<std::map<long, std::unique_ptr<TripWireTrigger>>> trig;
    std::vector<std::map<long, std::unique_ptr<TripWireDetector>>> det;
    std::map<long, std::unique_ptr<TripWireDetector>> shared;  // created by one thread, polled by any
    bool has_line(long l) const { return l >= 0 && l < (long)lines.size() && lines[l] != nullptr; }

    explicit TripWireComp(const vs::Case& c)
    {
        long ne = c.cfg.size() > 1 ? c.cfg[1] : 0;
        long nd = c.cfg.size() > 2 ? c.cfg[2] : 0;
        const bool fresh = c.cfg.size() > 4 && c.cfg[4] == 1;
        static bool dirty = false;  // a case has already run in this process: static lines may have been used
        if (fresh && dirty) std::_Exit(0);
        if (early_user.bad != 0 && vs::Sched::inst() != nullptr)
            vs::S().log.push_back(vs::Line{0, vs::K_FAULT, 0, 700 + early_user.bad, vs::MO_NA});
        dirty = true;
        vs::slotreg().reset();
        try {
            (void)TripWire::getIndexedLine(TW_COUNT);
        }
        catch (const std::out_of_range&) {
        }
        if (!fresh) {
            TripWire::getLine()->store(false);
            for (unsigned i = 0; i < TW_COUNT; ++i) TripWire::getIndexedLine(i)->store(false);
        }
        if (ne > 0) {
            lines.push_back(make_tripline());
            for (auto& l : make_triplines((int)(ne - 1))) lines.push_back(l);
        }
        data = std::vector<vs::VPay>((size_t)(nd > 0 ? nd : 0));
        trig.resize(c.progs.size());
        det.resize(c.progs.size());
    }
    long op(int tid, const std::vector<long>& o)
    {
        auto& T = trig[tid];
        auto& D = det[tid];
        auto arg = [&](size_t i) { return i < o.size() ? o[i] : 0L; };
        const long a = arg(1), b = arg(2);
        switch (o[0]) {
            case 0:
                if (T.count(a) || !has_line(b)) return -1;
                T[a] = std::make_unique<TripWireTrigger>(lines[b]);
                return 0;
            case 1:
                if (T.count(a)) return -1;
                T[a] = std::make_unique<TripWireTrigger>();
                return 0;
            case 2: {
                if (T.count(a)) return -1;
                auto p = std::make_unique<TripWireTrigger>(index_arg(b));  // may throw std::out_of_range
                T[a] = std::move(p);
                return 0;
            }
            case 3:
                if (!T.count(a) || T.count(b) || a == b) return -1;
                T[b] = std::make_unique<TripWireTrigger>(std::move(*T[a]));
                return 0;
            case 4:
                if (!T.count(a) || !T.count(b) || a == b) return -1;
                *T[b] = std::move(*T[a]);
                return 0;
            case 5:
                if (!T.count(a)) return -1;
                T.erase(a);  // ~TripWireTrigger
                return 0;
            case 6:
                if (D.count(a) || !has_line(b)) return -1;
                D[a] = std::make_unique<TripWireDetector>(lines[b]);
                return 0;
            case 7:
                if (D.count(a)) return -1;
                D[a] = std::make_unique<TripWireDetector>();
                return 0;
            case 8: {
                if (D.count(a)) return -1;
                auto p = std::make_unique<TripWireDetector>(index_arg(b));
                D[a] = std::move(p);
                return 0;
            }
            case 9:
                if (!D.count(a)) return -1;
                return D[a]->isTripped() ? 1 : 0;
            case 10:
                if (a >= (long)data.size()) return -1;
                data[a].write(b);
                return 0;
            case 11:
                if (a >= (long)data.size()) return -1;
                return data[a].read();
            case 12:
                if (!D.count(a) || b >= (long)data.size()) return -1;
                if (D[a]->isTripped()) return data[b].read();
                return -1;
            case 13:
                if (!has_line(a)) return -1;
                lines[a].reset();
                return 0;
            case 14:
                if (shared.count(a) || !has_line(b)) return -1;
                shared[a] = std::make_unique<TripWireDetector>(lines[b]);
                return 0;
            case 15:
                if (shared.count(a)) return -1;
                shared[a] = std::make_unique<TripWireDetector>();
                return 0;
            case 16: {
                if (shared.count(a)) return -1;
                auto p = std::make_unique<TripWireDetector>(index_arg(b));
                shared[a] = std::move(p);
                return 0;
            }
            case 17:
                if (!shared.count(a)) return -1;
                return shared[a]->isTripped() ? 1 : 0;
            case 18:
                if (!shared.count(a) || b >= (long)data.size()) return -1;
                if (shared[a]->isTripped()) return data[b].read();
                return -1;
        }
        return -1;
    }
    void final(std::vector<std::vector<long>>& out)
    {
        std::vector<long> lv, dv;
        lv.push_back(TripWire::getLine()->vs_peek());
        for (unsigned i = 0; i < TW_COUNT; ++i) lv.push_back(TripWire::getIndexedLine(i)->vs_peek());
        for (auto& l : lines) lv.push_back(l ? (long)l->vs_peek() : -1L);  // -1: reference released
        for (auto& d : data) dv.push_back(d.peek());
        out.push_back(lv);
        out.push_back(dv);
    }
};
int main(int argc, char** argv) { return vs::drive<TripWireComp>(argc, argv); }
