(* gmlc/concurrency/TriggerVariable.hpp as a pc automaton: one step per visible operation.
   Definitions only (no lemmas): this file is extracted and run against the code.

   State of the class: activated, triggered (std::atomic_bool), triggerLock, activeLock
   (std::mutex), cv_trigger, cv_active (std::condition_variable).
   Ghost state (never read by control flow, never in an event): a global step counter
   [now] and the stamps (value of [now] at the step) of the last store of each kind. *)
From Coq Require Import List Arith ZArith Bool.
Import ListNotations.
From GV Require Import Sched Events.
Local Open Scope Z_scope.

Inductive op := Activate | Trigger | IsTriggered | Wait | WaitFor | WaitActivation | WaitForActivation | Reset | IsActive.
Definition opcode (o : op) : Z :=
  match o with
  | Activate => 0 | Trigger => 1 | IsTriggered => 2 | Wait => 3 | WaitFor => 4
  | WaitActivation => 5 | WaitForActivation => 6 | Reset => 7 | IsActive => 8
  end.
Definition decode_op (z : list Z) : option op :=
  match z with
  | 0 :: _ => Some Activate | 1 :: _ => Some Trigger | 2 :: _ => Some IsTriggered | 3 :: _ => Some Wait
  | 4 :: _ => Some WaitFor | 5 :: _ => Some WaitActivation | 6 :: _ => Some WaitForActivation
  | 7 :: _ => Some Reset | 8 :: _ => Some IsActive
  | _ => None
  end.

(* trigger() is called by the client (Top) or from the loop of reset() (InReset) *)
Inductive ctx := Top | InReset.

(* [tm] = timed form (wait_for / wait_forActivation) *)
Inductive pc :=
| Idle
(* activate() *)
| A_load | A_lockT | A_clear | A_unlockT | A_lockA | A_set | A_notify | A_unlockA
(* trigger() *)
| T_load (k : ctx) | T_lock (k : ctx) | T_store (k : ctx) | T_notify (k : ctx) | T_unlock (k : ctx)
(* isTriggered(), isActive() *)
| I_load | IA_load
(* wait() / wait_for(): W_unlock carries the value to return *)
| W_load (tm : bool) | W_lock (tm : bool) | W_test (tm : bool) | W_pred (tm : bool) | W_sleep (tm : bool)
| W_woken (tm : bool) | W_relock (tmo : bool) | W_final | W_unlock (tm : bool) (r : bool)
(* waitActivation() / wait_forActivation() *)
| V_lock (tm : bool) | V_test (tm : bool) | V_pred (tm : bool) | V_sleep (tm : bool)
| V_woken (tm : bool) | V_relock (tmo : bool) | V_final | V_unlock (tm : bool) (r : bool)
(* reset() *)
| R_lock | R_load | R_loop | R_unl | R_relock | R_store | R_unlock.

(* thread-local ghosts:
   sclr  - clear stamp of the activation whose activated=true the current wait()/wait_for() observed
   slp   - stamp of the latest cv sleep of the current call;  fslp - of its first cv sleep (0 = none)
   myclr - stamp of the triggered=false store of the current activate() call *)
Record loc := Loc { prog : list op; at_ : pc; sclr : nat; slp : nat; fslp : nat; myclr : nat }.

Record glob := Glob {
  activated : bool; triggered : bool;
  mT : option nat; mA : option nat;        (* owners of triggerLock / activeLock *)
  slT : list nat; slA : list nat;          (* sleeping and not yet notified on cv_trigger / cv_active *)
  (* ghost *)
  now : nat;                               (* global step counter, starts at 1 *)
  act_stamp : nat;                         (* last activated=true store (0 = none) *)
  act_clear : nat;                         (* stamp of the triggered=false store of the activate() call that made it *)
  deact_stamp : nat;                       (* last activated=false store *)
  clear_stamp : nat;                       (* last triggered=false store *)
  trig_stamp : nat;                        (* last triggered=true store *)
  rexit_stamp : nat;                       (* last load of triggered=true that ended the loop of a reset() *)
  nact : nat;                              (* number of activated=true stores *)
  ntfT : nat; ntfA : nat                   (* stamps of the last notify_all on cv_trigger / cv_active *)
}.

Definition O_ACT := 1. Definition O_TRIG := 2. Definition O_MT := 3. Definition O_MA := 4.
Definition O_CVT := 5. Definition O_CVA := 6.

Definition b2z (b : bool) : Z := if b then 1 else 0.

Definition tick g := Glob (activated g) (triggered g) (mT g) (mA g) (slT g) (slA g) (S (now g)) (act_stamp g) (act_clear g) (deact_stamp g) (clear_stamp g) (trig_stamp g) (rexit_stamp g) (nact g) (ntfT g) (ntfA g).
Definition set_mT g m := Glob (activated g) (triggered g) m (mA g) (slT g) (slA g) (now g) (act_stamp g) (act_clear g) (deact_stamp g) (clear_stamp g) (trig_stamp g) (rexit_stamp g) (nact g) (ntfT g) (ntfA g).
Definition set_mA g m := Glob (activated g) (triggered g) (mT g) m (slT g) (slA g) (now g) (act_stamp g) (act_clear g) (deact_stamp g) (clear_stamp g) (trig_stamp g) (rexit_stamp g) (nact g) (ntfT g) (ntfA g).
Definition set_slT g s := Glob (activated g) (triggered g) (mT g) (mA g) s (slA g) (now g) (act_stamp g) (act_clear g) (deact_stamp g) (clear_stamp g) (trig_stamp g) (rexit_stamp g) (nact g) (ntfT g) (ntfA g).
Definition set_slA g s := Glob (activated g) (triggered g) (mT g) (mA g) (slT g) s (now g) (act_stamp g) (act_clear g) (deact_stamp g) (clear_stamp g) (trig_stamp g) (rexit_stamp g) (nact g) (ntfT g) (ntfA g).
(* triggered = false, stamped *)
Definition do_clear g := Glob (activated g) false (mT g) (mA g) (slT g) (slA g) (now g) (act_stamp g) (act_clear g) (deact_stamp g) (now g) (trig_stamp g) (rexit_stamp g) (nact g) (ntfT g) (ntfA g).
(* triggered = true, stamped *)
Definition do_trig g := Glob (activated g) true (mT g) (mA g) (slT g) (slA g) (now g) (act_stamp g) (act_clear g) (deact_stamp g) (clear_stamp g) (now g) (rexit_stamp g) (nact g) (ntfT g) (ntfA g).
(* activated = true, stamped; [c] = stamp of this activate()'s clear *)
Definition do_act g (c : nat) := Glob true (triggered g) (mT g) (mA g) (slT g) (slA g) (now g) (now g) c (deact_stamp g) (clear_stamp g) (trig_stamp g) (rexit_stamp g) (S (nact g)) (ntfT g) (ntfA g).
(* activated = false, stamped *)
Definition do_deact g := Glob false (triggered g) (mT g) (mA g) (slT g) (slA g) (now g) (act_stamp g) (act_clear g) (now g) (clear_stamp g) (trig_stamp g) (rexit_stamp g) (nact g) (ntfT g) (ntfA g).
Definition do_rexit g := Glob (activated g) (triggered g) (mT g) (mA g) (slT g) (slA g) (now g) (act_stamp g) (act_clear g) (deact_stamp g) (clear_stamp g) (trig_stamp g) (now g) (nact g) (ntfT g) (ntfA g).
(* notify_all: nobody is left un-notified; stamped *)
Definition do_ntfT g := Glob (activated g) (triggered g) (mT g) (mA g) [] (slA g) (now g) (act_stamp g) (act_clear g) (deact_stamp g) (clear_stamp g) (trig_stamp g) (rexit_stamp g) (nact g) (now g) (ntfA g).
Definition do_ntfA g := Glob (activated g) (triggered g) (mT g) (mA g) (slT g) [] (now g) (act_stamp g) (act_clear g) (deact_stamp g) (clear_stamp g) (trig_stamp g) (rexit_stamp g) (nact g) (ntfT g) (now g).

Definition ret_ev (v : Z) : ev := E K_RET 0 v.

Definition entry (o : op) : pc :=
  match o with
  | Activate => A_load | Trigger => T_load Top | IsTriggered => I_load | Wait => W_load false
  | WaitFor => W_load true | WaitActivation => V_lock false | WaitForActivation => V_lock true
  | Reset => R_lock | IsActive => IA_load
  end.

(* value returned by waitActivation (void: 0) / wait_forActivation (bool) *)
Definition v_ret (tm r : bool) : Z := if tm then b2z r else 0.

Definition tstep (t c : nat) (g : glob) (l : loc) : option (glob * loc * list ev) :=
  let goto p := Loc (prog l) p (sclr l) (slp l) (fslp l) (myclr l) in
  let lockT p := match mT g with
                 | None => Some (tick (set_mT g (Some t)), goto p, [E K_LOCK O_MT 0])
                 | Some _ => None
                 end in
  let lockA p := match mA g with
                 | None => Some (tick (set_mA g (Some t)), goto p, [E K_LOCK O_MA 0])
                 | Some _ => None
                 end in
  match at_ l with
  | Idle =>
    match prog l with
    | [] => None
    | o :: r => Some (tick g, Loc r (entry o) 0 0 0 0, [E K_INVOKE 0 (opcode o)])
    end
  (* ---- activate(): if (activated.load()) return false;
          { lock_guard lock(triggerLock); triggered = false; }
          lock_guard lock(activeLock); activated = true; cv_active.notify_all(); return true; *)
  | A_load =>
    if activated g
    then Some (tick g, goto Idle, [ESC K_LOAD O_ACT 1; ret_ev 0])
    else Some (tick g, goto A_lockT, [ESC K_LOAD O_ACT 0])
  | A_lockT => lockT A_clear
  | A_clear => Some (tick (do_clear g), Loc (prog l) A_unlockT (sclr l) (slp l) (fslp l) (now g), [ESC K_STORE O_TRIG 0])
  | A_unlockT => Some (tick (set_mT g None), goto A_lockA, [E K_UNLOCK O_MT 0])
  | A_lockA => lockA A_set
  | A_set => Some (tick (do_act g (myclr l)), goto A_notify, [ESC K_STORE O_ACT 1])
  | A_notify => Some (tick (do_ntfA g), goto A_unlockA, [E K_NOTIFY_ALL O_CVA 0])
  | A_unlockA => Some (tick (set_mA g None), goto Idle, [E K_UNLOCK O_MA 0; ret_ev 1])
  (* ---- trigger(): if (!activated.load()) return false;
          lock_guard lock(triggerLock); triggered.store(true); cv_trigger.notify_all(); return true; *)
  | T_load k =>
    if activated g
    then Some (tick g, goto (T_lock k), [ESC K_LOAD O_ACT 1])
    else match k with
         | Top => Some (tick g, goto Idle, [ESC K_LOAD O_ACT 0; ret_ev 0])
         | InReset => Some (tick g, goto R_relock, [ESC K_LOAD O_ACT 0])
         end
  | T_lock k => lockT (T_store k)
  | T_store k => Some (tick (do_trig g), goto (T_notify k), [ESC K_STORE O_TRIG 1])
  | T_notify k => Some (tick (do_ntfT g), goto (T_unlock k), [E K_NOTIFY_ALL O_CVT 0])
  | T_unlock k =>
    match k with
    | Top => Some (tick (set_mT g None), goto Idle, [E K_UNLOCK O_MT 0; ret_ev 1])
    | InReset => Some (tick (set_mT g None), goto R_relock, [E K_UNLOCK O_MT 0])
    end
  (* ---- isTriggered(), isActive() *)
  | I_load => Some (tick g, goto Idle, [ESC K_LOAD O_TRIG (b2z (triggered g)); ret_ev (b2z (triggered g))])
  | IA_load => Some (tick g, goto Idle, [ESC K_LOAD O_ACT (b2z (activated g)); ret_ev (b2z (activated g))])
  (* ---- wait(): if (!activated.load()) return true; unique_lock lk(triggerLock);
          if (!triggered) cv_trigger.wait(lk, pred);  return true;
          wait_for(d): same with cv_trigger.wait_for(lk, d, pred), whose result is returned *)
  | W_load tm =>
    if activated g
    then Some (tick g, Loc (prog l) (W_lock tm) (act_clear g) (slp l) (fslp l) (myclr l), [ESC K_LOAD O_ACT 1])
    else Some (tick g, goto Idle, [ESC K_LOAD O_ACT 0; ret_ev 1])
  | W_lock tm => lockT (W_test tm)
  | W_test tm =>
    Some (tick g, goto (if triggered g then W_unlock tm true else W_pred tm), [ESC K_LOAD O_TRIG (b2z (triggered g))])
  | W_pred tm =>
    Some (tick g, goto (if triggered g then W_unlock tm true else W_sleep tm), [ESC K_LOAD O_TRIG (b2z (triggered g))])
  | W_sleep tm => (* atomically release the mutex and enqueue *)
    Some (tick (set_slT (set_mT g None) (t :: slT g)),
          Loc (prog l) (W_woken tm) (sclr l) (now g) (if Nat.eqb (fslp l) 0 then now g else fslp l) (myclr l),
          [E K_CV_SLEEP O_CVT 0])
  | W_woken tm =>
    let notified := negb (mem t (slT g)) in
    if tm then
      (* timed form: the wake-up (notified, spurious (1) or time-out (2)) does not need the mutex; it is
         re-acquired in a second step.  The event carries 1 when the wake-up was a time-out. *)
      if notified || Nat.eqb c 1 || Nat.eqb c 2 then
        let timeout := negb notified && Nat.eqb c 2 in
        Some (tick (set_slT g (rem t (slT g))), goto (W_relock timeout), [E K_CV_WAKE O_CVT (b2z timeout)])
      else None
    else
      (* untimed form: enabled when notified, or spuriously (1), and the mutex is free *)
      if notified || Nat.eqb c 1 then
        match mT g with
        | None => Some (tick (set_slT (set_mT g (Some t)) (rem t (slT g))), goto (W_pred false), [E K_CV_WAKE O_CVT 0])
        | Some _ => None
        end
      else None
  | W_relock tmo => lockT (if tmo then W_final else W_pred true)
  | W_final => (* time-out: wait_for returns pred() *)
    Some (tick g, goto (W_unlock true (triggered g)), [ESC K_LOAD O_TRIG (b2z (triggered g))])
  | W_unlock tm r => Some (tick (set_mT g None), goto Idle, [E K_UNLOCK O_MT 0; ret_ev (b2z r)])
  (* ---- waitActivation() / wait_forActivation(d): unique_lock lk(activeLock);
          if (!activated) cv_active.wait[_for](lk, [d,] pred); *)
  | V_lock tm => lockA (V_test tm)
  | V_test tm =>
    Some (tick g, goto (if activated g then V_unlock tm true else V_pred tm), [ESC K_LOAD O_ACT (b2z (activated g))])
  | V_pred tm =>
    Some (tick g, goto (if activated g then V_unlock tm true else V_sleep tm), [ESC K_LOAD O_ACT (b2z (activated g))])
  | V_sleep tm =>
    Some (tick (set_slA (set_mA g None) (t :: slA g)),
          Loc (prog l) (V_woken tm) (sclr l) (now g) (if Nat.eqb (fslp l) 0 then now g else fslp l) (myclr l),
          [E K_CV_SLEEP O_CVA 0])
  | V_woken tm =>
    let notified := negb (mem t (slA g)) in
    if tm then
      if notified || Nat.eqb c 1 || Nat.eqb c 2 then
        let timeout := negb notified && Nat.eqb c 2 in
        Some (tick (set_slA g (rem t (slA g))), goto (V_relock timeout), [E K_CV_WAKE O_CVA (b2z timeout)])
      else None
    else
      if notified || Nat.eqb c 1 then
        match mA g with
        | None => Some (tick (set_slA (set_mA g (Some t)) (rem t (slA g))), goto (V_pred false), [E K_CV_WAKE O_CVA 0])
        | Some _ => None
        end
      else None
  | V_relock tmo => lockA (if tmo then V_final else V_pred true)
  | V_final =>
    Some (tick g, goto (V_unlock true (activated g)), [ESC K_LOAD O_ACT (b2z (activated g))])
  | V_unlock tm r => Some (tick (set_mA g None), goto Idle, [E K_UNLOCK O_MA 0; ret_ev (v_ret tm r)])
  (* ---- reset(): unique_lock lk(activeLock);
          if (activated.load()) { while (!triggered.load(acquire)) { lk.unlock(); trigger(); lk.lock(); }
                                  activated.store(false); } *)
  | R_lock => lockA R_load
  | R_load =>
    Some (tick g, goto (if activated g then R_loop else R_unlock), [ESC K_LOAD O_ACT (b2z (activated g))])
  | R_loop =>
    if triggered g
    then Some (tick (do_rexit g), goto R_store, [EA K_LOAD O_TRIG 1 MO_ACQUIRE])
    else Some (tick g, goto R_unl, [EA K_LOAD O_TRIG 0 MO_ACQUIRE])
  | R_unl => Some (tick (set_mA g None), goto (T_load InReset), [E K_UNLOCK O_MA 0])
  | R_relock => lockA R_loop
  | R_store => Some (tick (do_deact g), goto R_unlock, [ESC K_STORE O_ACT 0])
  | R_unlock => Some (tick (set_mA g None), goto Idle, [E K_UNLOCK O_MA 0; ret_ev 0])
  end.

Definition fin (l : loc) : bool := match at_ l, prog l with Idle, [] => true | _, _ => false end.

Definition init (active : bool) (progs : list (list op)) : sys glob loc :=
  Sys (Glob active false None None [] [] 1 0 0 0 0 0 0 0 0 0) (map (fun p => Loc p Idle 0 0 0 0) progs).

(* ---------- entry point of the correspondence check ---------- *)
Fixpoint decode_prog (p : list (list Z)) : list op :=
  match p with
  | [] => []
  | z :: r => match decode_op z with Some o => o :: decode_prog r | None => decode_prog r end
  end.

Definition final (s : sys glob loc) : list line := [[-2; b2z (activated (gl s)); b2z (triggered (gl s))]].

Definition run_case (cfg : list Z) (progs : list (list (list Z))) (sched : list (Z * Z)) : list line :=
  let a := match cfg with a :: _ => negb (a =? 0) | [] => false end in
  run_case_gen glob loc tstep fin (init a (map decode_prog progs)) sched final.
