(* gmlc/concurrency/DelayedObjects.hpp (X = long) as a pc automaton.
   Definitions only (no lemmas): this file is extracted and run against the code.

   The only instrumented primitive of the class is `std::mutex promiseLock`; std::promise,
   std::future and std::map are the real library types and log nothing.  Hence every public
   method is   invoke ; lock (may block) ; [body, no events] ; unlock + ret.
   The body runs in real time inside the *lock* step (the C++ thread runs from the grant of
   the mutex up to the announcement of the unlock), and its effect on the promises is visible
   to a client that polls a future it holds without taking the mutex.  The model therefore
   applies the body (`apply`) in the lock step and carries the return value to the unlock step.

   promise ids = indices into the promise heap (a list of cells); a cell records (ghost) the
   kind and key it was requested under, and its state Unset | SetV v | Broken.
   Keys of the two string maps are encoded as integers (the driver turns n into "n<n>"). *)
From Coq Require Import List Arith ZArith Bool.
Import ListNotations.
From GV Require Import Sched Events.
Local Open Scope Z_scope.

(* ---------- association lists: std::map<key, std::promise<X>> as key -> promise id ---------- *)
Definition amap := list (Z * nat).
Fixpoint afind (key : Z) (m : amap) : option nat :=
  match m with
  | [] => None
  | (k, p) :: r => if k =? key then Some p else afind key r
  end.
Definition adel (key : Z) (m : amap) : amap := filter (fun e => negb (fst e =? key)) m.
Definition ahas (key : Z) (m : amap) : bool := match afind key m with Some _ => true | None => false end.
Definition aput (key : Z) (p : nat) (m : amap) : amap := (key, p) :: adel key m.   (* m[key] = p *)

(* ---------- the promise heap ---------- *)
Inductive pst := Unset | SetV (v : Z) | Broken.
(* ckind: false = requested through the int overloads, true = through the string overloads *)
Record cell := Cell { ckind : bool; ckey : Z; cst : pst }.
Definition heap_t := list cell.

(* promise::set_value: None = std::future_error(promise_already_satisfied) (or no such promise) *)
Definition set_value (q : nat) (v : Z) (h : heap_t) : option heap_t :=
  match nth_error h q with
  | Some (Cell k key Unset) => Some (upd h q (Cell k key (SetV v)))
  | _ => None
  end.
(* ~promise (also: the old value of a move-assigned promise): an unsatisfied promise is broken *)
Definition drop (q : nat) (h : heap_t) : heap_t :=
  match nth_error h q with
  | Some (Cell k key Unset) => upd h q (Cell k key Broken)
  | _ => h
  end.
Definition drop_opt (o : option nat) (h : heap_t) : heap_t := match o with Some q => drop q h | None => h end.

(* ---------- the container ---------- *)
(* pend false = promiseByInteger, pend true = promiseByString, used likewise *)
Record cont := Cont { pend : bool -> amap; used : bool -> amap; heap : heap_t }.
Definition setf (f : bool -> amap) (k : bool) (m : amap) : bool -> amap :=
  fun k' => if Bool.eqb k' k then m else f k'.
Definition cont0 : cont := Cont (fun _ => []) (fun _ => []) [].

Inductive op :=
| GetFuture (k : bool) (key : Z) (slot : nat)
| SetValue (mv : bool) (k : bool) (key v : Z)     (* mv: the X&& overload *)
| FulfillAll (v : Z)
| IsRecognized (k : bool) (key : Z)
| IsCompleted (k : bool) (key : Z)
| Finished (k : bool) (key : Z)
| FutReady (slot : nat)      (* client side: fut.wait_for(0s) == ready, no library call *)
| FutGet (slot : nat).       (* client side: fut.get() when ready *)

Definition opcode (o : op) : Z :=
  match o with
  | GetFuture _ _ _ => 0 | SetValue false _ _ _ => 1 | SetValue true _ _ _ => 2 | FulfillAll _ => 3
  | IsRecognized _ _ => 4 | IsCompleted _ _ => 5 | Finished _ _ => 6 | FutReady _ => 7 | FutGet _ => 8
  end.
Definition zkind (z : Z) : bool := negb (z =? 0).
Definition decode_op (z : list Z) : option op :=
  match z with
  | [0; k; key; sl] => Some (GetFuture (zkind k) key (Z.to_nat sl))
  | [1; k; key; v] => Some (SetValue false (zkind k) key v)
  | [2; k; key; v] => Some (SetValue true (zkind k) key v)
  | [3; v] => Some (FulfillAll v)
  | [4; k; key] => Some (IsRecognized (zkind k) key)
  | [5; k; key] => Some (IsCompleted (zkind k) key)
  | [6; k; key] => Some (Finished (zkind k) key)
  | [7; sl] => Some (FutReady (Z.to_nat sl))
  | [8; sl] => Some (FutGet (Z.to_nat sl))
  | _ => None
  end.

Definition RV_FAULT := -99.
Definition b2z (b : bool) : Z := if b then 1 else 0.

(* for (auto& pr : pendingMap) { pr.second.set_value(v); usedMap[pr.first] = std::move(pr.second); } *)
Fixpoint fulfill (es : amap) (v : Z) (u : amap) (h : heap_t) : option (amap * heap_t) :=
  match es with
  | [] => Some (u, h)
  | (key, q) :: r =>
    match set_value q v h with
    | None => None
    | Some h1 => fulfill r v (aput key q u) (drop_opt (afind key u) h1)
    end
  end.

(* the body of a method, executed while the caller owns promiseLock:
   new container, return value, fault (a std::future_error escaped) *)
Definition apply (o : op) (c : cont) : cont * Z * bool :=
  match o with
  | GetFuture k key _ =>
    (* auto V = std::promise<X>(); auto fut = V.get_future(); lock; pendingMap[key] = std::move(V); *)
    let p := length (heap c) in
    let h1 := heap c ++ [Cell k key Unset] in
    (Cont (setf (pend c) k (aput key p (pend c k))) (used c) (drop_opt (afind key (pend c k)) h1), 0, false)
  | SetValue _ k key v =>
    match afind key (pend c k) with
    | None => (c, 0, false)
    | Some q =>
      match set_value q v (heap c) with
      | None => (c, RV_FAULT, true)
      | Some h1 =>
        (Cont (setf (pend c) k (adel key (pend c k))) (setf (used c) k (aput key q (used c k)))
              (drop_opt (afind key (used c k)) h1), 0, false)
      end
    end
  | FulfillAll v =>
    match fulfill (pend c false) v (used c false) (heap c) with
    | None => (c, RV_FAULT, true)
    | Some (u0, h0) =>
      match fulfill (pend c true) v (used c true) h0 with
      | None => (c, RV_FAULT, true)
      | Some (u1, h1) => (Cont (fun _ => []) (fun k => if k then u1 else u0) h1, 0, false)
      end
    end
  | IsRecognized k key => (c, b2z (ahas key (pend c k) || ahas key (used c k)), false)
  | IsCompleted k key => (c, b2z (ahas key (used c k)), false)
  | Finished k key =>
    (Cont (pend c) (setf (used c) k (adel key (used c k))) (drop_opt (afind key (used c k)) (heap c)), 0, false)
  | FutReady _ | FutGet _ => (c, 0, false)
  end.

(* what a client sees in a future it holds (no library call, no mutex) *)
Definition C_EMPTY := -2. Definition C_NOTREADY := -1. Definition C_BROKEN := -3. Definition C_NOSTATE := -9.
Definition fut_get (h : heap_t) (f : option nat) : Z :=
  match f with
  | None => C_EMPTY
  | Some p => match nth_error h p with
              | Some (Cell _ _ Unset) => C_NOTREADY
              | Some (Cell _ _ (SetV v)) => v
              | Some (Cell _ _ Broken) => C_BROKEN
              | None => C_NOSTATE
              end
  end.
Definition fut_ready (h : heap_t) (f : option nat) : Z :=
  match f with
  | None => C_EMPTY
  | Some p => match nth_error h p with
              | Some (Cell _ _ Unset) => 0
              | Some _ => 1
              | None => C_NOSTATE
              end
  end.

(* ~DelayedObjects: lock; set_value(X{}) on everything pending; unlock; then the four maps die.
   Returns the promise heap afterwards; None = an exception in the destructor (std::terminate). *)
Fixpoint set_all (es : amap) (v : Z) (h : heap_t) : option heap_t :=
  match es with
  | [] => Some h
  | (_, q) :: r => match set_value q v h with None => None | Some h1 => set_all r v h1 end
  end.
Definition drop_all (qs : list nat) (h : heap_t) : heap_t := fold_left (fun h q => drop q h) qs h.
Definition destroy (c : cont) : option heap_t :=
  match set_all (pend c false) 0 (heap c) with
  | None => None
  | Some h1 =>
    match set_all (pend c true) 0 h1 with
    | None => None
    | Some h2 => Some (drop_all (map snd (used c true ++ used c false ++ pend c true ++ pend c false)) h2)
    end
  end.

(* ---------- threads ---------- *)
Inductive pc := Idle | P_lock (o : op) | P_unlock (rv : Z) (flt : bool).

(* slots: the (shared_)futures the client thread holds *)
Record loc := Loc { prog : list op; at_ : pc; slots : list (option nat) }.
(* hist (ghost): the critical sections in the order of their lock steps, with the value returned *)
Record glob := Glob { ct : cont; mtx : option nat; faulted : bool; hist : list (nat * op * Z) }.

Definition O_MTX := 1.
Definition locks (o : op) : bool := match o with FutReady _ | FutGet _ => false | _ => true end.
Definition slot_of (l : list (option nat)) (i : nat) : option nat :=
  match nth_error l i with Some f => f | None => None end.

Definition tstep (t c : nat) (g : glob) (l : loc) : option (glob * loc * list ev) :=
  match at_ l with
  | Idle =>
    match prog l with
    | [] => None
    | o :: r =>
      match o with
      | FutReady sl =>
        Some (g, Loc r Idle (slots l),
              [E K_INVOKE 0 (opcode o); E K_RET 0 (fut_ready (heap (ct g)) (slot_of (slots l) sl))])
      | FutGet sl =>
        Some (g, Loc r Idle (slots l),
              [E K_INVOKE 0 (opcode o); E K_RET 0 (fut_get (heap (ct g)) (slot_of (slots l) sl))])
      | _ => Some (g, Loc r (P_lock o) (slots l), [E K_INVOKE 0 (opcode o)])
      end
    end
  | P_lock o =>
    match mtx g with
    | Some _ => None
    | None =>
      let '(c', rv, flt) := apply o (ct g) in
      let sl' := match o with
                 | GetFuture _ _ sl => upd (slots l) sl (Some (length (heap (ct g))))
                 | _ => slots l
                 end in
      Some (Glob c' (Some t) (faulted g || flt) (hist g ++ [(t, o, rv)]),
            Loc (prog l) (P_unlock rv flt) sl', [E K_LOCK O_MTX 0])
    end
  | P_unlock rv flt =>
    Some (Glob (ct g) None (faulted g) (hist g), Loc (prog l) Idle (slots l),
          E K_UNLOCK O_MTX 0 :: (if flt then [E K_FAULT 0 1] else []) ++ [E K_RET 0 rv])
  end.

Definition fin (l : loc) : bool := match at_ l, prog l with Idle, [] => true | _, _ => false end.

Definition init (nslots : nat) (progs : list (list op)) : sys glob loc :=
  Sys (Glob cont0 None false []) (map (fun p => Loc p Idle (repeat None nslots)) progs).

(* ---------- entry point of the correspondence check ---------- *)
Fixpoint decode_prog (p : list (list Z)) : list op :=
  match p with
  | [] => []
  | z :: r => match decode_op z with Some o => o :: decode_prog r | None => decode_prog r end
  end.

Definition zlen {A} (l : list A) : Z := Z.of_nat (length l).
Fixpoint slot_lines (h : heap_t) (t : nat) (i : nat) (sl : list (option nat)) : list line :=
  match sl with
  | [] => []
  | f :: r => [-2; Z.of_nat t; Z.of_nat i; fut_get h f] :: slot_lines h t (S i) r
  end.
Fixpoint thread_lines (h : heap_t) (t : nat) (ls : list loc) : list line :=
  match ls with
  | [] => []
  | l :: r => slot_lines h t 0 (slots l) ++ thread_lines h (S t) r
  end.

(* the driver's final(): sizes of the four maps, then `delete container` on the main thread,
   then the state of every future still held by a client *)
Definition final (s : sys glob loc) : list line :=
  let c := ct (gl s) in
  [-2; 100; zlen (pend c false); zlen (pend c true); zlen (used c false); zlen (used c true)] ::
  match destroy c with
  | None => [[-2; 999]]
  | Some h => thread_lines h 0 (thr s)
  end.

Definition run_case (cfg : list Z) (progs : list (list (list Z))) (sched : list (Z * Z)) : list line :=
  let n := match cfg with n :: _ => Z.to_nat n | [] => O end in
  run_case_gen glob loc tstep fin (init n (map decode_prog progs)) sched final.
