(* gmlc/concurrency/DelayedObjects.hpp as a pc automaton.
   Definitions only (no lemmas): this file is extracted and run against the code.

   X is a harness payload { long v } whose COPY constructor is user code: it calls
   vs::user_call(v) - a scheduling point logged as K_CALL v, which throws vs::VThrow when the
   case's throw plan names the (global) index of that call.  Moving an X is silent.
   The instrumented primitives are therefore `std::mutex promiseLock` and the copies of X made by
   promise::set_value(const X&); std::promise, std::future and std::map are the real library types.

     setDelayedValue(key, const X&) : invoke ; lock [lookup] ; (key pending:) CALL [copy, set_value
                                      completes, promise moved to the used map] ; unlock + ret
                                      - a throwing copy: CALL+THROW ; unlock + catch, nothing changed
     setDelayedValue(key, X&&), getFuture, isRecognized, isCompleted, finishedWithValue :
                                      invoke ; lock [whole body] ; unlock + ret
     fulfillAllPromises(const X&)   : invoke ; lock ; one CALL per pending promise, int map first, then
                                      string map, each in key order ; unlock + ret.  Each iteration: set_value,
                                      move the promise to the used map, erase the entry from the pending map
                                      (repair b8719b7) - i.e. the body of setDelayedValue for that key.
                                      - a throwing copy ends the method at once: the keys served so far are
                                      completed, the others still pending, every promise intact.
                                      [unfixed = true: the header before b8719b7 - entries are not erased in the
                                      loop, both pending maps are clear()ed after the loops: a throwing copy
                                      leaves moved-from promises in the pending maps.]
   A method body runs, in real time, inside the step that ends at its next scheduling point; its effect
   on the promises is visible to a client polling a future it holds (no mutex involved).

   promise ids = indices into the promise heap; a cell records (ghost) the kind and key it was
   requested under, and its state Unset | SetV v | Broken.
   A moved-from std::promise (no shared state) left behind in a pending map is represented by the id
   of the - now satisfied - promise that was moved out of it: set_value on either throws
   std::future_error (no_state / promise_already_satisfied: both K_FAULT) before any copy is made,
   destroying or overwriting either has no effect; no other operation is ever applied to them.
   Keys of the string maps are integers n >= 0 (the driver uses the decimal text of n for n < 10, "n%09d" above: same order). *)
From Coq Require Import List Arith ZArith Bool.
Import ListNotations.
From GV Require Import Sched Events.
Local Open Scope Z_scope.

(* ---------- std::map<key, std::promise<X>> : association lists sorted by key ---------- *)
Definition amap := list (Z * nat).
Fixpoint afind (key : Z) (m : amap) : option nat :=
  match m with
  | [] => None
  | (k, p) :: r => if k =? key then Some p else afind key r
  end.
Definition adel (key : Z) (m : amap) : amap := filter (fun e => negb (fst e =? key)) m.
Definition ahas (key : Z) (m : amap) : bool := match afind key m with Some _ => true | None => false end.
Fixpoint ains (key : Z) (p : nat) (m : amap) : amap :=
  match m with
  | [] => [(key, p)]
  | (k, q) :: r => if key <? k then (key, p) :: m else (k, q) :: ains key p r
  end.
Definition aput (key : Z) (p : nat) (m : amap) : amap := ains key p (adel key m).   (* m[key] = p *)

(* ---------- the promise heap ---------- *)
Inductive pst := Unset | SetV (v : Z) | Broken.
(* ckind: false = requested through the int overloads, true = through the string overloads *)
Record cell := Cell { ckind : bool; ckey : Z; cst : pst }.
Definition heap_t := list cell.

(* promise::set_value: None = std::future_error (thrown before the value is copied) *)
Definition set_value (q : nat) (v : Z) (h : heap_t) : option heap_t :=
  match nth_error h q with
  | Some (Cell k key Unset) => Some (upd h q (Cell k key (SetV v)))
  | _ => None
  end.
Definition is_unset (h : heap_t) (q : nat) : bool :=
  match nth_error h q with Some (Cell _ _ Unset) => true | _ => false end.
(* ~promise (also: the old value of a move-assigned promise): an unsatisfied promise is broken *)
Definition drop (q : nat) (h : heap_t) : heap_t :=
  match nth_error h q with
  | Some (Cell k key Unset) => upd h q (Cell k key Broken)
  | _ => h
  end.
Definition drop_opt (o : option nat) (h : heap_t) : heap_t := match o with Some q => drop q h | None => h end.

(* ---------- the container ---------- *)
(* pend false = promiseByInteger, pend true = promiseByString, used likewise *)
Record cont := Cont { pend : bool -> amap; used : bool -> amap; heap : heap_t }.
Definition setf (f : bool -> amap) (k : bool) (m : amap) : bool -> amap :=
  fun k' => if Bool.eqb k' k then m else f k'.
Definition cont0 : cont := Cont (fun _ => []) (fun _ => []) [].

Inductive op :=
| GetFuture (k : bool) (key : Z) (slot : nat)
| SetValue (mv : bool) (k : bool) (key v : Z)     (* mv: the X&& overload *)
| FulfillAll (v : Z)
| IsRecognized (k : bool) (key : Z)
| IsCompleted (k : bool) (key : Z)
| Finished (k : bool) (key : Z)
| FutReady (slot : nat)      (* client side: fut.wait_for(0s) == ready, no library call *)
| FutGet (slot : nat).       (* client side: fut.get() when ready *)

Definition opcode (o : op) : Z :=
  match o with
  | GetFuture _ _ _ => 0 | SetValue false _ _ _ => 1 | SetValue true _ _ _ => 2 | FulfillAll _ => 3
  | IsRecognized _ _ => 4 | IsCompleted _ _ => 5 | Finished _ _ => 6 | FutReady _ => 7 | FutGet _ => 8
  end.
Definition zkind (z : Z) : bool := negb (z =? 0).
Definition decode_op (z : list Z) : option op :=
  match z with
  | [0; k; key; sl] => Some (GetFuture (zkind k) key (Z.to_nat sl))
  | [1; k; key; v] => Some (SetValue false (zkind k) key v)
  | [2; k; key; v] => Some (SetValue true (zkind k) key v)
  | [3; v] => Some (FulfillAll v)
  | [4; k; key] => Some (IsRecognized (zkind k) key)
  | [5; k; key] => Some (IsCompleted (zkind k) key)
  | [6; k; key] => Some (Finished (zkind k) key)
  | [7; sl] => Some (FutReady (Z.to_nat sl))
  | [8; sl] => Some (FutGet (Z.to_nat sl))
  | _ => None
  end.

Definition RV_FAULT := -99.
Definition b2z (b : bool) : Z := if b then 1 else 0.

(* ---------- the sequential bodies (no copy throws) ---------- *)
(* for (auto& pr : pendingMap) { pr.second.set_value(v); usedMap[pr.first] = std::move(pr.second); } *)
Fixpoint fulfill (es : amap) (v : Z) (u : amap) (h : heap_t) : option (amap * heap_t) :=
  match es with
  | [] => Some (u, h)
  | (key, q) :: r =>
    match set_value q v h with
    | None => None
    | Some h1 => fulfill r v (aput key q u) (drop_opt (afind key u) h1)
    end
  end.
(* the rest of fulfillAllPromises from inside the loop over map k, `rest` still to do; then clear() *)
Definition finish (v : Z) (k : bool) (rest : amap) (c : cont) : option cont :=
  if k then
    match fulfill rest v (used c true) (heap c) with
    | None => None
    | Some (u1, h1) => Some (Cont (fun _ => []) (fun k' => if k' then u1 else used c false) h1)
    end
  else
    match fulfill rest v (used c false) (heap c) with
    | None => None
    | Some (u0, h0) =>
      match fulfill (pend c true) v (used c true) h0 with
      | None => None
      | Some (u1, h1) => Some (Cont (fun _ => []) (fun k' => if k' then u1 else u0) h1)
      end
    end.

(* the body of a method run to completion: new container, return value, fault (std::future_error) *)
Definition apply (o : op) (c : cont) : cont * Z * bool :=
  match o with
  | GetFuture k key _ =>
    (* auto V = std::promise<X>(); auto fut = V.get_future(); lock; pendingMap[key] = std::move(V); *)
    let p := length (heap c) in
    let h1 := heap c ++ [Cell k key Unset] in
    (Cont (setf (pend c) k (aput key p (pend c k))) (used c) (drop_opt (afind key (pend c k)) h1), 0, false)
  | SetValue _ k key v =>
    match afind key (pend c k) with
    | None => (c, 0, false)
    | Some q =>
      match set_value q v (heap c) with
      | None => (c, RV_FAULT, true)
      | Some h1 =>
        (Cont (setf (pend c) k (adel key (pend c k))) (setf (used c) k (aput key q (used c k)))
              (drop_opt (afind key (used c k)) h1), 0, false)
      end
    end
  | FulfillAll v =>
    match finish v false (pend c false) c with
    | None => (c, RV_FAULT, true)
    | Some c' => (c', 0, false)
    end
  | IsRecognized k key => (c, b2z (ahas key (pend c k) || ahas key (used c k)), false)
  | IsCompleted k key => (c, b2z (ahas key (used c k)), false)
  | Finished k key =>
    (Cont (pend c) (setf (used c) k (adel key (used c k))) (drop_opt (afind key (used c k)) (heap c)), 0, false)
  | FutReady _ | FutGet _ => (c, 0, false)
  end.

(* what a client sees in a future it holds (no library call, no mutex) *)
Definition C_EMPTY := -2. Definition C_NOTREADY := -1. Definition C_BROKEN := -3. Definition C_NOSTATE := -9.
Definition fut_get (h : heap_t) (f : option nat) : Z :=
  match f with
  | None => C_EMPTY
  | Some p => match nth_error h p with
              | Some (Cell _ _ Unset) => C_NOTREADY
              | Some (Cell _ _ (SetV v)) => v
              | Some (Cell _ _ Broken) => C_BROKEN
              | None => C_NOSTATE
              end
  end.
Definition fut_ready (h : heap_t) (f : option nat) : Z :=
  match f with
  | None => C_EMPTY
  | Some p => match nth_error h p with
              | Some (Cell _ _ Unset) => 0
              | Some _ => 1
              | None => C_NOSTATE
              end
  end.

(* ~DelayedObjects: lock; set_value(X{}) (a move) on everything pending; unlock; then the four maps die.
   Returns the promise heap afterwards; None = std::future_error in the destructor = std::terminate. *)
Fixpoint set_all (es : amap) (v : Z) (h : heap_t) : option heap_t :=
  match es with
  | [] => Some h
  | (_, q) :: r => match set_value q v h with None => None | Some h1 => set_all r v h1 end
  end.
Definition drop_all (qs : list nat) (h : heap_t) : heap_t := fold_left (fun h q => drop q h) qs h.
Definition destroy (c : cont) : option heap_t :=
  match set_all (pend c false) 0 (heap c) with
  | None => None
  | Some h1 =>
    match set_all (pend c true) 0 h1 with
    | None => None
    | Some h2 => Some (drop_all (map snd (used c true ++ used c false ++ pend c true ++ pend c false)) h2)
    end
  end.
(* pending-map entries whose promise is moved-from *)
Definition stale (c : cont) : nat :=
  length (filter (fun e => negb (is_unset (heap c) (snd e))) (pend c false ++ pend c true)).

(* ---------- threads ---------- *)
(* how a critical section ends: normal return, std::future_error escaped, vs::VThrow (a copy threw) escaped *)
Inductive outc := ORet (rv : Z) | OFault | OExn.

Inductive pc :=
| Idle
| P_lock (o : op)                 (* waiting for promiseLock *)
| P_call (o : op)                 (* setDelayedValue(const X&), key pending: inside set_value, about to copy *)
| P_ful (v : Z) (k : bool) (key : Z) (q : nat) (r : amap) (c0 : cont)
                                  (* fulfillAllPromises, loop over map k, about to copy for entry (key,q),
                                     r still to come; ghost: c0 = the container when the lock was taken *)
| P_unlock (out : outc).          (* body over (or abandoned), still owns promiseLock *)

(* slots: the (shared_)futures the client thread holds *)
Record loc := Loc { prog : list op; at_ : pc; slots : list (option nat) }.
(* plan: indices of the copies that throw; calls: copies made so far.
   ghost: began = the critical sections in the order of their lock steps;
          hist  = the elementary bodies in the order in which they ended, with the outcome: one entry per
                  method, except that fulfillAllPromises contributes one `SetValue` entry per promise it
                  satisfied (that is what one iteration is), followed by its own entry (no further effect) *)
Record glob := Glob { ct : cont; mtx : option nat; faulted : bool; plan : list Z; calls : Z;
                      began : list (nat * op); hist : list (nat * op * outc) }.

Definition O_MTX := 1.
Definition locks (o : op) : bool := match o with FutReady _ | FutGet _ => false | _ => true end.
Definition slot_of (l : list (option nat)) (i : nat) : option nat :=
  match nth_error l i with Some f => f | None => None end.
Definition throws (g : glob) : bool := existsb (Z.eqb (calls g)) (plan g).
Definition val_of (o : op) : Z := match o with SetValue _ _ _ v => v | FulfillAll v => v | _ => 0 end.
Definition out_of (rv : Z) (flt : bool) : outc := if flt then OFault else ORet rv.
Definition log_out (t : nat) (o : op) (p : pc) (h : list (nat * op * outc)) : list (nat * op * outc) :=
  match p with
  | P_unlock (ORet rv) => h ++ [(t, o, ORet rv)]
  | P_unlock OExn => h ++ [(t, o, OExn)]
  | _ => h
  end.

(* one iteration of the loop over map k: set_value done (heap h1), move to the used map, erase *)
Definition iter (unfixed : bool) (c : cont) (k : bool) (key : Z) (q : nat) (h1 : heap_t) : cont :=
  Cont (if unfixed then pend c else setf (pend c) k (adel key (pend c k)))
       (setf (used c) k (aput key q (used c k))) (drop_opt (afind key (used c k)) h1).

(* fulfillAllPromises: advance the iterator to the next promise to satisfy (parking at its copy), or end
   the method ([unfixed]: after clear()ing the pending maps); a promise that cannot be set: std::future_error *)
Definition ful_goto (unfixed : bool) (v : Z) (c0 c : cont) (k : bool) (rest : amap) : cont * pc * bool :=
  let at_entry (k' : bool) (key : Z) (q : nat) (r : amap) :=
      if is_unset (heap c) q then (c, P_ful v k' key q r c0, false) else (c, P_unlock OFault, true) in
  let fin := (if unfixed then Cont (fun _ => []) (used c) (heap c) else c, P_unlock (ORet 0), false) in
  match rest with
  | (key, q) :: r => at_entry k key q r
  | [] => if k then fin else
          match pend c true with
          | (key, q) :: r => at_entry true key q r
          | [] => fin
          end
  end.

(* the part of a method that runs in its lock step: container, next pc, fault *)
Definition enter (unfixed : bool) (o : op) (c : cont) : cont * pc * bool :=
  match o with
  | SetValue false k key v =>
    match afind key (pend c k) with
    | Some q => if is_unset (heap c) q then (c, P_call o, false) else (c, P_unlock OFault, true)
    | None => (c, P_unlock (ORet 0), false)
    end
  | FulfillAll v => ful_goto unfixed v c c false (pend c false)
  | _ => let '(c', rv, flt) := apply o c in (c', P_unlock (out_of rv flt), flt)
  end.

Definition tstep_gen (unfixed : bool) (t c : nat) (g : glob) (l : loc) : option (glob * loc * list ev) :=
  match at_ l with
  | Idle =>
    match prog l with
    | [] => None
    | o :: r =>
      match o with
      | FutReady sl =>
        Some (g, Loc r Idle (slots l),
              [E K_INVOKE 0 (opcode o); E K_RET 0 (fut_ready (heap (ct g)) (slot_of (slots l) sl))])
      | FutGet sl =>
        Some (g, Loc r Idle (slots l),
              [E K_INVOKE 0 (opcode o); E K_RET 0 (fut_get (heap (ct g)) (slot_of (slots l) sl))])
      | _ => Some (g, Loc r (P_lock o) (slots l), [E K_INVOKE 0 (opcode o)])
      end
    end
  | P_lock o =>
    match mtx g with
    | Some _ => None
    | None =>
      let '(c', p', flt) := enter unfixed o (ct g) in
      let sl' := match o with
                 | GetFuture _ _ sl => upd (slots l) sl (Some (length (heap (ct g))))
                 | _ => slots l
                 end in
      Some (Glob c' (Some t) (faulted g || flt) (plan g) (calls g) (began g ++ [(t, o)])
                 (log_out t o p' (hist g)),
            Loc (prog l) p' sl', [E K_LOCK O_MTX 0])
    end
  | P_call o =>
    if throws g then
      Some (Glob (ct g) (mtx g) (faulted g) (plan g) (calls g + 1) (began g) (hist g ++ [(t, o, OExn)]),
            Loc (prog l) (P_unlock OExn) (slots l), [E K_CALL 0 (val_of o); E K_THROW 0 (calls g)])
    else
      let '(c', rv, flt) := apply o (ct g) in
      let p' := P_unlock (out_of rv flt) in
      Some (Glob c' (mtx g) (faulted g || flt) (plan g) (calls g + 1) (began g) (log_out t o p' (hist g)),
            Loc (prog l) p' (slots l), [E K_CALL 0 (val_of o)])
  | P_ful v k key q r c0 =>
    if throws g then
      Some (Glob (ct g) (mtx g) (faulted g) (plan g) (calls g + 1) (began g) (hist g ++ [(t, FulfillAll v, OExn)]),
            Loc (prog l) (P_unlock OExn) (slots l), [E K_CALL 0 v; E K_THROW 0 (calls g)])
    else
      match set_value q v (heap (ct g)) with
      | None =>
        Some (Glob (ct g) (mtx g) true (plan g) (calls g + 1) (began g) (hist g),
              Loc (prog l) (P_unlock OFault) (slots l), [E K_CALL 0 v])
      | Some h1 =>
        let '(c', p', flt) := ful_goto unfixed v c0 (iter unfixed (ct g) k key q h1) k r in
        Some (Glob c' (mtx g) (faulted g || flt) (plan g) (calls g + 1) (began g)
                   (log_out t (FulfillAll v) p' (hist g ++ [(t, SetValue true k key v, ORet 0)])),
              Loc (prog l) p' (slots l), [E K_CALL 0 v])
      end
  | P_unlock out =>
    Some (Glob (ct g) None (faulted g) (plan g) (calls g) (began g) (hist g),
          Loc (prog l) Idle (slots l),
          E K_UNLOCK O_MTX 0 ::
          match out with
          | ORet rv => [E K_RET 0 rv]
          | OFault => [E K_FAULT 0 1; E K_RET 0 RV_FAULT]
          | OExn => [E K_CATCH 0 0]
          end)
  end.

Definition tstep := tstep_gen false.   (* the header as repaired; tstep_gen true: before b8719b7 *)

Definition fin (l : loc) : bool := match at_ l, prog l with Idle, [] => true | _, _ => false end.

Definition init (nslots : nat) (pl : list Z) (progs : list (list op)) : sys glob loc :=
  Sys (Glob cont0 None false pl 0 [] []) (map (fun p => Loc p Idle (repeat None nslots)) progs).

(* ---------- entry point of the correspondence check ---------- *)
Fixpoint decode_prog (p : list (list Z)) : list op :=
  match p with
  | [] => []
  | z :: r => match decode_op z with Some o => o :: decode_prog r | None => decode_prog r end
  end.
(* cfg = <future slots per client> <driver variant> <indices of the copies that throw>...
   The variant selects the instantiation the driver uses (0: X = payload whose copy is user code; 1: X = long,
   programs without const X& setters / fulfillAllPromises, so no copy is ever made): same events and values,
   the model ignores it. *)
Definition init_cfg (cfg : list Z) (progs : list (list (list Z))) : sys glob loc :=
  match cfg with
  | n :: _ :: pl => init (Z.to_nat n) pl (map decode_prog progs)
  | n :: [] => init (Z.to_nat n) [] (map decode_prog progs)
  | [] => init O [] (map decode_prog progs)
  end.

Definition zlen {A} (l : list A) : Z := Z.of_nat (length l).
Fixpoint slot_lines (h : heap_t) (t : nat) (i : nat) (sl : list (option nat)) : list line :=
  match sl with
  | [] => []
  | f :: r => [-2; Z.of_nat t; Z.of_nat i; fut_get h f] :: slot_lines h t (S i) r
  end.
Fixpoint thread_lines (h : heap_t) (t : nat) (ls : list loc) : list line :=
  match ls with
  | [] => []
  | l :: r => slot_lines h t 0 (slots l) ++ thread_lines h (S t) r
  end.

(* the driver's final(): sizes of the four maps and the number of copies made; then, unless a pending
   map holds a moved-from promise (the destructor would call std::terminate: reported as `-2 998 n`,
   container not destroyed), `delete container` on the main thread; then every future still held *)
Definition final (s : sys glob loc) : list line :=
  let c := ct (gl s) in
  [-2; 100; zlen (pend c false); zlen (pend c true); zlen (used c false); zlen (used c true); calls (gl s)] ::
  if (0 <? stale c)%nat then [-2; 998; Z.of_nat (stale c)] :: thread_lines (heap c) 0 (thr s)
  else match destroy c with
       | None => [[-2; 999]]
       | Some h => thread_lines h 0 (thr s)
       end.

Definition run_case (cfg : list Z) (progs : list (list (list Z))) (sched : list (Z * Z)) : list line :=
  run_case_gen glob loc tstep fin (init_cfg cfg progs) sched final.
