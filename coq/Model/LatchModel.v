(* gmlc/concurrency/Latch.hpp as a pc automaton: one step per visible operation.
   Definitions only (no lemmas): this file is extracted and run against the code. *)
From Coq Require Import List Arith ZArith Bool.
Import ListNotations.
From GV Require Import Sched Events.
Local Open Scope Z_scope.

Inductive op := Arrive | Wait | ArriveWait.
Definition opcode (o : op) : Z := match o with Arrive => 0 | Wait => 1 | ArriveWait => 2 end.
Definition decode_op (z : list Z) : option op :=
  match z with
  | [0] => Some Arrive | [1] => Some Wait | [2] => Some ArriveWait
  | _ => None
  end.

Inductive pc :=
| Idle
| A_lock (k : op) | A_dec (k : op) | A_test (k : op) | A_notify (k : op) | A_unlock (k : op)
| W_fast (k : op) | W_lock (k : op) | W_test (k : op) | W_sleep (k : op) | W_woken (k : op) | W_unlock (k : op).

Record loc := Loc { prog : list op; at_ : pc }.
(* ghost: arrivals (number of completed decrements), start (initial count) *)
Record glob := Glob { counter : Z; mtx : option nat; sleepers : list nat; arrivals : nat; start : Z }.

Definition O_COUNTER := 1. Definition O_MTX := 2. Definition O_CV := 3.

Definition set_mtx g m := Glob (counter g) m (sleepers g) (arrivals g) (start g).
Definition ret_ev : ev := E K_RET 0 0.

Definition tstep (t c : nat) (g : glob) (l : loc) : option (glob * loc * list ev) :=
  let goto p := Loc (prog l) p in
  match at_ l with
  | Idle =>
    match prog l with
    | [] => None
    | o :: r => Some (g, Loc r (match o with Wait => W_fast o | _ => A_lock o end), [E K_INVOKE 0 (opcode o)])
    end
  (* arrive(): unique_lock lck(mtx); --counter_; if (counter_ == 0) cv.notify_all(); *)
  | A_lock k =>
    match mtx g with
    | None => Some (set_mtx g (Some t), goto (A_dec k), [E K_LOCK O_MTX 0])
    | Some _ => None
    end
  | A_dec k =>
    Some (Glob (counter g - 1) (mtx g) (sleepers g) (S (arrivals g)) (start g), goto (A_test k),
          [ESC K_RMW O_COUNTER (counter g - 1)])
  | A_test k =>
    Some (g, goto (if counter g =? 0 then A_notify k else A_unlock k), [ESC K_LOAD O_COUNTER (counter g)])
  | A_notify k =>
    Some (Glob (counter g) (mtx g) [] (arrivals g) (start g), goto (A_unlock k), [E K_NOTIFY_ALL O_CV 0])
  | A_unlock k =>
    match k with
    | ArriveWait => Some (set_mtx g None, goto (W_fast k), [E K_UNLOCK O_MTX 0])
    | _ => Some (set_mtx g None, goto Idle, [E K_UNLOCK O_MTX 0; ret_ev])
    end
  (* wait(): if (counter_ > 0) { unique_lock lck(mtx); while (counter_.load() > 0) cv.wait(lck); } *)
  | W_fast k =>
    if 0 <? counter g
    then Some (g, goto (W_lock k), [ESC K_LOAD O_COUNTER (counter g)])
    else Some (g, goto Idle, [ESC K_LOAD O_COUNTER (counter g); ret_ev])
  | W_lock k =>
    match mtx g with
    | None => Some (set_mtx g (Some t), goto (W_test k), [E K_LOCK O_MTX 0])
    | Some _ => None
    end
  | W_test k =>
    Some (g, goto (if 0 <? counter g then W_sleep k else W_unlock k), [ESC K_LOAD O_COUNTER (counter g)])
  | W_sleep k => (* cv.wait: atomically release the mutex and enqueue *)
    Some (Glob (counter g) None (t :: sleepers g) (arrivals g) (start g), goto (W_woken k), [E K_CV_SLEEP O_CV 0])
  | W_woken k => (* enabled when notified, or spuriously (choice 1), and the mutex is free *)
    if negb (mem t (sleepers g)) || Nat.eqb c 1 then
      match mtx g with
      | None => Some (Glob (counter g) (Some t) (rem t (sleepers g)) (arrivals g) (start g), goto (W_test k),
                      [E K_CV_WAKE O_CV 0])
      | Some _ => None
      end
    else None
  | W_unlock k => Some (set_mtx g None, goto Idle, [E K_UNLOCK O_MTX 0; ret_ev])
  end.

Definition fin (l : loc) : bool := match at_ l, prog l with Idle, [] => true | _, _ => false end.

Definition init (n : Z) (progs : list (list op)) : sys glob loc :=
  Sys (Glob n None [] 0 n) (map (fun p => Loc p Idle) progs).

(* ---------- entry point of the correspondence check ---------- *)
Fixpoint decode_prog (p : list (list Z)) : list op :=
  match p with
  | [] => []
  | z :: r => match decode_op z with Some o => o :: decode_prog r | None => decode_prog r end
  end.

Definition final (s : sys glob loc) : list line := [[-2; counter (gl s)]].

Definition run_case (cfg : list Z) (progs : list (list (list Z))) (sched : list (Z * Z)) : list line :=
  let n := match cfg with n :: _ => n | [] => 0 end in
  run_case_gen glob loc tstep fin (init n (map decode_prog progs)) sched final.
