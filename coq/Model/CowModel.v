(* gmlc/libguarded/cow_guarded.hpp over lr_guarded<std::shared_ptr<const T>> (lr_guarded.hpp), with
   T = the harness struct CowT (one vs::VPay), as a pc automaton: one step per visible operation.
   Definitions only (no lemmas): this file is extracted and run against the code.

   Visible operations: the outer write mutex, the five synchronisation objects of the inner lr_guarded
   (readingLeft, countingLeft, the two reader counters, the inner write mutex), the payload windows
   of the version objects, the copy constructor's user_call(7) (throw point of `new T( **data )`),
   yields of the drain loops.

   The two std::shared_ptr objects of the inner lr_guarded (m_left, m_right: objects 7, 8) are observed through the
   harness wrapper vstd::shared_ptr (harness/cow_extra.hpp): a copy made FROM one of them (lock_shared's
   `return *slock` / `retval = *slock`) is a read window K_RD_BEGIN .. K_RD_END on it (the copy is made at the
   closing edge), an assignment TO one of them (the commit lambda's `sptr = newPtr`) is a write window
   K_WR_BEGIN .. K_WR_END (the old value is released - possibly destroying its version - and the new one stored
   at the closing edge); the wrapper reports overlaps as K_FAULT 1 / 2 / 3 on the object ([xrd], [xwr] of a copy).
   Still invisible: lock()'s `**data` (operator* of the shared_ptr object; the payload read that follows is
   visible) and the reference counts.  Ghost, for the proof: the registration windows of the left-right protocol
   - reader: from `load readingLeft` to its counter decrement ([nrd] of the copy [rside]); writer: from
   `load readingLeft` to `store readingLeft` for the first copy, from the successful last drain load to the inner
   `unlock` for the second ([wopen]) - the observable windows lie inside them; a registration window opened while
   a conflicting one is open is counted in the ghost [races].

   Version heap: vid |-> {content; published; refs; freed; open read windows; dirty}.  refs counts
   the lr copies and snapshot slots that hold the version (std::shared_ptr's count, modelled);
   the count reaching 0 destroys the version (harness ledger: created / destroyed).  Touching a
   destroyed version is K_FAULT code 5 (as the harness logs it); VPay's own overlap codes 1..4 as
   in harness/vpay.hpp.

   cfg = write slots per thread :: snapshot slots per thread :: initial value :: mutex kind
         (0 std::mutex, 1 std::timed_mutex: they behave alike, the library only ever calls lock/unlock on it; but
         with std::mutex the timed shared forms, op codes 12 and 13, are not instantiated and are refused)
         :: throw plan (global indices of the user_call invocations that throw). *)
From Coq Require Import List Arith ZArith Bool.
Import ListNotations.
From GV Require Import Sched Events.
Local Open Scope Z_scope.

(* client operations.  try_lock / try_lock_for / try_lock_until of cow_guarded cannot be
   instantiated (`return handle();` is ill-formed), so only lock() exists; [LockShared k s]:
   k = 10 lock_shared, 11 try_lock_shared, 12 try_lock_shared_for, 13 try_lock_shared_until
   (all the same code path).  [ReleaseUnw s]: the write handle is destroyed by a scope guard's destructor
   while an unrelated exception unwinds the stack (std::uncaught_exceptions() = 1); the exception is caught
   inside the client operation.  The library code that runs is that of [Release s]. *)
Inductive op :=
| Lock (s : nat) | Write (s : nat) (v : Z) | Incr (s : nat) | ReadH (s : nat)
| Release (s : nat) | ReleaseUnw (s : nat) | Cancel (s : nat) | Move (a b : nat)
| LockShared (k : Z) (s : nat) | ReadSnap (s : nat) | DropSnap (s : nat) | CopySnap (a b : nat)
| Refused (k : Z).
Definition opcode (o : op) : Z :=
  match o with
  | Lock _ => 0 | Write _ _ => 4 | Incr _ => 5 | ReadH _ => 6 | Release _ => 7 | Cancel _ => 8 | Move _ _ => 9
  | LockShared k _ => k | ReadSnap _ => 14 | DropSnap _ => 15 | CopySnap _ _ => 16 | ReleaseUnw _ => 17 | Refused k => k
  end.
(* [timed]: the outer mutex is std::timed_mutex (cfg); with std::mutex the harness does not instantiate the timed
   shared forms (codes 12, 13) and refuses them *)
Definition decode_op (timed : bool) (z : list Z) : option op :=
  match z with
  | [0; s] => Some (Lock (Z.to_nat s))
  | [4; s; v] => Some (Write (Z.to_nat s) v)
  | [5; s] => Some (Incr (Z.to_nat s))
  | [6; s] => Some (ReadH (Z.to_nat s))
  | [7; s] => Some (Release (Z.to_nat s))
  | [8; s] => Some (Cancel (Z.to_nat s))
  | [9; a; b] => Some (Move (Z.to_nat a) (Z.to_nat b))
  | [14; s] => Some (ReadSnap (Z.to_nat s))
  | [15; s] => Some (DropSnap (Z.to_nat s))
  | [16; a; b] => Some (CopySnap (Z.to_nat a) (Z.to_nat b))
  | [17; s] => Some (ReleaseUnw (Z.to_nat s))
  | [k; s] => if (10 <=? k) && (k <=? 13) && (timed || (k <=? 11)) then Some (LockShared k (Z.to_nat s)) else Some (Refused k)
  | k :: _ => Some (Refused k)
  | [] => None
  end.

Inductive pc :=
| Idle
(* lock(): lock outer; inner lock_shared (3 atomics); new T( **data ) = call, read window; data.reset() *)
| L_lock | L_ldc | L_inc | L_ldr | L_call | L_rb | L_re | L_dec
(* unwinding after the copy threw: ~data (counter--), ~guard (unlock outer) *)
| X_dec | X_unlock
(* through a write handle: write, incr, read *)
| HW_wb | HW_we | HI_rb | HI_re | HI_wb | HI_we | HR_rb | HR_re
(* deleter::operator(): lr_guarded::modify with the assigning lambda, then unlock outer *)
| W_lock | W_ldr | W_a1b | W_a1e | W_str | W_ldc | W_d1 | W_y1 | W_stc | W_d2 | W_y2 | W_a2b | W_a2e | W_unlock | W_ounlock
(* cancel(): unlock outer (then delete the private copy) *)
| C_unlock
(* lock_shared(): inner lock_shared, copy the shared_ptr, release *)
| S_ldc | S_inc | S_ldr | S_rb | S_re | S_dec
(* read through a snapshot *)
| SR_rb | SR_re.

(* edits made through a write handle (ghost) *)
Inductive edit := ESet (v : Z) | EIncr.
Definition apply_edit (x : Z) (e : edit) : Z := match e with ESet v => v | EIncr => x + 1 end.
Definition apply_edits (x : Z) (es : list edit) : Z := fold_left apply_edit es x.

(* a snapshot: its version; ghost: number of releases that had returned when the lock_shared was
   invoked, the content at acquisition *)
Record snap := Snap { sv : nat; sneed : nat; sval : Z }.

Record loc := Loc {
  prog : list op; at_ : pc;
  wsl : list (option nat);       (* write-handle slots: the handle's private version *)
  ssl : list (option snap);      (* snapshot slots *)
  nsl : list bool;               (* write-handle slots that hold a NULL handle object (moved-from): its unique_ptr is
                                    null and its deleter's unique_lock owns nothing; wsl is None there *)
  sl : nat;                      (* slot of the current operation *)
  rcnt : bool; rside : bool;     (* inner lock_shared: countingLeft / readingLeft as loaded *)
  cv : nat;                      (* version the current operation works on *)
  lrl : bool; lcl : bool;        (* modify: local_readingLeft, local_countingLeft *)
  tmp : Z;                       (* value to write / value read *)
  ced : list edit;               (* ghost: edits made through the thread's live write handle (at most one exists) *)
  cbase : nat;                   (* ghost: the version committed when that handle was created *)
  need : nat                     (* ghost: releases returned when the current lock_shared was invoked *)
}.

Record ver := Ver { content : Z; published : bool; refs : nat; freed : bool; vrd : Z; vdirty : bool;
                    vseq : nat (* ghost: position in the commit order (0: initial; private: 0) *) }.
(* one of the two copies of the inner lr_guarded: the version its shared_ptr holds;
   ghost: writer window open, number of open reader windows *)
Record lrcopy := LC { cvid : nat; wopen : bool; nrd : Z;
                      (* as the harness wrapper (cow_extra.hpp) sees the shared_ptr object: open read windows,
                         a write window open *)
                      xrd : Z; xwr : bool }.

(* ghost phase of the inner writer protocol (as in LRModel): PA idle / before the flip / after the
   second drain, PC1 flipped and first drain not yet passed, PC2 first drain passed *)
Inductive phase := PA | PC1 | PC2.

Record glob := Glob {
  omtx : option nat;             (* cow_guarded::m_writeMutex *)
  imtx : option nat;             (* lr_guarded::m_writeMutex *)
  rl : bool; cl : bool; lc : Z; rc : Z;
  cleft : lrcopy; cright : lrcopy;
  heap : nat -> ver; next : nat; (* versions 0 .. next-1 exist *)
  plan : list Z; calls : Z;
  faults : nat;                  (* K_FAULT events (the harness' fault counter) *)
  created : Z; destroyed : Z;    (* the harness ledger *)
  (* ghost *)
  races : nat;                   (* conflicting shared_ptr windows; double destruction *)
  committed : nat;               (* the committed version (changes at the readingLeft flip) *)
  ncommit : nat;                 (* number of commits *)
  nret : nat;                    (* number of releases that returned *)
  applied : list edit;           (* edits of the released handles, in commit order *)
  initv : Z;                     (* initial value *)
  gph : phase; glcl : bool
}.

Definition O_OM := 1. Definition O_IM := 2.
Definition O_RL := 3. Definition O_CL := 4. Definition O_LC := 5. Definition O_RC := 6.
Definition O_SL (x : bool) : Z := if x then 7 else 8.   (* the two shared_ptr objects m_left, m_right *)
Definition O_V (v : nat) : Z := 10 + Z.of_nat v.

Definition b2z (b : bool) : Z := if b then 1 else 0.
Definition ret_ev (v : Z) : ev := E K_RET 0 v.
Definition FID_COPY := 7.

Definition cp (g : glob) (x : bool) : lrcopy := if x then cleft g else cright g.
Definition ctr (g : glob) (c : bool) : Z := if c then lc g else rc g.
Definition o_ctr (c : bool) : Z := if c then O_LC else O_RC.

Definition fupd (h : nat -> ver) (v : nat) (x : ver) : nat -> ver := fun w => if Nat.eqb w v then x else h w.

(* ---- setters ---- *)
Definition set_omtx (g : glob) (m : option nat) : glob :=
  Glob m (imtx g) (rl g) (cl g) (lc g) (rc g) (cleft g) (cright g) (heap g) (next g) (plan g) (calls g)
       (faults g) (created g) (destroyed g) (races g) (committed g) (ncommit g) (nret g) (applied g) (initv g) (gph g) (glcl g).
Definition set_imtx (g : glob) (m : option nat) : glob :=
  Glob (omtx g) m (rl g) (cl g) (lc g) (rc g) (cleft g) (cright g) (heap g) (next g) (plan g) (calls g)
       (faults g) (created g) (destroyed g) (races g) (committed g) (ncommit g) (nret g) (applied g) (initv g) (gph g) (glcl g).
Definition set_ctr (g : glob) (c : bool) (v : Z) : glob :=
  Glob (omtx g) (imtx g) (rl g) (cl g) (if c then v else lc g) (if c then rc g else v) (cleft g) (cright g) (heap g) (next g)
       (plan g) (calls g) (faults g) (created g) (destroyed g) (races g) (committed g) (ncommit g) (nret g) (applied g) (initv g)
       (gph g) (glcl g).
Definition set_cl (g : glob) (b : bool) : glob :=
  Glob (omtx g) (imtx g) (rl g) b (lc g) (rc g) (cleft g) (cright g) (heap g) (next g) (plan g) (calls g)
       (faults g) (created g) (destroyed g) (races g) (committed g) (ncommit g) (nret g) (applied g) (initv g) (gph g) (glcl g).
Definition set_ph (g : glob) (p : phase) (b : bool) : glob :=
  Glob (omtx g) (imtx g) (rl g) (cl g) (lc g) (rc g) (cleft g) (cright g) (heap g) (next g) (plan g) (calls g)
       (faults g) (created g) (destroyed g) (races g) (committed g) (ncommit g) (nret g) (applied g) (initv g) p b.
Definition set_cp (g : glob) (x : bool) (c : lrcopy) (nr : nat) : glob :=
  Glob (omtx g) (imtx g) (rl g) (cl g) (lc g) (rc g) (if x then c else cleft g) (if x then cright g else c) (heap g) (next g)
       (plan g) (calls g) (faults g) (created g) (destroyed g) (nr + races g) (committed g) (ncommit g) (nret g) (applied g)
       (initv g) (gph g) (glcl g).
Definition set_heap (g : glob) (h : nat -> ver) (nf : nat) : glob :=
  Glob (omtx g) (imtx g) (rl g) (cl g) (lc g) (rc g) (cleft g) (cright g) h (next g) (plan g) (calls g)
       (nf + faults g) (created g) (destroyed g) (races g) (committed g) (ncommit g) (nret g) (applied g) (initv g) (gph g) (glcl g).
Definition set_calls (g : glob) (k : Z) : glob :=
  Glob (omtx g) (imtx g) (rl g) (cl g) (lc g) (rc g) (cleft g) (cright g) (heap g) (next g) (plan g) k
       (faults g) (created g) (destroyed g) (races g) (committed g) (ncommit g) (nret g) (applied g) (initv g) (gph g) (glcl g).
Definition set_nret (g : glob) (n : nat) : glob :=
  Glob (omtx g) (imtx g) (rl g) (cl g) (lc g) (rc g) (cleft g) (cright g) (heap g) (next g) (plan g) (calls g)
       (faults g) (created g) (destroyed g) (races g) (committed g) (ncommit g) n (applied g) (initv g) (gph g) (glcl g).
(* a new version (the private copy made by lock()) *)
Definition alloc (g : glob) (x : Z) : glob :=
  Glob (omtx g) (imtx g) (rl g) (cl g) (lc g) (rc g) (cleft g) (cright g)
       (fupd (heap g) (next g) (Ver x false O false 0 false O)) (S (next g)) (plan g) (calls g)
       (faults g) (created g + 1) (destroyed g) (races g) (committed g) (ncommit g) (nret g) (applied g) (initv g) (gph g) (glcl g).
(* the flip of readingLeft: version v becomes the committed one *)
Definition flip_rl (g : glob) (b : bool) (v : nat) (es : list edit) : glob :=
  let h := heap g in let x := h v in
  Glob (omtx g) (imtx g) b (cl g) (lc g) (rc g) (cleft g) (cright g)
       (fupd h v (Ver (content x) (published x) (refs x) (freed x) (vrd x) (vdirty x) (S (ncommit g)))) (next g)
       (plan g) (calls g) (faults g) (created g) (destroyed g) (races g) v (S (ncommit g)) (nret g) (applied g ++ es)
       (initv g) PC1 (glcl g).

(* ---- versions ---- *)
Definition set_content (x : ver) (c : Z) (d : bool) : ver := Ver c (published x) (refs x) (freed x) (vrd x) d (vseq x).
Definition set_vrd (x : ver) (n : Z) : ver := Ver (content x) (published x) (refs x) (freed x) n (vdirty x) (vseq x).
Definition set_refs (x : ver) (n : nat) : ver := Ver (content x) (published x) n (freed x) (vrd x) (vdirty x) (vseq x).
Definition set_pub (x : ver) : ver := Ver (content x) true (refs x) (freed x) (vrd x) (vdirty x) (vseq x).
Definition set_freed (x : ver) : ver := Ver (content x) (published x) (refs x) true (vrd x) (vdirty x) (vseq x).

(* destroy version v (its reference count reached 0, or `delete ptr` in cancel) *)
Definition destroy (g : glob) (v : nat) : glob :=
  let x := heap g v in
  Glob (omtx g) (imtx g) (rl g) (cl g) (lc g) (rc g) (cleft g) (cright g) (fupd (heap g) v (set_freed x)) (next g)
       (plan g) (calls g) (faults g) (created g) (destroyed g + 1) ((if freed x then 1%nat else O) + races g)
       (committed g) (ncommit g) (nret g) (applied g) (initv g) (gph g) (glcl g).
Definition incref (g : glob) (v : nat) : glob := set_heap g (fupd (heap g) v (set_refs (heap g v) (S (refs (heap g v))))) O.
Definition decref (g : glob) (v : nat) : glob :=
  match refs (heap g v) with
  | S O => destroy (set_heap g (fupd (heap g) v (set_refs (heap g v) O)) O) v
  | n => set_heap g (fupd (heap g) v (set_refs (heap g v) (Nat.pred n))) O
  end.

(* the four VPay window edges on version v; each returns the new state and the events
   (K_FAULT first, as vpay.hpp logs them) *)
Definition fault_evs (v : nat) (codes : list Z) : list ev := map (fun c => E K_FAULT (O_V v) c) codes.
Definition rd_begin (g : glob) (v : nat) : glob * list ev :=
  let x := heap g v in
  let fs := if vdirty x then [2] else [] in
  (set_heap g (fupd (heap g) v (set_vrd x (vrd x + 1))) (length fs), fault_evs v fs ++ [E K_RD_BEGIN (O_V v) 0]).
Definition rd_end (g : glob) (v : nat) : glob * list ev :=
  let x := heap g v in
  let fs := if vdirty x then [4] else [] in
  (set_heap g (fupd (heap g) v (set_vrd x (vrd x - 1))) (length fs), fault_evs v fs ++ [E K_RD_END (O_V v) (content x)]).
Definition wr_begin (g : glob) (v : nat) : glob * list ev :=
  let x := heap g v in
  let fs := (if 0 <? vrd x then [1] else []) ++ (if vdirty x then [3] else []) in
  (set_heap g (fupd (heap g) v (set_content x (content x) true)) (length fs), fault_evs v fs ++ [E K_WR_BEGIN (O_V v) 0]).
Definition wr_end (g : glob) (v : nat) (c : Z) : glob * list ev :=
  let x := heap g v in
  (set_heap g (fupd (heap g) v (set_content x c false)) O, [E K_WR_END (O_V v) c]).
(* CowT::touch(): using a destroyed version is logged as fault 5 *)
Definition tcodes (d : bool) : list Z := if d then [5] else [].
Definition touch (g : glob) (v : nat) : glob * list ev :=
  let fs := tcodes (freed (heap g v)) in (set_heap g (heap g) (length fs), fault_evs v fs).

(* ---- the invisible shared_ptr accesses (see the header comment) ---- *)
(* a reader opens its window on copy x *)
Definition rd_open (g : glob) (x : bool) : glob :=
  let c := cp g x in set_cp g x (LC (cvid c) (wopen c) (nrd c + 1) (xrd c) (xwr c)) (if wopen c then 1%nat else O).
Definition rd_close (g : glob) (x : bool) : glob :=
  let c := cp g x in set_cp g x (LC (cvid c) (wopen c) (nrd c - 1) (xrd c) (xwr c)) O.
(* the writer is about to assign copy x (ghost window: from here to [wr_close]) *)
Definition wr_open (g : glob) (x : bool) : glob :=
  let c := cp g x in
  set_cp g x (LC (cvid c) true (nrd c) (xrd c) (xwr c)) ((if 0 <? nrd c then 1%nat else O) + (if wopen c then 1%nat else O)).
Definition wr_close (g : glob) (x : bool) : glob :=
  let c := cp g x in set_cp g x (LC (cvid c) false (nrd c) (xrd c) (xwr c)) O.

(* ---- the accesses to the two shared_ptr objects as the wrapper of harness/cow_extra.hpp shows them ---- *)
Definition set_cpf (g : glob) (x : bool) (c : lrcopy) (nf : nat) : glob :=
  Glob (omtx g) (imtx g) (rl g) (cl g) (lc g) (rc g) (if x then c else cleft g) (if x then cright g else c) (heap g) (next g)
       (plan g) (calls g) (nf + faults g) (created g) (destroyed g) (races g) (committed g) (ncommit g) (nret g) (applied g)
       (initv g) (gph g) (glcl g).
Definition sfault_evs (x : bool) (codes : list Z) : list ev := map (fun c => E K_FAULT (O_SL x) c) codes.
(* copy FROM slot x: read window; the copy is made at the end edge *)
Definition srd_begin (g : glob) (x : bool) : glob * list ev :=
  let c := cp g x in
  let fs := if xwr c then [2] else [] in
  (set_cpf g x (LC (cvid c) (wopen c) (nrd c) (xrd c + 1) (xwr c)) (length fs), sfault_evs x fs ++ [E K_RD_BEGIN (O_SL x) 0]).
Definition srd_end (g : glob) (x : bool) : glob :=
  let c := cp g x in set_cpf g x (LC (cvid c) (wopen c) (nrd c) (xrd c - 1) (xwr c)) O.
(* assignment TO slot x: write window; the old value is released and the new one stored at the end edge *)
Definition swr_begin (g : glob) (x : bool) : glob * list ev :=
  let c := cp g x in
  let fs := (if 0 <? xrd c then [1] else []) ++ (if xwr c then [3] else []) in
  (set_cpf g x (LC (cvid c) (wopen c) (nrd c) (xrd c) true) (length fs), sfault_evs x fs ++ [E K_WR_BEGIN (O_SL x) 0]).
(* `sptr = newPtr` takes effect: copy x holds v, the version it held loses a reference *)
Definition sl_assign (g : glob) (x : bool) (v : nat) : glob :=
  let c := cp g x in
  decref (incref (set_cpf g x (LC v (wopen c) (nrd c) (xrd c) false) O) v) (cvid c).

Definition zmem (k : Z) (l : list Z) : bool := existsb (Z.eqb k) l.

(* ---- local-state setters ---- *)
Definition set_at (l : loc) (p : pc) : loc :=
  Loc (prog l) p (wsl l) (ssl l) (nsl l) (sl l) (rcnt l) (rside l) (cv l) (lrl l) (lcl l) (tmp l) (ced l) (cbase l) (need l).
Definition set_tmp (l : loc) (p : pc) (v : Z) : loc :=
  Loc (prog l) p (wsl l) (ssl l) (nsl l) (sl l) (rcnt l) (rside l) (cv l) (lrl l) (lcl l) v (ced l) (cbase l) (need l).
Definition set_cv (l : loc) (p : pc) (v : nat) : loc :=
  Loc (prog l) p (wsl l) (ssl l) (nsl l) (sl l) (rcnt l) (rside l) v (lrl l) (lcl l) (tmp l) (ced l) (cbase l) (need l).
Definition set_rcnt (l : loc) (p : pc) (b : bool) : loc :=
  Loc (prog l) p (wsl l) (ssl l) (nsl l) (sl l) b (rside l) (cv l) (lrl l) (lcl l) (tmp l) (ced l) (cbase l) (need l).
Definition set_rside (l : loc) (p : pc) (b : bool) : loc :=
  Loc (prog l) p (wsl l) (ssl l) (nsl l) (sl l) (rcnt l) b (cv l) (lrl l) (lcl l) (tmp l) (ced l) (cbase l) (need l).
Definition set_lrl (l : loc) (p : pc) (b : bool) : loc :=
  Loc (prog l) p (wsl l) (ssl l) (nsl l) (sl l) (rcnt l) (rside l) (cv l) b (lcl l) (tmp l) (ced l) (cbase l) (need l).
Definition set_lcl (l : loc) (p : pc) (b : bool) : loc :=
  Loc (prog l) p (wsl l) (ssl l) (nsl l) (sl l) (rcnt l) (rside l) (cv l) (lrl l) b (tmp l) (ced l) (cbase l) (need l).
Definition set_wsl (l : loc) (p : pc) (w : list (option nat)) : loc :=
  Loc (prog l) p w (ssl l) (nsl l) (sl l) (rcnt l) (rside l) (cv l) (lrl l) (lcl l) (tmp l) (ced l) (cbase l) (need l).
Definition set_ssl (l : loc) (p : pc) (s : list (option snap)) : loc :=
  Loc (prog l) p (wsl l) s (nsl l) (sl l) (rcnt l) (rside l) (cv l) (lrl l) (lcl l) (tmp l) (ced l) (cbase l) (need l).

Definition set_nsl (l : loc) (n : list bool) : loc :=
  Loc (prog l) (at_ l) (wsl l) (ssl l) n (sl l) (rcnt l) (rside l) (cv l) (lrl l) (lcl l) (tmp l) (ced l) (cbase l) (need l).
(* does write slot s hold a null (moved-from) handle object? *)
Definition null_slot (l : loc) (s : nat) : bool := match nth_error (nsl l) s with Some true => true | _ => false end.
Definition cur_sn (l : loc) : option snap :=
  match nth_error (ssl l) (sl l) with Some (Some s) => Some s | _ => None end.
Definition set_ced (l : loc) (p : pc) (e : list edit) : loc :=
  Loc (prog l) p (wsl l) (ssl l) (nsl l) (sl l) (rcnt l) (rside l) (cv l) (lrl l) (lcl l) (tmp l) e (cbase l) (need l).

Definition tstep (t c : nat) (g : glob) (l : loc) : option (glob * loc * list ev) :=
  let goto p := set_at l p in
  match at_ l with
  | Idle =>
    match prog l with
    | [] => None
    | o :: r =>
      let inv := E K_INVOKE 0 (opcode o) in
      (* start an operation on slot s working on version v *)
      let start p s v ws ss tm ed ba nd :=
          Loc r p ws ss (nsl l) s (rcnt l) (rside l) v (lrl l) (lcl l) tm ed ba nd in
      let same p s v := start p s v (wsl l) (ssl l) (tmp l) (ced l) (cbase l) (need l) in
      let refuse := Some (g, same Idle (sl l) (cv l), [inv; ret_ev (-1)]) in
      (* an operation through a handle on version v begins with CowT::touch() *)
      (* cancel / destruction of a null (moved-from) handle object: nothing happens; the object goes away when destroyed *)
      let nullop s (keep : bool) :=
          if null_slot l s
          then Some (g, set_nsl (same Idle (sl l) (cv l)) (if keep then nsl l else upd (nsl l) s false), [inv; ret_ev 0])
          else refuse in
      let touched p s v tm := let '(g1, es) := touch g v in
                              Some (g1, start p s v (wsl l) (ssl l) tm (ced l) (cbase l) (need l), inv :: es) in
      match o with
      | Lock s =>
        match nth_error (wsl l) s with
        | Some None => if null_slot l s then refuse else Some (g, same L_lock s (cv l), [inv])
        | _ => refuse
        end
      | Write s v =>
        match nth_error (wsl l) s with
        | Some (Some h) => touched HW_wb s h v
        | _ => refuse
        end
      | Incr s =>
        match nth_error (wsl l) s with
        | Some (Some h) => touched HI_rb s h (tmp l)
        | _ => refuse
        end
      | ReadH s =>
        match nth_error (wsl l) s with
        | Some (Some h) => touched HR_rb s h (tmp l)
        | _ => refuse
        end
      | Release s =>
        (* ~handle: deleter(ptr): std::shared_ptr<const T> newPtr(ptr); the version can no longer be edited *)
        match nth_error (wsl l) s with
        | Some (Some h) =>
          Some (set_heap g (fupd (heap g) h (set_pub (heap g h))) O,
                start W_lock s h (upd (wsl l) s None) (ssl l) (tmp l) (ced l) (cbase l) (need l), [inv])
        | _ => nullop s false
        end
      | ReleaseUnw s =>
        (* the same destructor, run during stack unwinding *)
        match nth_error (wsl l) s with
        | Some (Some h) =>
          Some (set_heap g (fupd (heap g) h (set_pub (heap g h))) O,
                start W_lock s h (upd (wsl l) s None) (ssl l) (tmp l) (ced l) (cbase l) (need l), [inv])
        | _ => nullop s false
        end
      | Cancel s =>
        match nth_error (wsl l) s with
        | Some (Some h) =>
          Some (g, start C_unlock s h (upd (wsl l) s None) (ssl l) (tmp l) (ced l) (cbase l) (need l), [inv])
        | _ => nullop s true
        end
      | Move a b =>
        match nth_error (wsl l) a, nth_error (wsl l) b with
        | Some (Some h), Some None =>
          (* unique_ptr move construction: ownership (pointer and unique_lock) goes to b, a keeps a null handle *)
          if null_slot l b then refuse else
          Some (g, set_nsl (start Idle (sl l) (cv l) (upd (upd (wsl l) b (Some h)) a None) (ssl l) (tmp l) (ced l) (cbase l) (need l))
                           (upd (nsl l) a true),
                [inv; ret_ev 0])
        | _, _ => refuse
        end
      | LockShared _ s =>
        match nth_error (ssl l) s with
        | Some None => Some (g, start S_ldc s (cv l) (wsl l) (ssl l) (tmp l) (ced l) (cbase l) (nret g), [inv])
        | _ => refuse
        end
      | ReadSnap s =>
        match nth_error (ssl l) s with
        | Some (Some sn) => touched SR_rb s (sv sn) (tmp l)
        | _ => refuse
        end
      | DropSnap s =>
        match nth_error (ssl l) s with
        | Some (Some sn) =>
          Some (decref g (sv sn), start Idle (sl l) (cv l) (wsl l) (upd (ssl l) s None) (tmp l) (ced l) (cbase l) (need l),
                [inv; ret_ev 0])
        | _ => refuse
        end
      | CopySnap a b =>
        match nth_error (ssl l) a, nth_error (ssl l) b with
        | Some (Some sn), Some None =>
          Some (incref g (sv sn), start Idle (sl l) (cv l) (wsl l) (upd (ssl l) b (Some sn)) (tmp l) (ced l) (cbase l) (need l),
                [inv; ret_ev 0])
        | _, _ => refuse
        end
      | Refused _ => refuse
      end
    end
  (* lock(): std::unique_lock<M> guard(m_writeMutex); auto data(m_data.lock_shared()); *)
  | L_lock =>
    match omtx g with
    | None => Some (set_omtx g (Some t), goto L_ldc, [E K_LOCK O_OM 0])
    | Some _ => None
    end
  | L_ldc => Some (g, set_rcnt l L_inc (cl g), [ESC K_LOAD O_CL (b2z (cl g))])
  | L_inc => let v := ctr g (rcnt l) + 1 in Some (set_ctr g (rcnt l) v, goto L_ldr, [ESC K_RMW (o_ctr (rcnt l)) v])
  | L_ldr =>
    (* ... and `**data` : the copy readers are directed to is dereferenced *)
    Some (rd_open g (rl g),
          Loc (prog l) L_call (wsl l) (ssl l) (nsl l) (sl l) (rcnt l) (rl g) (cvid (cp g (rl g))) (lrl l) (lcl l) (tmp l)
              [] (committed g) (need l),
          [ESC K_LOAD O_RL (b2z (rl g))])
  (* std::unique_ptr<T> val(new T( **data )):  CowT(const CowT& o) = user_call(7); o.touch(); o.p.read() *)
  | L_call =>
    let k := calls g in
    if zmem k (plan g)
    then Some (set_calls g (k + 1), goto X_dec, [E K_CALL 0 FID_COPY; E K_THROW 0 k])
    else let '(g1, es) := touch (set_calls g (k + 1)) (cv l) in Some (g1, goto L_rb, E K_CALL 0 FID_COPY :: es)
  | L_rb => let '(g1, es) := rd_begin g (cv l) in Some (g1, goto L_re, es)
  | L_re =>
    (* the private copy exists from here on *)
    let '(g1, es) := rd_end g (cv l) in
    Some (alloc g1 (content (heap g (cv l))), set_cv l L_dec (next g), es)
  (* data.reset(); return handle(val.release(), deleter(std::move(guard), *this)); *)
  | L_dec =>
    let v := ctr g (rcnt l) - 1 in
    Some (set_ctr (rd_close g (rside l)) (rcnt l) v,
          set_wsl l Idle (upd (wsl l) (sl l) (Some (cv l))),
          [ESC K_RMW (o_ctr (rcnt l)) v; ret_ev 0])
  | X_dec =>
    let v := ctr g (rcnt l) - 1 in
    Some (set_ctr (rd_close g (rside l)) (rcnt l) v, goto X_unlock, [ESC K_RMW (o_ctr (rcnt l)) v])
  | X_unlock => Some (set_omtx g None, goto Idle, [E K_UNLOCK O_OM 0; E K_CATCH 0 0])
  (* h->p.write(v) *)
  | HW_wb => let '(g1, es) := wr_begin g (cv l) in Some (g1, goto HW_we, es)
  | HW_we =>
    let '(g1, es) := wr_end g (cv l) (tmp l) in
    Some (g1, set_ced l Idle (ced l ++ [ESet (tmp l)]), es ++ [ret_ev 0])
  (* h->p.incr() = write(read() + 1) *)
  | HI_rb => let '(g1, es) := rd_begin g (cv l) in Some (g1, goto HI_re, es)
  | HI_re => let '(g1, es) := rd_end g (cv l) in Some (g1, set_tmp l HI_wb (content (heap g (cv l))), es)
  | HI_wb => let '(g1, es) := wr_begin g (cv l) in Some (g1, goto HI_we, es)
  | HI_we =>
    let '(g1, es) := wr_end g (cv l) (tmp l + 1) in
    Some (g1, set_ced l Idle (ced l ++ [EIncr]), es ++ [ret_ev 0])
  (* h->p.read() *)
  | HR_rb => let '(g1, es) := rd_begin g (cv l) in Some (g1, goto HR_re, es)
  | HR_re => let '(g1, es) := rd_end g (cv l) in Some (g1, goto Idle, es ++ [ret_ev (content (heap g (cv l)))])
  (* m_guarded.m_data.modify([newPtr](std::shared_ptr<const T>& sptr) { sptr = newPtr; }) *)
  | W_lock =>
    match imtx g with
    | None => Some (set_imtx g (Some t), goto W_ldr, [E K_LOCK O_IM 0])
    | Some _ => None
    end
  | W_ldr =>
    (* local_readingLeft = m_readingLeft.load(); then func( *firstWriteLocation ): sptr = newPtr *)
    Some (wr_open g (negb (rl g)), set_lrl l W_a1b (rl g), [ESC K_LOAD O_RL (b2z (rl g))])
  | W_a1b => let '(g1, es) := swr_begin g (negb (lrl l)) in Some (g1, goto W_a1e, es)
  | W_a1e => Some (sl_assign g (negb (lrl l)) (cv l), goto W_str, [E K_WR_END (O_SL (negb (lrl l))) 0])
  | W_str =>
    Some (flip_rl (wr_close g (negb (lrl l))) (negb (lrl l)) (cv l) (ced l), goto W_ldc,
          [ESC K_STORE O_RL (b2z (negb (lrl l)))])
  | W_ldc => Some (g, set_lcl l W_d1 (cl g), [ESC K_LOAD O_CL (b2z (cl g))])
  | W_d1 =>
    let v := ctr g (negb (lcl l)) in
    if v =? 0
    then Some (set_ph g PC2 (lcl l), goto W_stc, [ESC K_LOAD (o_ctr (negb (lcl l))) v])
    else Some (g, goto W_y1, [ESC K_LOAD (o_ctr (negb (lcl l))) v])
  | W_y1 => Some (g, goto W_d1, [E K_YIELD 0 0])
  | W_stc => Some (set_cl g (negb (lcl l)), goto W_d2, [ESC K_STORE O_CL (b2z (negb (lcl l)))])
  | W_d2 =>
    let v := ctr g (lcl l) in
    if v =? 0
    then (* ... func( *secondWriteLocation ) *)
         Some (wr_open (set_ph g PA (glcl g)) (lrl l), goto W_a2b, [ESC K_LOAD (o_ctr (lcl l)) v])
    else Some (g, goto W_y2, [ESC K_LOAD (o_ctr (lcl l)) v])
  | W_y2 => Some (g, goto W_d2, [E K_YIELD 0 0])
  | W_a2b => let '(g1, es) := swr_begin g (lrl l) in Some (g1, goto W_a2e, es)
  | W_a2e => Some (sl_assign g (lrl l) (cv l), goto W_unlock, [E K_WR_END (O_SL (lrl l)) 0])
  | W_unlock => Some (set_imtx (wr_close g (lrl l)) None, goto W_ounlock, [E K_UNLOCK O_IM 0])
  (* if (m_lock.owns_lock()) m_lock.unlock(); *)
  | W_ounlock => Some (set_nret (set_omtx g None) (S (nret g)), goto Idle, [E K_UNLOCK O_OM 0; ret_ev 0])
  (* cancel(): m_cancelled = true; m_lock.unlock(); then reset(): delete ptr *)
  | C_unlock => Some (destroy (set_omtx g None) (cv l), goto Idle, [E K_UNLOCK O_OM 0; ret_ev 0])
  (* lock_shared(): auto slock = m_data.lock_shared(); return *slock; *)
  | S_ldc => Some (g, set_rcnt l S_inc (cl g), [ESC K_LOAD O_CL (b2z (cl g))])
  | S_inc => let v := ctr g (rcnt l) + 1 in Some (set_ctr g (rcnt l) v, goto S_ldr, [ESC K_RMW (o_ctr (rcnt l)) v])
  | S_ldr => Some (rd_open g (rl g), set_rside l S_rb (rl g), [ESC K_LOAD O_RL (b2z (rl g))])
  (* return *slock: the shared_ptr object the reader was directed to is copied *)
  | S_rb => let '(g1, es) := srd_begin g (rside l) in Some (g1, goto S_re, es)
  | S_re =>
    let v := cvid (cp g (rside l)) in
    Some (incref (srd_end g (rside l)) v,
          Loc (prog l) S_dec (wsl l) (upd (ssl l) (sl l) (Some (Snap v (need l) (content (heap g v))))) (nsl l) (sl l) (rcnt l)
              (rside l) v (lrl l) (lcl l) (tmp l) (ced l) (cbase l) (need l),
          [E K_RD_END (O_SL (rside l)) 0])
  | S_dec =>
    let v := ctr g (rcnt l) - 1 in
    Some (set_ctr (rd_close g (rside l)) (rcnt l) v, goto Idle, [ESC K_RMW (o_ctr (rcnt l)) v; ret_ev 0])
  (* snapshot->p.read() *)
  | SR_rb => let '(g1, es) := rd_begin g (cv l) in Some (g1, goto SR_re, es)
  | SR_re => let '(g1, es) := rd_end g (cv l) in Some (g1, goto Idle, es ++ [ret_ev (content (heap g (cv l)))])
  end.

Definition fin (l : loc) : bool := match at_ l, prog l with Idle, [] => true | _, _ => false end.

Definition init_loc (nw ns : nat) (p : list op) : loc :=
  Loc p Idle (repeat None nw) (repeat None ns) (repeat false nw) O true true O true true 0 [] O O.
Definition no_ver : ver := Ver 0 false O false 0 false O.
Definition init_heap (x : Z) : nat -> ver := fun v => match v with O => Ver x true 2 false 0 false O | S _ => no_ver end.
Definition init_glob (x : Z) (pl : list Z) : glob :=
  Glob None None true true 0 0 (LC O false 0 0 false) (LC O false 0 0 false) (init_heap x) 1 pl 0 O 1 0 O O O O [] x PA true.
Definition init (nw ns : nat) (x : Z) (pl : list Z) (progs : list (list op)) : sys glob loc :=
  Sys (init_glob x pl) (map (init_loc nw ns) progs).

(* ---------- entry point of the correspondence check ---------- *)
Fixpoint decode_prog (timed : bool) (p : list (list Z)) : list op :=
  match p with
  | [] => []
  | z :: r => match decode_op timed z with Some o => o :: decode_prog timed r | None => decode_prog timed r end
  end.

Definition opt1 (m : option nat) : Z := match m with Some _ => 1 | None => 0 end.
(* modelling assumption pinned to the source: the two reader counters of the inner lr_guarded are unbounded here
   (CowProofs: ctr = number of registered threads, I_cnt), the code's are std::atomic<int>; they agree as long as
   fewer than 2^31 threads are registered in one counter.  A narrower type wraps with that many concurrent readers
   (e.g. 256 for a byte) and the commit stops waiting for them: the theorems need a counter that cannot wrap for the
   number of threads.  The driver prints numeric_limits<>::max() of the counters' value type in the same line. *)
Definition COUNTER_MAX : Z := 2147483647.
Definition final (s : sys glob loc) : list line :=
  let g := gl s in
  [[-2; content (heap g (cvid (cleft g))); content (heap g (cvid (cright g))); b2z (rl g); b2z (cl g); lc g; rc g;
    opt1 (omtx g); opt1 (imtx g); created g; destroyed g; Z.of_nat (faults g)];
   [-2; COUNTER_MAX; COUNTER_MAX]].

Definition cfg_nth (cfg : list Z) (i : nat) : Z := nth i cfg 0.
Definition init_of (cfg : list Z) (progs : list (list (list Z))) : sys glob loc :=
  init (Z.to_nat (cfg_nth cfg 0)) (Z.to_nat (cfg_nth cfg 1)) (cfg_nth cfg 2) (skipn 4 cfg) (map (decode_prog (cfg_nth cfg 3 =? 1)) progs).
Definition run_case (cfg : list Z) (progs : list (list (list Z))) (sched : list (Z * Z)) : list line :=
  run_case_gen glob loc tstep fin (init_of cfg progs) sched final.
