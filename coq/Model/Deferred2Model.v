(* Two deferred_guarded objects A and B of the same type, and modification functions of A that submit a
   modification to B while they run ("nested" submissions): the product of two copies of DeferredModel.
   Definitions only (no lemmas): this file is extracted and run against harness/deferred2_drv.cpp.

   Every step of a thread is a step of DeferredModel.tstep in one of the two objects (on that object's global
   state and on the thread's pc in that object); the single exception is the invocation of a nested functor of A,
   which is fused with the (invisible) entry of the inner B.modify_* call.  A nested call emits no K_INVOKE / K_RET.
   The objects share nothing but the threads.  cfg = [mutex kind]; there is no throw plan in this component.
   ops: c ... (c in 0..11) = operation c on A; 20+c ... = the same on B;
        12 fid fid2 / 13 fid fid2 : A.modify_detach(nested functor, inner B.modify_detach / B.modify_async)
        14 fid fid2 slot / 15 ... : A.modify_async(nested functor, inner detach / async)
        16..19                    : as 12..15, but the nested functor submits to A ITSELF (re-submission from inside
                                    a modification function: the drainer owns A's mutex, so the inner call always
                                    takes the queued path; it is applied by a later drain, never by the running one)
   A thread that is inside a functor of A and, from there, inside a call on A again has two pcs in A's automaton:
   its own (lA) and a second one (lA2) that acts in A under the thread id nthr + t. *)
From Coq Require Import List Arith ZArith Bool.
Import ListNotations.
From GV Require Import Sched Events DeferredModel.
Local Open Scope Z_scope.

Inductive op2 :=
| OnA (o : op) | OnB (o : op)
| Nested (code : Z) (o : op) (self : bool) (iasync : bool) (fid2 : Z).
  (* o: the outer submission to A; code: its op code; self: the inner submission goes to A (else to B) *)

Definition decode_op2 (z : list Z) : option op2 :=
  match z with
  | [12; f; f2] => Some (Nested 12 (ModifyDetach f) false false f2)
  | [13; f; f2] => Some (Nested 13 (ModifyDetach f) false true f2)
  | [14; f; f2; s] => Some (Nested 14 (ModifyAsync f s) false false f2)
  | [15; f; f2; s] => Some (Nested 15 (ModifyAsync f s) false true f2)
  | [16; f; f2] => Some (Nested 16 (ModifyDetach f) true false f2)
  | [17; f; f2] => Some (Nested 17 (ModifyDetach f) true true f2)
  | [18; f; f2; s] => Some (Nested 18 (ModifyAsync f s) true false f2)
  | [19; f; f2; s] => Some (Nested 19 (ModifyAsync f s) true true f2)
  | c :: r =>
    if c <? 12 then match decode_op z with Some o => Some (OnA o) | None => None end
    else if (20 <=? c) && (c <? 32) then match decode_op (c - 20 :: r) with Some o => Some (OnB o) | None => None end
    else None
  | [] => None
  end.

(* lA / lB: the thread's state in A's and in B's automaton (their own program fields stay empty: an operation is
   handed to the object's automaton when it starts) *)
Record loc2 := Loc2 { prog2 : list op2; lA : loc; lA2 : loc; lB : loc }.
(* nest: the A-tasks that are nested functors, with their inner submission (to A itself?, async?, fid2);
   nthr: the number of threads *)
Record glob2 := Glob2 { gA : glob; gB : glob; nest : list (nat * (bool * bool * Z)); nthr : nat }.

Fixpoint nlookup (k : nat) (l : list (nat * (bool * bool * Z))) : option (bool * bool * Z) :=
  match l with [] => None | (k', v) :: r => if Nat.eqb k' k then Some v else nlookup k r end.

(* ---------- events of B are told apart from those of A by their object ids ---------- *)
Definition shiftB (e : ev) : ev := Ev (ek e) (if eo e =? 0 then 0 else eo e + 1000) (evl e) (emo e).
Definition is_kind (k : Z) (e : ev) : bool := ek e =? k.
Definition drop_kind (k : Z) (es : list ev) : list ev := filter (fun e => negb (is_kind k e)) es.
Definition set_invoke (code : Z) (es : list ev) : list ev :=
  map (fun e => if is_kind K_INVOKE e then Ev K_INVOKE 0 code (emo e) else e) es.

Definition idle (l : loc) : bool := match at_ l with Idle => true | _ => false end.
(* the object automaton is handed one operation *)
Definition with_op (l : loc) (o : op) : loc := Loc [o] Idle (hand l) (futs l).
(* slot used for the (dropped) future of an inner modify_async *)
Definition DROPPED_SLOT := 99.
Definition inner_op (ia : bool) (fid2 : Z) : op := if ia then ModifyAsync fid2 DROPPED_SLOT else ModifyDetach fid2.

Definition tstep2 (t c : nat) (g : glob2) (l : loc2) : option (glob2 * loc2 * list ev) :=
  if negb (idle (lA2 l)) then
    (* the inner call of a functor of A that re-submits to A: the thread acts in A a second time *)
    match tstep (nthr g + t) c (gA g) (lA2 l) with
    | None => None
    | Some (gA', lA2', es) =>
      Some (Glob2 gA' (gB g) (nest g) (nthr g), Loc2 (prog2 l) (lA l) lA2' (lB l), drop_kind K_RET es)
    end
  else if negb (idle (lB l)) then
    (* a call on B is in progress: a top-level one, or the inner call of a nested functor (then A's pc is inside
       that functor's body and the call's return is not an event) *)
    match tstep t c (gB g) (lB l) with
    | None => None
    | Some (gB', lB', es) =>
      Some (Glob2 (gA g) gB' (nest g) (nthr g), Loc2 (prog2 l) (lA l) (lA2 l) lB',
            map shiftB (if idle (lA l) then es else drop_kind K_RET es))
    end
  else if negb (idle (lA l)) then
    match tstep t c (gA g) (lA l) with
    | None => None
    | Some (gA', lA', es) =>
      let plain := Some (Glob2 gA' (gB g) (nest g) (nthr g), Loc2 (prog2 l) lA' (lA2 l) (lB l), es) in
      match at_ (lA l) with
      | F_call b =>
        match nlookup (btask b) (nest g) with
        | Some (false, ia, fid2) =>
          (* the nested functor has been invoked: it enters B.modify_* at once (no scheduling point in between) *)
          match tstep t c (gB g) (with_op (lB l) (inner_op ia fid2)) with
          | None => None
          | Some (gB', lB', esB) =>
            Some (Glob2 gA' gB' (nest g) (nthr g), Loc2 (prog2 l) lA' (lA2 l) lB', es ++ map shiftB (drop_kind K_INVOKE esB))
          end
        | Some (true, ia, fid2) =>
          (* ... or A.modify_* again *)
          match tstep (nthr g + t) c gA' (with_op (lA2 l) (inner_op ia fid2)) with
          | None => None
          | Some (gA'', lA2', esA) =>
            Some (Glob2 gA'' (gB g) (nest g) (nthr g), Loc2 (prog2 l) lA' lA2' (lB l), es ++ drop_kind K_INVOKE esA)
          end
        | None => plain
        end
      | _ => plain
      end
    end
  else
    match prog2 l with
    | [] => None
    | OnA o :: r =>
      match tstep t c (gA g) (with_op (lA l) o) with
      | None => None
      | Some (gA', lA', es) => Some (Glob2 gA' (gB g) (nest g) (nthr g), Loc2 r lA' (lA2 l) (lB l), es)
      end
    | OnB o :: r =>
      match tstep t c (gB g) (with_op (lB l) o) with
      | None => None
      | Some (gB', lB', es) =>
        Some (Glob2 (gA g) gB' (nest g) (nthr g), Loc2 r (lA l) (lA2 l) lB', map shiftB (set_invoke (opcode o + 20) es))
      end
    | Nested code o self ia fid2 :: r =>
      match tstep t c (gA g) (with_op (lA l) o) with
      | None => None
      | Some (gA', lA', es) =>
        Some (Glob2 gA' (gB g) ((ntasks (gA g), (self, ia, fid2)) :: nest g) (nthr g), Loc2 r lA' (lA2 l) (lB l),
              set_invoke code es)
      end
    end.

Definition fin2 (l : loc2) : bool :=
  idle (lA l) && idle (lA2 l) && idle (lB l) && match prog2 l with [] => true | _ => false end.

Definition init_glob (m : Z) : glob := gl (init m [] []).
Definition init_loc : loc := Loc [] Idle [] [].
Definition init2 (m : Z) (progs : list (list op2)) : sys glob2 loc2 :=
  Sys (Glob2 (init_glob m) (init_glob m) [] (length progs)) (map (fun p => Loc2 p init_loc init_loc init_loc) progs).

(* ---------- entry point of the correspondence check ---------- *)
Fixpoint decode_prog2 (p : list (list Z)) : list op2 :=
  match p with
  | [] => []
  | z :: r => match decode_op2 z with Some o => o :: decode_prog2 r | None => decode_prog2 r end
  end.

Definition final_of (g : glob) : line :=
  [-2; pay g; b2z (flag g); Z.of_nat (length (queue g)); b2z (free_s g); Z.of_nat (nsh g)].
Definition final2 (s : sys glob2 loc2) : list line := [final_of (gA (gl s)); final_of (gB (gl s))].

Definition run_case (cfg : list Z) (progs : list (list (list Z))) (sched : list (Z * Z)) : list line :=
  let m := match cfg with m :: _ => m | [] => 0 end in
  run_case_gen glob2 loc2 tstep2 fin2 (init2 m (map decode_prog2 progs)) sched final2.
