(* gmlc/libguarded/deferred_guarded.hpp (with the guarded<vector> pending list of guarded.hpp and the
   shared handles of handles.hpp) as a pc automaton: one step per visible operation.
   Definitions only (no lemmas): this file is extracted and run against the code.

   cfg = mutex kind :: indices of the user-code invocations that throw
     mutex kind 0 shared_timed_mutex (default M), 1 shared_mutex, 2 timed_mutex, 3 mutex
   A task is one submitted functor (modify_detach / modify_async), numbered in order of invocation.
   Functor fid:  user_call(fid); x.write(apply_f fid (x.read()))   (modify_async returns the new value), where
   apply_f fid v = 16 v + fid for fid < 100 (the payload is the log of the applied functors) and = fid otherwise
   (long bursts of submissions: the payload is the last functor applied). *)
From Coq Require Import List Arith ZArith Bool.
Import ListNotations.
From GV Require Import Sched Events.
Local Open Scope Z_scope.

(* ---------- client operations ---------- *)
(* future slots >= 100: the submitted functor returns void (std::future<void>: get() yields no value, reported as 0) *)
Inductive op :=
| ModifyDetach (fid : Z) | ModifyAsync (fid slot : Z)
| LockShared (h : Z) | TryLockShared (h : Z) | TryLockSharedFor (h : Z) | TryLockSharedUntil (h : Z)
| ReadHandle (h : Z) | BoolH (h : Z) | Release (h : Z) | LoadOp
| FutureReady (slot : Z) | FutureGet (slot : Z).

Definition opcode (o : op) : Z :=
  match o with
  | ModifyDetach _ => 0 | ModifyAsync _ _ => 1 | LockShared _ => 2 | TryLockShared _ => 3
  | TryLockSharedFor _ => 4 | TryLockSharedUntil _ => 5 | ReadHandle _ => 6 | BoolH _ => 7
  | Release _ => 8 | LoadOp => 9 | FutureReady _ => 10 | FutureGet _ => 11
  end.
Definition decode_op (z : list Z) : option op :=
  match z with
  | [0; f] => Some (ModifyDetach f) | [1; f; s] => Some (ModifyAsync f s)
  | [2; h] => Some (LockShared h) | [3; h] => Some (TryLockShared h)
  | [4; h] => Some (TryLockSharedFor h) | [5; h] => Some (TryLockSharedUntil h)
  (* an optional third argument selects a zero / negative duration or a deadline in the past in the driver: same behaviour *)
  | [4; h; _] => Some (TryLockSharedFor h) | [5; h; _] => Some (TryLockSharedUntil h)
  | [6; h] => Some (ReadHandle h) | [7; h] => Some (BoolH h) | [8; h] => Some (Release h)
  | [9] => Some LoadOp | [10; s] => Some (FutureReady s) | [11; s] => Some (FutureGet s)
  | _ => None
  end.

(* ---------- program counters ---------- *)
(* the shared acquisition that follows do_pending_writes() *)
Inductive acq := AcLock (h : Z) | AcTry (h : Z) | AcFor (h : Z) | AcLoad.
(* who runs do_pending_writes_internal(): the direct path of modify_* for task tk, or do_pending_writes() *)
Inductive ctx := CDir (tk : nat) | CPre (a : acq).
(* who runs a functor body: the direct path (task tk), or the drain loop of [c] (task tk, then [rest]) *)
Inductive bctx := BD (tk : nat) | BQ (c : ctx) (tk : nat) (rest : list nat).
Definition btask (b : bctx) : nat := match b with BD tk => tk | BQ _ tk _ => tk end.

Inductive pc :=
| Idle
| M_try (tk : nat)                                   (* unique_lock lock(m_mutex, try_to_lock) *)
| Q_lockt (tk : nat) | Q_unlockt (tk : nat)          (* modify_async, queued: ttask->get_future() under the task's own mutex *)
| Q_lockl (tk : nat) | Q_unlockl (tk : nat)          (* m_pendingList.lock()->push_back(...) *)
| Q_store (tk : nat)                                 (* m_pendingWrites.store(true) *)
| P_load (a : acq) | P_try (a : acq)                 (* do_pending_writes(): load the flag, try-lock *)
| DI_load (c : ctx) | DI_clear (c : ctx)             (* do_pending_writes_internal(): load, store(false) *)
| DI_lockl (c : ctx) | DI_unlockl (c : ctx) (lp : list nat)   (* swap(localPending, *m_pendingList.lock()) *)
| T_lock (c : ctx) (tk : nat) (rest : list nat)      (* f->run_task: task.lock() *)
| F_call (b : bctx) | F_rdb (b : bctx) | F_rde (b : bctx) | F_wrb (b : bctx) (v : Z) | F_wre (b : bctx) (v : Z)
| T_unlock (c : ctx) (tk : nat) (rest : list nat)    (* the temporary handle of run_task dies *)
| M_unlock (tk : nat) (thrown : bool)                (* ~unique_lock at the end of modify_* (direct path) *)
| P_unlock (a : acq)                                 (* ~unique_lock at the end of do_pending_writes() *)
| S_acq (a : acq)                                    (* the shared acquisition itself *)
| L_rdb | L_rde | L_unlock (v : Z)                   (* load(): copy the payload, drop the handle *)
| H_rdb | H_rde                                      (* client read through a handle *)
| H_rel (h : Z).                                     (* client destroys an owning handle *)

Inductive fcell := FPending | FVal (v : Z) | FExn.

(* ghost state: stamps taken from a clock that every step advances, counters, the log of completed functors *)
Record ghost := Ghost {
  clock : nat; donelog : list nat;
  tsub : nat -> nat;                 (* submitting thread *)
  tinv : nat -> nat;                 (* stamp of the invocation of the submit call *)
  tpush : nat -> option nat;         (* stamp of the push_back (queued path) *)
  tret : nat -> option nat;          (* stamp of the return of the submit call *)
  texec : nat -> option nat;         (* stamp of the functor invocation *)
  tcount : nat -> nat;               (* number of invocations of the functor *)
  trunner : nat -> option nat;       (* thread that invoked it *)
  tfsets : nat -> nat;               (* number of times the future cell was set *)
  tpre : nat -> Z }.                 (* payload value when the functor was invoked *)

Record loc := Loc { prog : list op; at_ : pc; hand : list (Z * bool); futs : list (Z * nat) }.

Record glob := Glob {
  mk : Z; throws : list Z;
  owner : option nat; nsh : nat;                       (* the outer mutex: exclusive owner, number of shared holds *)
  flag : bool;                                         (* m_pendingWrites *)
  lmtx : option nat; queue : list nat;                 (* m_pendingList: its mutex, the queued task ids *)
  pay : Z; rdrs : nat; dirty : bool; faulted : bool;   (* m_obj (a VPay) *)
  calls : Z;                                           (* number of user-code invocations so far *)
  ntasks : nat; tfid : nat -> Z; tasync : nat -> bool; (* the submitted functors *)
  tmtx : nat -> option nat;                            (* mutex of the guarded<packaged_task> inside each runner *)
  tfut : nat -> fcell;                                 (* shared state of each packaged_task / promise *)
  gh : ghost }.

Definition O_MTX := 1. Definition O_FLAG := 2. Definition O_LIST := 3. Definition O_PAY := 4.
Definition O_TASK (tk : nat) : Z := 10 + Z.of_nat tk.

Definition fupd {A} (f : nat -> A) (k : nat) (v : A) : nat -> A := fun x => if Nat.eqb x k then v else f x.

Definition set_owner g x := Glob (mk g) (throws g) x (nsh g) (flag g) (lmtx g) (queue g) (pay g) (rdrs g) (dirty g) (faulted g) (calls g) (ntasks g) (tfid g) (tasync g) (tmtx g) (tfut g) (gh g).
Definition set_nsh g x := Glob (mk g) (throws g) (owner g) x (flag g) (lmtx g) (queue g) (pay g) (rdrs g) (dirty g) (faulted g) (calls g) (ntasks g) (tfid g) (tasync g) (tmtx g) (tfut g) (gh g).
Definition set_flag g x := Glob (mk g) (throws g) (owner g) (nsh g) x (lmtx g) (queue g) (pay g) (rdrs g) (dirty g) (faulted g) (calls g) (ntasks g) (tfid g) (tasync g) (tmtx g) (tfut g) (gh g).
Definition set_list g m q := Glob (mk g) (throws g) (owner g) (nsh g) (flag g) m q (pay g) (rdrs g) (dirty g) (faulted g) (calls g) (ntasks g) (tfid g) (tasync g) (tmtx g) (tfut g) (gh g).
Definition set_pay g p r d f := Glob (mk g) (throws g) (owner g) (nsh g) (flag g) (lmtx g) (queue g) p r d f (calls g) (ntasks g) (tfid g) (tasync g) (tmtx g) (tfut g) (gh g).
Definition set_calls g x := Glob (mk g) (throws g) (owner g) (nsh g) (flag g) (lmtx g) (queue g) (pay g) (rdrs g) (dirty g) (faulted g) x (ntasks g) (tfid g) (tasync g) (tmtx g) (tfut g) (gh g).
Definition set_tmtx g tk m := Glob (mk g) (throws g) (owner g) (nsh g) (flag g) (lmtx g) (queue g) (pay g) (rdrs g) (dirty g) (faulted g) (calls g) (ntasks g) (tfid g) (tasync g) (fupd (tmtx g) tk m) (tfut g) (gh g).
Definition set_tfut g tk f := Glob (mk g) (throws g) (owner g) (nsh g) (flag g) (lmtx g) (queue g) (pay g) (rdrs g) (dirty g) (faulted g) (calls g) (ntasks g) (tfid g) (tasync g) (tmtx g) (fupd (tfut g) tk f) (gh g).
Definition set_gh g x := Glob (mk g) (throws g) (owner g) (nsh g) (flag g) (lmtx g) (queue g) (pay g) (rdrs g) (dirty g) (faulted g) (calls g) (ntasks g) (tfid g) (tasync g) (tmtx g) (tfut g) x.
(* a fresh task id: its mutex is free and its future cell pending (never touched before) *)
Definition add_task g fid async := Glob (mk g) (throws g) (owner g) (nsh g) (flag g) (lmtx g) (queue g) (pay g) (rdrs g) (dirty g) (faulted g) (calls g) (S (ntasks g)) (fupd (tfid g) (ntasks g) fid) (fupd (tasync g) (ntasks g) async) (tmtx g) (tfut g) (gh g).
Definition h_tick h  := Ghost (S (clock h)) (donelog h) (tsub h) (tinv h) (tpush h) (tret h) (texec h) (tcount h) (trunner h) (tfsets h) (tpre h).
Definition h_done h tk := Ghost (clock h) (donelog h ++ [tk]) (tsub h) (tinv h) (tpush h) (tret h) (texec h) (tcount h) (trunner h) (tfsets h) (tpre h).
Definition h_new h tk t := Ghost (clock h) (donelog h) (fupd (tsub h) tk t) (fupd (tinv h) tk (clock h)) (fupd (tpush h) tk None) (fupd (tret h) tk None) (fupd (texec h) tk None) (fupd (tcount h) tk O) (fupd (trunner h) tk None) (fupd (tfsets h) tk O) (tpre h).
Definition h_push h tk := Ghost (clock h) (donelog h) (tsub h) (tinv h) (fupd (tpush h) tk (Some (clock h))) (tret h) (texec h) (tcount h) (trunner h) (tfsets h) (tpre h).
Definition h_ret h tk := Ghost (clock h) (donelog h) (tsub h) (tinv h) (tpush h) (fupd (tret h) tk (Some (clock h))) (texec h) (tcount h) (trunner h) (tfsets h) (tpre h).
Definition h_exec h tk t p := Ghost (clock h) (donelog h) (tsub h) (tinv h) (tpush h) (tret h) (fupd (texec h) tk (Some (clock h))) (fupd (tcount h) tk (S (tcount h tk))) (fupd (trunner h) tk (Some t)) (tfsets h) (fupd (tpre h) tk p).
Definition h_fset h tk := Ghost (clock h) (donelog h) (tsub h) (tinv h) (tpush h) (tret h) (texec h) (tcount h) (trunner h) (fupd (tfsets h) tk (S (tfsets h tk))) (tpre h).
Definition ghost_of g (f : ghost -> ghost) := set_gh g (f (gh g)).
Definition tick g := ghost_of g h_tick.

Definition shcap (g : glob) : bool := (mk g =? 0) || (mk g =? 1).
Definition timed (g : glob) : bool := (mk g =? 0) || (mk g =? 2).
Definition free_s (g : glob) : bool := match owner g with None => true | Some _ => false end.
Definition free_x (g : glob) : bool :=
  match owner g with None => if shcap g then Nat.eqb (nsh g) 0 else true | Some _ => false end.
Definition b2z (b : bool) : Z := if b then 1 else 0.

(* ---------- small tables of a thread: handle slots and future slots ---------- *)
Fixpoint hlookup (h : Z) (l : list (Z * bool)) : option bool :=
  match l with [] => None | (k, b) :: r => if k =? h then Some b else hlookup h r end.
Fixpoint hremove (h : Z) (l : list (Z * bool)) : list (Z * bool) :=
  match l with [] => [] | (k, b) :: r => if k =? h then r else (k, b) :: hremove h r end.
Fixpoint flookup (s : Z) (l : list (Z * nat)) : option nat :=
  match l with [] => None | (k, b) :: r => if k =? s then Some b else flookup s r end.
Fixpoint fremove (s : Z) (l : list (Z * nat)) : list (Z * nat) :=
  match l with [] => [] | (k, b) :: r => if k =? s then fremove s r else (k, b) :: fremove s r end.

(* ---------- the payload windows (harness/vpay.hpp) ---------- *)
Definition fault_if (b : bool) (code : Z) : list ev := if b then [E K_FAULT O_PAY code] else [].
Definition rd_begin g : glob * list ev :=
  (set_pay g (pay g) (S (rdrs g)) (dirty g) (faulted g || dirty g), fault_if (dirty g) 2 ++ [E K_RD_BEGIN O_PAY 0]).
Definition rd_end g : glob * list ev :=
  (set_pay g (pay g) (pred (rdrs g)) (dirty g) (faulted g || dirty g), fault_if (dirty g) 4 ++ [E K_RD_END O_PAY (pay g)]).
Definition wr_begin g : glob * list ev :=
  let r := negb (Nat.eqb (rdrs g) 0) in
  (set_pay g (pay g) (rdrs g) true (faulted g || r || dirty g), fault_if r 1 ++ fault_if (dirty g) 3 ++ [E K_WR_BEGIN O_PAY 0]).
Definition wr_end g (v : Z) : glob * list ev :=
  (set_pay g v (rdrs g) false (faulted g), [E K_WR_END O_PAY v]).

(* ---------- the shared acquisition, per mutex kind (shared_locker<M>) ---------- *)
Definition acq_shared (t c : nat) (g : glob) (a : acq) : option (glob * bool * list ev) :=
  if shcap g then
    let ok := free_s g in
    let g' := if ok then set_nsh g (S (nsh g)) else g in
    match a with
    | AcLock _ | AcLoad => if ok then Some (g', true, [E K_LOCK_SH O_MTX 0]) else None
    | AcTry _ => Some (g', ok, [E K_TRYLOCK_SH O_MTX (b2z ok)])
    | AcFor _ => if ok || Nat.eqb c 2 then Some (g', ok, [E K_TRYLOCK_SH_FOR O_MTX (b2z ok)]) else None
    end
  else
    let ok := free_x g in
    let g' := if ok then set_owner g (Some t) else g in
    match a with
    | AcLock _ | AcLoad => if ok then Some (g', true, [E K_LOCK O_MTX 0]) else None
    | AcTry _ => Some (g', ok, [E K_TRYLOCK O_MTX (b2z ok)])
    | AcFor _ => if ok || Nat.eqb c 2 then Some (g', ok, [E K_TRYLOCK_FOR O_MTX (b2z ok)]) else None
    end.
Definition rel_shared (g : glob) : glob * list ev :=
  if shcap g then (set_nsh g (pred (nsh g)), [E K_UNLOCK_SH O_MTX 0])
  else (set_owner g None, [E K_UNLOCK O_MTX 0]).

(* what the harness functor fid computes from the payload value v *)
Definition apply_f (fid v : Z) : Z := if fid <? 100 then v * 16 + fid else fid.

Definition ret (v : Z) : ev := E K_RET 0 v.
Definition inv_ev (o : op) : ev := E K_INVOKE 0 (opcode o).

(* where the drain loop goes next *)
Definition cont (c : ctx) : pc := match c with CDir tk => F_call (BD tk) | CPre a => P_unlock a end.
Definition after_drain (c : ctx) (lp : list nat) : pc :=
  match lp with [] => cont c | tk :: r => T_lock c tk r end.
(* where a functor body goes when it is over *)
Definition body_done (g : glob) (b : bctx) (thrown : bool) : pc :=
  match b with
  | BQ c tk r => T_unlock c tk r                                   (* packaged_task caught it *)
  | BD tk => M_unlock tk (thrown && negb (tasync g tk))    (* modify_async catches, modify_detach propagates *)
  end.

Definition new_task (g : glob) (t : nat) (fid : Z) (async : bool) : glob :=
  ghost_of (add_task g fid async) (fun h => h_new h (ntasks g) t).

(* the first step of an operation *)
Definition start_op (t : nat) (g : glob) (l : loc) (o : op) : glob * loc * list ev :=
  let goto p := Loc (prog l) p (hand l) (futs l) in
  let stay v := (g, l, [inv_ev o; ret v]) in
  let shared a h := match hlookup h (hand l) with Some _ => stay (-1) | None => (g, goto (P_load a), [inv_ev o]) end in
  match o with
  | ModifyDetach fid => (new_task g t fid false, goto (M_try (ntasks g)), [inv_ev o])
  | ModifyAsync fid s =>
    (new_task g t fid true, Loc (prog l) (M_try (ntasks g)) (hand l) ((s, ntasks g) :: fremove s (futs l)), [inv_ev o])
  | LockShared h => shared (AcLock h) h
  | TryLockShared h => shared (AcTry h) h
  | TryLockSharedFor h => if timed g then shared (AcFor h) h else stay (-1)
  | TryLockSharedUntil h => if timed g then shared (AcFor h) h else stay (-1)
  | ReadHandle h => match hlookup h (hand l) with Some true => (g, goto H_rdb, [inv_ev o]) | _ => stay (-1) end
  | BoolH h => match hlookup h (hand l) with Some b => stay (b2z b) | None => stay (-1) end
  | Release h =>
    match hlookup h (hand l) with
    | Some true => (g, goto (H_rel h), [inv_ev o])
    | Some false => (g, Loc (prog l) Idle (hremove h (hand l)) (futs l), [inv_ev o; ret 0])
    | None => stay (-1)
    end
  | LoadOp => (g, goto (P_load AcLoad), [inv_ev o])
  | FutureReady s =>
    match flookup s (futs l) with
    | None => stay (-1)
    | Some tk => match tfut g tk with FPending => stay 0 | _ => stay 1 end
    end
  | FutureGet s =>
    match flookup s (futs l) with
    | None => stay (-1)
    | Some tk =>
      match tfut g tk with
      | FPending => stay (-2)
      | FVal v => (g, Loc (prog l) Idle (hand l) (fremove s (futs l)), [inv_ev o; ret (if 100 <=? s then 0 else v)])
      | FExn => (g, Loc (prog l) Idle (hand l) (fremove s (futs l)), [inv_ev o; ret (-3)])
      end
    end
  end.

Definition tstep0 (t c : nat) (g : glob) (l : loc) : option (glob * loc * list ev) :=
  let goto p := Loc (prog l) p (hand l) (futs l) in
  match at_ l with
  | Idle =>
    match prog l with
    | [] => None
    | o :: r => Some (start_op t g (Loc r Idle (hand l) (futs l)) o)
    end
  (* modify_detach / modify_async: std::unique_lock<M> lock(m_mutex, std::try_to_lock) *)
  | M_try tk =>
    if free_x g then Some (set_owner g (Some t), goto (DI_load (CDir tk)), [E K_TRYLOCK O_MTX 1])
    else Some (g, goto (if tasync g tk then Q_lockt tk else Q_lockl tk), [E K_TRYLOCK O_MTX 0])
  (* queued path *)
  | Q_lockt tk =>
    match tmtx g tk with
    | None => Some (set_tmtx g tk (Some t), goto (Q_unlockt tk), [E K_LOCK (O_TASK tk) 0])
    | Some _ => None
    end
  | Q_unlockt tk => Some (set_tmtx g tk None, goto (Q_lockl tk), [E K_UNLOCK (O_TASK tk) 0])
  | Q_lockl tk =>
    match lmtx g with
    | None => Some (ghost_of (set_list g (Some t) (queue g ++ [tk])) (fun h => h_push h tk), goto (Q_unlockl tk), [E K_LOCK O_LIST 0])
    | Some _ => None
    end
  | Q_unlockl tk => Some (set_list g None (queue g), goto (Q_store tk), [E K_UNLOCK O_LIST 0])
  | Q_store tk =>
    Some (ghost_of (set_flag g true) (fun h => h_ret h tk), goto Idle, [ESC K_STORE O_FLAG 1; ret 0])
  (* do_pending_writes() *)
  | P_load a => Some (g, goto (if flag g then P_try a else S_acq a), [ESC K_LOAD O_FLAG (b2z (flag g))])
  | P_try a =>
    if free_x g then Some (set_owner g (Some t), goto (DI_load (CPre a)), [E K_TRYLOCK O_MTX 1])
    else Some (g, goto (S_acq a), [E K_TRYLOCK O_MTX 0])
  (* do_pending_writes_internal() *)
  | DI_load c => Some (g, goto (if flag g then DI_clear c else cont c), [ESC K_LOAD O_FLAG (b2z (flag g))])
  | DI_clear c => Some (set_flag g false, goto (DI_lockl c), [ESC K_STORE O_FLAG 0])
  | DI_lockl c =>
    match lmtx g with
    | None => Some (set_list g (Some t) [], goto (DI_unlockl c (queue g)), [E K_LOCK O_LIST 0])
    | Some _ => None
    end
  | DI_unlockl c lp => Some (set_list g None (queue g), goto (after_drain c lp), [E K_UNLOCK O_LIST 0])
  | T_lock c tk r =>
    match tmtx g tk with
    | None => Some (set_tmtx g tk (Some t), goto (F_call (BQ c tk r)), [E K_LOCK (O_TASK tk) 0])
    | Some _ => None
    end
  (* a functor body: user_call(fid); x.write(apply_f fid (x.read())) *)
  | F_call b =>
    let tk := btask b in
    let k := calls g in
    let g1 := ghost_of (set_calls g (k + 1)) (fun h => h_exec h tk t (pay g)) in
    if existsb (Z.eqb k) (throws g)
    then Some (ghost_of (set_tfut g1 tk FExn) (fun h => h_fset h tk), goto (body_done g b true),
               [E K_CALL 0 (tfid g tk); E K_THROW 0 k])
    else Some (g1, goto (F_rdb b), [E K_CALL 0 (tfid g tk)])
  | F_rdb b => let '(g', es) := rd_begin g in Some (g', goto (F_rde b), es)
  | F_rde b => let '(g', es) := rd_end g in Some (g', goto (F_wrb b (pay g)), es)
  | F_wrb b v => let '(g', es) := wr_begin g in Some (g', goto (F_wre b v), es)
  | F_wre b v =>
    let tk := btask b in
    let nv := apply_f (tfid g tk) v in
    let '(g', es) := wr_end g nv in
    Some (ghost_of (set_tfut g' tk (FVal nv)) (fun h => h_done (h_fset h tk) tk), goto (body_done g b false), es)
  | T_unlock c tk r => Some (set_tmtx g tk None, goto (after_drain c r), [E K_UNLOCK (O_TASK tk) 0])
  | M_unlock tk thrown =>
    Some (ghost_of (set_owner g None) (fun h => h_ret h tk), goto Idle,
          [E K_UNLOCK O_MTX 0; if thrown then E K_CATCH 0 0 else ret 0])
  | P_unlock a => Some (set_owner g None, goto (S_acq a), [E K_UNLOCK O_MTX 0])
  (* shared_handle(&m_obj, m_mutex) / try_lock_shared_handle* *)
  | S_acq a =>
    match acq_shared t c g a with
    | None => None
    | Some (g', ok, es) =>
      match a with
      | AcLock h | AcTry h | AcFor h =>
        Some (g', Loc (prog l) Idle ((h, ok) :: hand l) (futs l), es ++ [ret (b2z ok)])
      | AcLoad => Some (g', goto L_rdb, es)
      end
    end
  (* load(): copy-construct newObj from the handle; return newObj; ~handle *)
  | L_rdb => let '(g', es) := rd_begin g in Some (g', goto L_rde, es)
  | L_rde => let '(g', es) := rd_end g in Some (g', goto (L_unlock (pay g)), es)
  | L_unlock v => let '(g', es) := rel_shared g in Some (g', goto Idle, es ++ [ret v])
  | H_rdb => let '(g', es) := rd_begin g in Some (g', goto H_rde, es)
  | H_rde => let '(g', es) := rd_end g in Some (g', goto Idle, es ++ [ret (pay g)])
  | H_rel h =>
    let '(g', es) := rel_shared g in Some (g', Loc (prog l) Idle (hremove h (hand l)) (futs l), es ++ [ret 0])
  end.

(* every step advances the ghost clock *)
Definition tstep (t c : nat) (g : glob) (l : loc) : option (glob * loc * list ev) :=
  match tstep0 t c g l with
  | Some (g', l', es) => Some (tick g', l', es)
  | None => None
  end.

Definition fin (l : loc) : bool := match at_ l, prog l with Idle, [] => true | _, _ => false end.

Definition init_ghost : ghost :=
  Ghost 0 [] (fun _ => O) (fun _ => O) (fun _ => None) (fun _ => None) (fun _ => None) (fun _ => O) (fun _ => None) (fun _ => O) (fun _ => 0).
Definition init (m : Z) (thr : list Z) (progs : list (list op)) : sys glob loc :=
  Sys (Glob m thr None 0 false None [] 0 0 false false 0 0 (fun _ => 0) (fun _ => false) (fun _ => None) (fun _ => FPending) init_ghost)
      (map (fun p => Loc p Idle [] []) progs).

(* ---------- entry point of the correspondence check ---------- *)
Fixpoint decode_prog (p : list (list Z)) : list op :=
  match p with
  | [] => []
  | z :: r => match decode_op z with Some o => o :: decode_prog r | None => decode_prog r end
  end.

Definition final (s : sys glob loc) : list line :=
  let g := gl s in
  [[-2; pay g; b2z (flag g); Z.of_nat (length (queue g)); b2z (free_s g); Z.of_nat (nsh g)]].

Definition run_case (cfg : list (Z)) (progs : list (list (list Z))) (sched : list (Z * Z)) : list line :=
  let '(m, thr) := match cfg with m :: r => (m, r) | [] => (0, []) end in
  run_case_gen glob loc tstep fin (init m thr (map decode_prog progs)) sched final.
