(* gmlc/concurrency/DelayedDestructor.hpp (DelayedDestructor<X> and DelayedDestructorSingleThread<X>)
   as an instruction-stack automaton.  Definitions only (no lemmas): extracted and run against the code.

   A thread's control state is a stack of pending instructions [stk].  Visible instructions are the
   operations the instrumented build logs (one scheduling step each); invisible ones are the C++ code
   that runs between two visible operations and are executed by [settle] in the same step.  Every
   function-local value (ecall, elementSize, cnt) is baked into the instructions generated when the
   function reaches the corresponding line, so nested (re-entrant) calls made by an element destructor
   or by the callback are simply pushed on top of the same thread's stack.
   The single-thread class is the same program with every mutex instruction invisible and always
   successful ([locked = false]).

   shared_ptr: [rc o] is the control block's use_count, updated exactly where the C++ code copies or
   releases a shared_ptr; the owners are the vector entries, the client slots, and the references held
   by pending instructions (ecall copies, the by-value parameter of addObjectsToBeDestroyed). *)
From Coq Require Import List Arith ZArith Bool.
Import ListNotations.
From GV Require Import Sched Events.
Local Open Scope Z_scope.

(* client operations *)
Inductive op :=
| Add (slot dm cm : nat)      (* make_shared; keep a reference in client slot [slot] (0 = none); add *)
| Drop (slot : nat)           (* release the client reference of the slot *)
| DestroyObjects
| DestroyObjectsDelay (d : Z)
| Size
| DestroyContainer            (* unique_ptr<DelayedDestructor>::reset() *)
| Readd (slot : nat).         (* addObjectsToBeDestroyed(copy of the slot's pointer): same object twice *)

Definition decode_op (z : list Z) : option op :=
  match z with
  | [1; s; dm; cm] => Some (Add (Z.to_nat s) (Z.to_nat dm) (Z.to_nat cm))
  | [2; s] => Some (Drop (Z.to_nat s))
  | [3] => Some DestroyObjects
  | [4; d] => Some (DestroyObjectsDelay d)
  | [5] => Some Size
  | [6] => Some DestroyContainer
  | [7; s] => Some (Readd (Z.to_nat s))
  | _ => None
  end.
Definition opcode (o : op) : Z :=
  match o with Add _ _ _ => 1 | Drop _ => 2 | DestroyObjects => 3 | DestroyObjectsDelay _ => 4
             | Size => 5 | DestroyContainer => 6 | Readd _ => 7 end.
Definition counted (o : op) : bool := match o with Drop _ => false | _ => true end.

(* where a release of references comes from: 0 ecall.clear(), 1 ecall destroyed by unwinding after a
   throwing callback, 2 client Drop, 3 destruction of the vector in ~DelayedDestructor *)
Definition SRC_CLEAR := 0%nat. Definition SRC_UNWIND := 1%nat.
Definition SRC_DROP := 2%nat.  Definition SRC_VECTOR := 3%nat.

Inductive instr :=
| IInvoke (o : op)
| IEndOp (cnt : bool)                      (* K_RET rv; the operation no longer uses the container *)
| ISetRv (v : Z) | ISetRvSize
| IFault (code : Z)
(* mutex *)
| IUnlock
| ISizeLock | IAddLock (o : nat)
(* destroyObjects() *)
| IDoTry
| ICb (o : nat) (rest ec : list nat) (esz : nat)   (* deleteFunc(element) for o; then rest; ec = ecall *)
| IClear (src : nat) (l : list nat)                (* release the references of l, front to back *)
| IDtor (src : nat) (o : nat)                      (* X::~X() of object o *)
| IRelock (esz : nat)
(* destroyObjects(delay) *)
| IDdTry (d : Z) | IDdLoop (d : Z) (cnt esz : nat) | IDdBody (d : Z) (cnt : nat)
| IDdTryA (d : Z) (cnt esz : nat) | IDdTryB (d : Z) (cnt esz : nat)
| ISleep | IYield
(* ~DelayedDestructor *)
| IDcGate | IDcLoop (ii : nat) | IDcAfter (ii : nat) | IDcVec.

Record config := Config { locked : bool; hascb : bool; throws : list nat }.
(* ghost logs: destructor calls, callback calls, pushes into the vector, objects selected by a scan *)
Record ghost := Ghost { dlog : list nat; cblog : list nat; addlog : list nat; reaped : list nat }.
Record glob := Glob {
  cf : config; mtx : option nat; vec : list nat;
  cstate : nat;                    (* 0 alive, 1 being destroyed, 2 destroyed *)
  slots : list (nat * nat);        (* client slot -> object *)
  rc : nat -> nat;                 (* use_count *)
  nobj : nat; ncb : nat;           (* objects created; callback invocations so far (throw plan index) *)
  busy : nat;                      (* container operations of the client programs not yet completed *)
  dmode : nat -> nat; cmode : nat -> nat;   (* what the destructor / callback of an object re-enters *)
  gh : ghost }.

Record loc := Loc { prog : list op; stk : list instr; rv : Z }.

Definition O_MTX := 1.

Definition set_mtx g m := Glob (cf g) m (vec g) (cstate g) (slots g) (rc g) (nobj g) (ncb g) (busy g) (dmode g) (cmode g) (gh g).
Definition set_vec g v := Glob (cf g) (mtx g) v (cstate g) (slots g) (rc g) (nobj g) (ncb g) (busy g) (dmode g) (cmode g) (gh g).
Definition set_cstate g c := Glob (cf g) (mtx g) (vec g) c (slots g) (rc g) (nobj g) (ncb g) (busy g) (dmode g) (cmode g) (gh g).
Definition set_slots g s := Glob (cf g) (mtx g) (vec g) (cstate g) s (rc g) (nobj g) (ncb g) (busy g) (dmode g) (cmode g) (gh g).
Definition set_rc g r := Glob (cf g) (mtx g) (vec g) (cstate g) (slots g) r (nobj g) (ncb g) (busy g) (dmode g) (cmode g) (gh g).
Definition set_ncb g n := Glob (cf g) (mtx g) (vec g) (cstate g) (slots g) (rc g) (nobj g) n (busy g) (dmode g) (cmode g) (gh g).
Definition set_busy g n := Glob (cf g) (mtx g) (vec g) (cstate g) (slots g) (rc g) (nobj g) (ncb g) n (dmode g) (cmode g) (gh g).
Definition set_gh g x := Glob (cf g) (mtx g) (vec g) (cstate g) (slots g) (rc g) (nobj g) (ncb g) (busy g) (dmode g) (cmode g) x.

Definition fupd (f : nat -> nat) (o v : nat) : nat -> nat := fun x => if Nat.eqb x o then v else f x.
Definition inc_rc g o := set_rc g (fupd (rc g) o (S (rc g o))).
Definition dec_rc g o := set_rc g (fupd (rc g) o (pred (rc g o))).

(* a new object (make_shared): id nobj+1, use_count 1 *)
Definition new_obj g (dm cm : nat) : glob * nat :=
  let o := S (nobj g) in
  (Glob (cf g) (mtx g) (vec g) (cstate g) (slots g) (fupd (rc g) o 1%nat) o (ncb g) (busy g)
        (fupd (dmode g) o dm) (fupd (cmode g) o cm) (gh g), o).

Definition log_d g o := set_gh g (Ghost (o :: dlog (gh g)) (cblog (gh g)) (addlog (gh g)) (reaped (gh g))).
Definition log_cb g o := set_gh g (Ghost (dlog (gh g)) (o :: cblog (gh g)) (addlog (gh g)) (reaped (gh g))).
Definition log_add g o := set_gh g (Ghost (dlog (gh g)) (cblog (gh g)) (o :: addlog (gh g)) (reaped (gh g))).
Definition log_reaped g l := set_gh g (Ghost (dlog (gh g)) (cblog (gh g)) (addlog (gh g)) (l ++ reaped (gh g))).

Fixpoint slot_get (s : nat) (l : list (nat * nat)) : option nat :=
  match l with [] => None | (k, o) :: r => if Nat.eqb k s then Some o else slot_get s r end.
Fixpoint slot_del (s : nat) (l : list (nat * nat)) : list (nat * nat) :=
  match l with [] => [] | (k, o) :: r => if Nat.eqb k s then r else (k, o) :: slot_del s r end.

Definition zn (n : nat) : Z := Z.of_nat n.
Definition vsize g : Z := zn (length (vec g)).
