(* gmlc/concurrency/DelayedDestructor.hpp (DelayedDestructor<X> and DelayedDestructorSingleThread<X>)
   as an instruction-stack automaton.  Definitions only (no lemmas): extracted and run against the code.

   A thread's control state is a stack of pending instructions [stk].  Visible instructions are the
   operations the instrumented build logs (one scheduling step each); invisible ones are the C++ code
   that runs between two visible operations and are executed by [settle] in the same step.  Every
   function-local value (ecall, elementSize, cnt) is baked into the instructions generated when the
   function reaches the corresponding line, so nested (re-entrant) calls made by an element destructor
   or by the callback are simply pushed on top of the same thread's stack.
   The single-thread class is the same program with every mutex instruction invisible and always
   successful ([locked = false]).

   shared_ptr: [rc o] is the control block's use_count, updated exactly where the C++ code copies or
   releases a shared_ptr; the owners are the vector entries, the client slots, and the references held
   by pending instructions (ecall copies, the by-value parameter of addObjectsToBeDestroyed). *)
From Coq Require Import List Arith ZArith Bool.
Import ListNotations.
From GV Require Import Sched Events.
Local Open Scope Z_scope.

(* client operations *)
Inductive op :=
| Add (slot dm cm : nat)      (* make_shared; keep a reference in client slot [slot] (0 = none); add *)
| Drop (slot : nat)           (* release the client reference of the slot *)
| DestroyObjects
| DestroyObjectsDelay (d : Z)
| Size
| DestroyContainer            (* unique_ptr<DelayedDestructor>::reset() *)
| Readd (slot : nat).         (* addObjectsToBeDestroyed(copy of the slot's pointer): same object twice *)

Definition decode_op (z : list Z) : option op :=
  match z with
  | [1; s; dm; cm] => Some (Add (Z.to_nat s) (Z.to_nat dm) (Z.to_nat cm))
  | [2; s] => Some (Drop (Z.to_nat s))
  | [3] => Some DestroyObjects
  | [4; d] => Some (DestroyObjectsDelay d)
  | [5] => Some Size
  | [6] => Some DestroyContainer
  | [7; s] => Some (Readd (Z.to_nat s))
  | _ => None
  end.
Definition opcode (o : op) : Z :=
  match o with Add _ _ _ => 1 | Drop _ => 2 | DestroyObjects => 3 | DestroyObjectsDelay _ => 4
             | Size => 5 | DestroyContainer => 6 | Readd _ => 7 end.
Definition counted (o : op) : bool := match o with Drop _ => false | _ => true end.

(* where a release of references comes from: 0 ecall.clear(), 1 ecall destroyed by unwinding after a
   throwing callback, 2 client Drop, 3 destruction of the vector in ~DelayedDestructor *)
Definition SRC_CLEAR := 0%nat. Definition SRC_UNWIND := 1%nat.
Definition SRC_DROP := 2%nat.  Definition SRC_VECTOR := 3%nat.

Inductive instr :=
| IInvoke (o : op)
| IEndOp (cd : bool)                      (* K_RET rv; the operation no longer uses the container *)
| ISetRv (v : Z) | ISetRvSize
| IFault (code : Z)
(* mutex *)
| IUnlock
| ISizeLock | IAddLock (o : nat)
(* destroyObjects() *)
| IDoTry
| ICb (o : nat) (rest ec : list nat) (esz : nat)   (* deleteFunc(element) for o; then rest; ec = ecall *)
| IClear (src : nat) (l : list nat)                (* release the references of l, front to back *)
| IDtor (src : nat) (o : nat)                      (* X::~X() of object o *)
| IRelock (esz : nat)
(* destroyObjects(delay) *)
| IDdTry (d : Z) | IDdLoop (d : Z) (k esz : nat) | IDdBody (d : Z) (k : nat)
| IDdTryA (d : Z) (k esz : nat) | IDdTryB (d : Z) (k esz : nat)
| ISleep | IYield
(* ~DelayedDestructor *)
| IDcGate | IDcLoop (ii : nat) | IDcAfter (ii : nat) | IDcVec.

Record config := Config { locked : bool; hascb : bool; throws : list nat }.
(* ghost logs: destructor calls, callback calls, pushes into the vector, objects selected by a scan,
   references released by the container (ecall.clear / unwinding / vector destruction) *)
Record ghost := Ghost { dlog : list nat; cblog : list nat; addlog : list nat; reaped : list nat; rlog : list nat }.
Record glob := Glob {
  cf : config; mtx : option nat; vec : list nat;
  cstate : nat;                    (* 0 alive, 1 being destroyed, 2 destroyed *)
  slots : list (nat * nat);        (* client slot -> object *)
  rc : nat -> nat;                 (* use_count *)
  nobj : nat; ncb : nat;           (* objects created; callback invocations so far (throw plan index) *)
  busy : nat;                      (* container operations of the client programs not yet completed *)
  dmode : nat -> nat; cmode : nat -> nat;   (* what the destructor / callback of an object re-enters *)
  gh : ghost }.

Record loc := Loc { prog : list op; stk : list instr; rv : Z }.

Definition O_MTX := 1.

Definition set_mtx g m := Glob (cf g) m (vec g) (cstate g) (slots g) (rc g) (nobj g) (ncb g) (busy g) (dmode g) (cmode g) (gh g).
Definition set_vec g v := Glob (cf g) (mtx g) v (cstate g) (slots g) (rc g) (nobj g) (ncb g) (busy g) (dmode g) (cmode g) (gh g).
Definition set_cstate g c := Glob (cf g) (mtx g) (vec g) c (slots g) (rc g) (nobj g) (ncb g) (busy g) (dmode g) (cmode g) (gh g).
Definition set_slots g s := Glob (cf g) (mtx g) (vec g) (cstate g) s (rc g) (nobj g) (ncb g) (busy g) (dmode g) (cmode g) (gh g).
Definition set_rc g r := Glob (cf g) (mtx g) (vec g) (cstate g) (slots g) r (nobj g) (ncb g) (busy g) (dmode g) (cmode g) (gh g).
Definition set_ncb g n := Glob (cf g) (mtx g) (vec g) (cstate g) (slots g) (rc g) (nobj g) n (busy g) (dmode g) (cmode g) (gh g).
Definition set_busy g n := Glob (cf g) (mtx g) (vec g) (cstate g) (slots g) (rc g) (nobj g) (ncb g) n (dmode g) (cmode g) (gh g).
Definition set_gh g x := Glob (cf g) (mtx g) (vec g) (cstate g) (slots g) (rc g) (nobj g) (ncb g) (busy g) (dmode g) (cmode g) x.

Definition fupd (f : nat -> nat) (o v : nat) : nat -> nat := fun x => if Nat.eqb x o then v else f x.
Definition inc_rc g o := set_rc g (fupd (rc g) o (S (rc g o))).
Definition dec_rc g o := set_rc g (fupd (rc g) o (pred (rc g o))).

(* a new object (make_shared): id nobj+1, use_count 1 *)
Definition new_obj g (dm cm : nat) : glob * nat :=
  let o := S (nobj g) in
  (Glob (cf g) (mtx g) (vec g) (cstate g) (slots g) (fupd (rc g) o 1%nat) o (ncb g) (busy g)
        (fupd (dmode g) o dm) (fupd (cmode g) o cm) (gh g), o).

Definition log_d g o := set_gh g (Ghost (o :: dlog (gh g)) (cblog (gh g)) (addlog (gh g)) (reaped (gh g)) (rlog (gh g))).
Definition log_cb g o := set_gh g (Ghost (dlog (gh g)) (o :: cblog (gh g)) (addlog (gh g)) (reaped (gh g)) (rlog (gh g))).
Definition log_add g o := set_gh g (Ghost (dlog (gh g)) (cblog (gh g)) (o :: addlog (gh g)) (reaped (gh g)) (rlog (gh g))).
Definition log_reaped g l := set_gh g (Ghost (dlog (gh g)) (cblog (gh g)) (addlog (gh g)) (l ++ reaped (gh g)) (rlog (gh g))).
Definition log_rel g o := set_gh g (Ghost (dlog (gh g)) (cblog (gh g)) (addlog (gh g)) (reaped (gh g)) (o :: rlog (gh g))).

Fixpoint slot_get (s : nat) (l : list (nat * nat)) : option nat :=
  match l with [] => None | (k, o) :: r => if Nat.eqb k s then Some o else slot_get s r end.
Fixpoint slot_del (s : nat) (l : list (nat * nat)) : list (nat * nat) :=
  match l with [] => [] | (k, o) :: r => if Nat.eqb k s then r else (k, o) :: slot_del s r end.

Definition zn (n : nat) : Z := Z.of_nat n.
Definition vsize g : Z := zn (length (vec g)).

(* ---------- the body of destroyObjects() between try_lock_for and unlock ---------- *)
(* for (auto& element : v) if (element.use_count() == 1) { ecall.push_back(element); ... } *)
Fixpoint scan (v : list nat) (r : nat -> nat) : list nat * (nat -> nat) :=
  match v with
  | [] => ([], r)
  | o :: v' => if Nat.eqb (r o) 1 then let (ec, r') := scan v' (fupd r o (S (r o))) in (o :: ec, r')
               else scan v' r
  end.
Definition memn (o : nat) (l : list nat) : bool := existsb (Nat.eqb o) l.
(* remove_if(use_count()==2 && pointer in epointers) + erase: the removed entries release their reference *)
Fixpoint sweep (v ep : list nat) (r : nat -> nat) : list nat * (nat -> nat) :=
  match v with
  | [] => ([], r)
  | o :: v' => if Nat.eqb (r o) 2 && memn o ep then sweep v' ep (fupd r o (pred (r o)))
               else let (k, r') := sweep v' ep r in (o :: k, r')
  end.

(* ---------- mutex primitives (invisible and always successful in the single-thread class) ---------- *)
Definition try_acq (t c : nat) (g : glob) : option (bool * glob * list ev) :=
  if locked (cf g) then
    match mtx g with
    | None => Some (true, set_mtx g (Some t), [E K_TRYLOCK_FOR O_MTX 1])
    | Some _ => if Nat.eqb c 2 then Some (false, g, [E K_TRYLOCK_FOR O_MTX 0]) else None
    end
  else Some (true, g, []).
Definition lock_acq (t : nat) (g : glob) : option (glob * list ev) :=
  if locked (cf g) then
    match mtx g with None => Some (set_mtx g (Some t), [E K_LOCK O_MTX 0]) | Some _ => None end
  else Some (g, []).
Definition unlock (g : glob) : glob * list ev :=
  if locked (cf g) then (set_mtx g None, [E K_UNLOCK O_MTX 0]) else (g, []).

Definition dcount (d : Z) : nat := if d <? 100 then 1%nat else Z.to_nat (d / 50).
Definition sleepy (d : Z) : bool := 4 <? d.

Definition fid_dtor (o : nat) : Z := 2 * zn o.
Definition fid_cb (o : nat) : Z := 2 * zn o + 1.

(* what user code (destructor / callback) calls on the container it belongs to: while the container is alive
   and also during the body of ~DelayedDestructor (its sweeps), but not once the vector member is being
   destroyed (cstate 2; the harness detects that phase).  Modes: 1 size(), 2 add(new object), 3 destroyObjects(),
   4 destroyObjects(150ms), m >= 5: add(new object whose destructor re-enters with mode 2 (m = 5) or m-1):
   a chain parent -> child -> grandchild ... handed to the same container *)
Definition child_mode (m : nat) : nat := if Nat.eqb m 5 then 2%nat else pred m.
Definition reenter (g : glob) (m : nat) : glob * list instr :=
  if Nat.eqb (cstate g) 2 then (g, []) else
  match m with
  | 0%nat => (g, [])
  | 1%nat => (g, [ISizeLock])
  | 2%nat => let (g', o) := new_obj g 0 0 in (g', [IAddLock o])
  | 3%nat => (g, [IDoTry])
  | 4%nat => (g, [IDdTry 150])
  | _ => let (g', o) := new_obj g (child_mode m) 0 in (g', [IAddLock o])
  end.

(* after lock.unlock(): the callbacks, then ecall.clear(), then the second try_lock_for *)
Definition cbs_cont (rest ec : list nat) (esz : nat) : list instr :=
  match rest with
  | [] => [IClear SRC_CLEAR ec; IRelock esz]
  | o :: r => [ICb o r ec esz]
  end.

Definition invoke (g : glob) (o : op) : glob * list instr :=
  let dead := negb (Nat.eqb (cstate g) 0) in
  let fault := (g, [IFault 1; ISetRv 0; IEndOp true]) in
  match o with
  | Add s dm cm =>
    if dead then fault else
    let (g1, x) := new_obj g dm cm in
    let keep := negb (Nat.eqb s 0) && match slot_get s (slots g) with None => true | Some _ => false end in
    let g2 := if keep then set_slots (inc_rc g1 x) ((s, x) :: slots g1) else g1 in
    (g2, [IAddLock x; ISetRv (zn x); IEndOp true])
  | Drop s =>
    match slot_get s (slots g) with
    | Some x => (set_slots g (slot_del s (slots g)), [IClear SRC_DROP [x]; ISetRv 0; IEndOp false])
    | None => (g, [ISetRv 0; IEndOp false])
    end
  | DestroyObjects => if dead then fault else (g, [IDoTry; IEndOp true])
  | DestroyObjectsDelay d => if dead then fault else (g, [IDdTry d; IEndOp true])
  | Size => if dead then fault else (g, [ISizeLock; IEndOp true])
  | DestroyContainer => if dead then fault else (g, [IDcGate; IEndOp true])
  | Readd s =>
    if dead then fault else
    match slot_get s (slots g) with
    | Some x => (inc_rc g x, [IAddLock x; ISetRv 0; IEndOp true])
    | None => (g, [ISetRv 0; IEndOp true])
    end
  end.

Definition visible (g : glob) (i : instr) : bool :=
  match i with
  | IInvoke _ | ICb _ _ _ _ | IDtor _ _ | ISleep | IYield | IDcGate => true
  | IUnlock | ISizeLock | IAddLock _ | IDoTry | IRelock _ | IDdTry _ | IDdTryA _ _ _ | IDdTryB _ _ _ => locked (cf g)
  | _ => false
  end.

(* ---------- one instruction ---------- *)
Definition exec (t c : nat) (g : glob) (r : Z) (i : instr) : option (glob * Z * list instr * list ev) :=
  match i with
  | IInvoke o => let (g', push) := invoke g o in Some (g', r, push, [E K_INVOKE 0 (opcode o)])
  | IEndOp cnt => Some (if cnt then set_busy g (pred (busy g)) else g, r, [], [E K_RET 0 r])
  | ISetRv v => Some (g, v, [], [])
  | ISetRvSize => Some (g, vsize g, [], [])
  | IFault code => Some (g, r, [], [E K_FAULT 0 code])
  | IUnlock => let (g', es) := unlock g in Some (g', r, [], es)
  (* size(): lock_guard; return size *)
  | ISizeLock =>
    match lock_acq t g with None => None | Some (g', es) => Some (g', vsize g, [IUnlock], es) end
  (* addObjectsToBeDestroyed(obj): lock_guard; push_back(std::move(obj)) *)
  | IAddLock o =>
    (* push_back into a destroyed vector is undefined behaviour (never reached: the gate of IDcGate) *)
    if Nat.eqb (cstate g) 2 then Some (g, r, [IClear SRC_DROP [o]], [E K_FAULT 0 2]) else
    match lock_acq t g with
    | None => None
    | Some (g', es) => Some (log_add (set_vec g' (vec g' ++ [o])) o, r, [IUnlock], es)
    end
  (* destroyObjects(): try_lock_for; size; scan; remove_if/erase; [unlock; callbacks; clear; relock] *)
  | IDoTry =>
    match try_acq t c g with
    | None => None
    | Some (false, g', es) => Some (g', -1, [], es)
    | Some (true, g', es) =>
      let (ec, r1) := scan (vec g') (rc g') in
      match ec with
      | [] => Some (g', vsize g', [IUnlock], es)
      | _ :: _ =>
        let (v2, r2) := sweep (vec g') ec r1 in
        let g2 := log_reaped (set_rc (set_vec g' v2) r2) ec in
        let esz := length v2 in
        Some (g2, r, IUnlock :: (if hascb (cf g) then cbs_cont ec ec esz else [IClear SRC_CLEAR ec; IRelock esz]), es)
      end
    end
  (* deleteFunc(element): the harness callback calls vs::user_call (may throw), then re-enters *)
  | ICb o rest ec esz =>
    let k := ncb g in
    let g1 := log_cb (set_ncb g (S k)) o in
    if memn k (throws (cf g)) then
      (* unwinding destroys ecall; catch (...) {}; return elementSize; *)
      Some (g1, r, [IClear SRC_UNWIND ec; ISetRv (zn esz)], [E K_CALL 0 (fid_cb o); E K_THROW 0 (zn k)])
    else
      let (g2, push) := reenter g1 (cmode g o) in
      Some (g2, r, push ++ cbs_cont rest ec esz, [E K_CALL 0 (fid_cb o)])
  | IClear src l =>
    match l with
    | [] => Some (g, r, [], [])
    | o :: l' =>
      let g' := if Nat.eqb src SRC_DROP then dec_rc g o else log_rel (dec_rc g o) o in
      Some (g', r, (if Nat.eqb (rc g o) 1 then [IDtor src o] else []) ++ [IClear src l'], [])
    end
  | IDtor src o =>
    let g1 := log_d g o in
    let (g2, push) := if Nat.ltb src 2 then reenter g1 (dmode g o) else (g1, []) in
    Some (g2, r, push, [E K_CALL 0 (fid_dtor o)])
  | IRelock esz =>
    match try_acq t c g with
    | None => None
    | Some (false, g', es) => Some (g', zn esz, [], es)
    | Some (true, g', es) => Some (g', vsize g', [IUnlock], es)
    end
  (* destroyObjects(delay) *)
  | IDdTry d =>
    match try_acq t c g with
    | None => None
    | Some (false, g', es) => Some (g', -1, [], es)
    | Some (true, g', es) => Some (g', r, [IDdLoop d 0 (length (vec g'))], es)
    end
  | IDdLoop d cnt esz =>   (* loop head, lock held *)
    if Nat.ltb 0 esz && Nat.ltb cnt (dcount d) then
      if Nat.ltb 0 cnt && sleepy d then Some (g, r, [IUnlock; ISleep; IDdTryA d cnt esz], [])
      else Some (g, r, [IDdBody d cnt], [])
    else Some (g, r, [ISetRvSize; IUnlock], [])
  | IDdTryA d cnt esz =>
    match try_acq t c g with
    | None => None
    | Some (false, g', es) => Some (g', zn esz, [], es)
    | Some (true, g', es) => Some (g', r, [IDdBody d cnt], es)
    end
  | IDdBody d cnt =>       (* ++cnt; elementSize = size; if (elementSize > 0) { unlock; destroyObjects(); try_lock_for } *)
    let esz := length (vec g) in
    if Nat.ltb 0 esz then Some (g, r, [IUnlock; IDoTry; IDdTryB d (S cnt) esz], [])
    else Some (g, r, [IDdLoop d (S cnt) 0], [])
  | IDdTryB d cnt esz =>
    match try_acq t c g with
    | None => None
    | Some (false, g', es) => Some (g', zn esz, [], es)
    | Some (true, g', es) => Some (g', r, [IDdLoop d cnt esz], es)
    end
  | ISleep => Some (g, r, [], [E K_SLEEP 0 0])
  | IYield => Some (g, r, [], [E K_YIELD 0 0])
  (* ~DelayedDestructor: the harness gate waits until no other container operation is pending *)
  | IDcGate =>
    if Nat.eqb (busy g) 1 then Some (set_cstate g 1, r, [IDcLoop 0; ISetRv 0], [E K_DESTROY 0 0]) else None
  | IDcLoop ii =>
    match vec g with
    | [] => Some (g, r, [IDcVec], [])
    | _ :: _ => Some (g, r, [IDoTry; IDcAfter (S ii)], [])
    end
  | IDcAfter ii =>
    match vec g with
    | [] => Some (g, r, [IDcVec], [])
    | _ :: _ =>
      if Nat.ltb 4 ii then Some (g, r, [IDoTry; IDcVec], [])
      else if Nat.even ii then Some (g, r, [ISleep; IDcLoop ii], [])
      else Some (g, r, [IYield; IDcLoop ii], [])
    end
  | IDcVec => Some (set_cstate (set_vec g []) 2, r, [IClear SRC_VECTOR (vec g)], [])
  end.

(* ---------- a scheduling step: one visible instruction, then the invisible code that follows it ---------- *)
Definition settle_fuel : nat := 400.
Fixpoint settle (fuel t : nat) (g : glob) (r : Z) (st : list instr) (evs : list ev)
  : glob * Z * list instr * list ev :=
  match fuel with
  | O => (g, r, st, evs)
  | S f =>
    match st with
    | [] => (g, r, st, evs)
    | i :: st' =>
      if visible g i then (g, r, st, evs) else
      match exec t 0 g r i with
      | None => (g, r, st, evs)
      | Some (g', r', push, es) => settle f t g' r' (push ++ st') (evs ++ es)
      end
    end
  end.

Definition tstep (t c : nat) (g : glob) (l : loc) : option (glob * loc * list ev) :=
  let fire (p : list op) (i : instr) (st : list instr) :=
    if visible g i then
      match exec t c g (rv l) i with
      | None => None
      | Some (g', r', push, es) =>
        let '(g2, r2, st2, es2) := settle settle_fuel t g' r' (push ++ st) es in Some (g2, Loc p st2 r2, es2)
      end
    else
      (* only after the invisible-code budget ran out (never observed): continue silently *)
      let '(g2, r2, st2, es2) := settle settle_fuel t g (rv l) (i :: st) [] in Some (g2, Loc p st2 r2, es2) in
  match stk l with
  | i :: st => fire (prog l) i st
  | [] => match prog l with [] => None | o :: p => fire p (IInvoke o) [] end
  end.

Definition fin (l : loc) : bool := match stk l, prog l with [], [] => true | _, _ => false end.

Definition init (c : config) (progs : list (list op)) : sys glob loc :=
  Sys (Glob c None [] 0 [] (fun _ => 0%nat) 0 0
            (list_sum (map (fun p => length (filter counted p)) progs))
            (fun _ => 0%nat) (fun _ => 0%nat) (Ghost [] [] [] [] []))
      (map (fun p => Loc p [] 0) progs).

(* ---------- entry point of the correspondence check ---------- *)
Fixpoint decode_prog (p : list (list Z)) : list op :=
  match p with
  | [] => []
  | z :: r => match decode_op z with Some o => o :: decode_prog r | None => decode_prog r end
  end.
Definition decode_cfg (cfg : list Z) : config :=
  match cfg with
  | lk :: cb :: n :: r => Config (negb (lk =? 0)) (negb (cb =? 0)) (map Z.to_nat (firstn (Z.to_nat n) r))
  | _ => Config true false []
  end.

Definition final (s : sys glob loc) : list line :=
  let g := gl s in
  [-2; zn (nobj g); (if Nat.eqb (cstate g) 0 then vsize g else 0); zn (Nat.min (cstate g) 1); zn (ncb g)] ::
  map (fun o => [-2; zn o; zn (rc g o); zn (count_occ Nat.eq_dec (dlog (gh g)) o); zn (count_occ Nat.eq_dec (cblog (gh g)) o)])
      (seq 1 (nobj g)).

Definition run_case (cfg : list Z) (progs : list (list (list Z))) (sched : list (Z * Z)) : list line :=
  run_case_gen glob loc tstep fin (init (decode_cfg cfg) (map decode_prog progs)) sched final.
