(* gmlc/concurrency/SearchableObjectHolder.hpp as a pc automaton (property C17).
   Definitions only (no lemmas): this file is extracted and run against the code.

   Visible operations of the C++ code: lock / unlock of `mapLock`, and every call of a
   user predicate (vs::user_call: a scheduling point inside the critical section and a
   throw point).  std::map, std::shared_ptr and std::function are the real ones.

   objectMap / typeMap : association lists kept in strictly increasing key order (the
     iteration order of std::map; predicate search / removal take the first match).
   pointers            : (object id, value).  The value of a payload object is immutable,
     so it is carried with the pointer; the *liveness* of the object is not: every
     access goes through the heap of reference counts and is a Fault on a dead cell.
   heap                : list of shared_ptr use-counts, cell i holds object id i+1;
     count 0 = the object has been destroyed.
   shared_ptr instances: the instrumented build (harness/soh_extra.hpp) makes every copy of a
     heap-resident shared_ptr instance a read window on the source and every destruction of a
     non-empty one a write window (two visible operations each).  The only such instances are
     the values of objectMap; imap gives the instance number of each node.  The windows of a
     method are played, inside the critical section, by the pc Win; the use-count effect of the
     whole method body is applied in the step that computes the body's result (the owner's
     count is off by the copies / destructions still to be played until its last window closes;
     no other thread can tell, and the safety invariant counts references, not instants).
   unfixed = true selects the order of the original header in removeObject(predicate):
     erase the objectMap node, then read its key for the typeMap lookup. *)
From Coq Require Import List Arith ZArith Bool.
Import ListNotations.
From GV Require Import Sched Events.
Local Open Scope Z_scope.

Definition ptr := (nat * Z)%type.
Definition pid (p : ptr) : nat := fst p.
Definition pval (p : ptr) : Z := snd p.

(* ---------- sorted association lists (std::map) ---------- *)
Fixpoint lookup {A} (k : Z) (m : list (Z * A)) : option A :=
  match m with
  | [] => None
  | (k', v) :: r => if k' =? k then Some v else lookup k r
  end.
(* emplace: insert in key order, an existing key is left alone *)
Fixpoint ins {A} (k : Z) (v : A) (m : list (Z * A)) : list (Z * A) :=
  match m with
  | [] => [(k, v)]
  | (k', v') :: r => if k <? k' then (k, v) :: m else if k =? k' then m else (k', v') :: ins k v r
  end.
(* operator[] followed by assignment: insert or replace *)
Fixpoint put {A} (k : Z) (v : A) (m : list (Z * A)) : list (Z * A) :=
  match m with
  | [] => [(k, v)]
  | (k', v') :: r => if k <? k' then (k, v) :: m else if k =? k' then (k, v) :: r else (k', v') :: put k v r
  end.
Fixpoint del {A} (k : Z) (m : list (Z * A)) : list (Z * A) :=
  match m with
  | [] => []
  | (k', v) :: r => if k' =? k then r else (k', v) :: del k r
  end.
Definition first_key {A} (m : list (Z * A)) : option Z := match m with [] => None | (k, _) :: _ => Some k end.
(* ++it of the iterator that refers to the node with key k *)
Fixpoint next_key {A} (k : Z) (m : list (Z * A)) : option Z :=
  match m with
  | [] => None
  | (k', _) :: r => if k' =? k then first_key r else next_key k r
  end.
Definition memZ (x : Z) (l : list Z) : bool := existsb (Z.eqb x) l.
Definition has_tag (ty : Z) (k : Z) (tm : list (Z * list Z)) : bool :=
  match lookup k tm with Some ts => memZ ty ts | None => false end.
Definition b2z (b : bool) : Z := if b then 1 else 0.

(* ---------- the client API ---------- *)
Inductive sop :=                       (* one critical section without user code *)
| Add (n v : Z) | AddT (n v ty : Z) | AddType (n ty : Z) | RemName (n : Z) | Copy (a b : Z)
| FindName (n : Z) (s : bool) | CheckType (n ty : Z) | GetObjects | Empty.
Inductive pop :=                       (* one critical section calling the predicate "value == k" *)
| RemPred (k : Z) | FindPred (k : Z) (s : bool) | FindPredT (k ty : Z) (s : bool).
(* client-side use of a returned shared_ptr; AddFrom n s ty: addObject(n, slot s[, ty]) - the client adds an
   object it already holds (possibly one the map already stores); with an empty slot it does nothing *)
Inductive lop := Drop (s : bool) | ReadObj (s : bool) | AddFrom (n : Z) (s : bool) (ty : option Z).
Inductive op := OS (o : sop) | OP (o : pop) | OL (o : lop).

Definition opcode (o : op) : Z :=
  match o with
  | OS (Add _ _) => 0 | OS (AddT _ _ _) => 1 | OS (AddType _ _) => 2 | OS (RemName _) => 3
  | OP (RemPred _) => 4 | OS (Copy _ _) => 5 | OS (FindName _ _) => 6 | OP (FindPred _ _) => 7
  | OP (FindPredT _ _ _) => 8 | OS (CheckType _ _) => 9 | OS GetObjects => 10 | OS Empty => 11
  | OL (Drop _) => 12 | OL (ReadObj _) => 13
  | OL (AddFrom _ _ None) => 14 | OL (AddFrom _ _ (Some _)) => 15
  end.
(* every client thread has two slots for returned pointers; the driver uses (s & 1) *)
Definition sl (z : Z) : bool := Z.odd z.
Definition decode_op (z : list Z) : option op :=
  match z with
  | [0; n; v] => Some (OS (Add n v))
  | [1; n; v; ty] => Some (OS (AddT n v ty))
  | [2; n; ty] => Some (OS (AddType n ty))
  | [3; n] => Some (OS (RemName n))
  | [4; k] => Some (OP (RemPred k))
  | [5; a; b] => Some (OS (Copy a b))
  | [6; n; s] => Some (OS (FindName n (sl s)))
  | [7; k; s] => Some (OP (FindPred k (sl s)))
  | [8; k; ty; s] => Some (OP (FindPredT k ty (sl s)))
  | [9; n; ty] => Some (OS (CheckType n ty))
  | [10] => Some (OS GetObjects)
  | [11] => Some (OS Empty)
  | [12; s] => Some (OL (Drop (sl s)))
  | [13; s] => Some (OL (ReadObj (sl s)))
  | [14; n; s] => Some (OL (AddFrom n (sl s) None))
  | [15; n; s; ty] => Some (OL (AddFrom n (sl s) (Some ty)))
  | _ => None
  end.

(* ---------- the sequential map: what a method body does when run alone ----------
   mstate = (objectMap, typeMap, number of predicate calls made so far); the last
   component only matters for the throw plan.  Result None = the predicate threw. *)
Definition omapT := list (Z * ptr).
Definition tmapT := list (Z * list Z).
Record mstate := MS { m_o : omapT; m_t : tmapT; m_calls : Z }.

Definition enc_objs (om : omapT) : Z := fold_left (fun acc kp => acc * 32 + Z.of_nat (pid (snd kp))) om 0.

(* effect of a simple method on the two maps, its result, and the pointer it
   touched (the found / removed / copied object), for the reference counts *)
Definition apply_sop (o : sop) (arg : ptr) (om : omapT) (tm : tmapT) : omapT * tmapT * Z * option ptr :=
  match o with
  | Add n _ =>          (* tags left for this name by addType on an absent object do not belong to the new one *)
    match lookup n om with
    | Some _ => (om, tm, 0, None)
    | None => (ins n arg om, del n tm, 1, None)
    end
  | AddT n _ ty =>
    match lookup n om with
    | Some _ => (om, tm, 0, None)
    | None => (ins n arg om, put n [ty] tm, 1, None)
    end
  | AddType n ty =>
    (om, put n (match lookup n tm with Some ts => ts ++ [ty] | None => [ty] end) tm, 0, None)
  | RemName n =>
    match lookup n om with
    | Some p => (del n om, del n tm, 1, Some p)
    | None => (om, tm, 0, None)
    end
  | Copy a b =>
    match lookup a om with
    | Some p =>
      match lookup b om with
      | Some _ => (om, tm, 0, None)
      | None => (ins b p om, match lookup a tm with Some ts => put b ts tm | None => del b tm end, 1, Some p)
      end
    | None => (om, tm, 0, None)
    end
  | FindName n _ =>
    match lookup n om with
    | Some p => (om, tm, Z.of_nat (pid p), Some p)
    | None => (om, tm, 0, None)
    end
  | CheckType n ty => (om, tm, b2z (has_tag ty n tm), None)
  | GetObjects => (om, tm, enc_objs om, None)
  | Empty => (om, tm, b2z (match om with [] => true | _ => false end), None)
  end.

(* the same before repair c9feeb7 (typeMap.emplace never replaced an entry left by addType on an absent
   name, and a plain addObject did not clear it): kept only for soh_orphan_leak_refuted.
   effect of a simple method on the two maps, its result, and the pointer it
   touched (the found / removed / copied object), for the reference counts *)
Definition apply_sop_leaky (o : sop) (arg : ptr) (om : omapT) (tm : tmapT) : omapT * tmapT * Z * option ptr :=
  match o with
  | Add n _ =>
    match lookup n om with
    | Some _ => (om, tm, 0, None)
    | None => (ins n arg om, tm, 1, None)
    end
  | AddT n _ ty =>
    match lookup n om with
    | Some _ => (om, tm, 0, None)
    | None => (ins n arg om, ins n [ty] tm, 1, None)
    end
  | AddType n ty =>
    (om, put n (match lookup n tm with Some ts => ts ++ [ty] | None => [ty] end) tm, 0, None)
  | RemName n =>
    match lookup n om with
    | Some p => (del n om, del n tm, 1, Some p)
    | None => (om, tm, 0, None)
    end
  | Copy a b =>
    match lookup a om with
    | Some p =>
      match lookup b om with
      | Some _ => (om, tm, 0, None)
      | None => (ins b p om, match lookup a tm with Some ts => ins b ts tm | None => tm end, 1, Some p)
      end
    | None => (om, tm, 0, None)
    end
  | FindName n _ =>
    match lookup n om with
    | Some p => (om, tm, Z.of_nat (pid p), Some p)
    | None => (om, tm, 0, None)
    end
  | CheckType n ty => (om, tm, b2z (has_tag ty n tm), None)
  | GetObjects => (om, tm, enc_objs om, None)
  | Empty => (om, tm, b2z (match om with [] => true | _ => false end), None)
  end.

Definition apply_sop_gen (leaky : bool) := if leaky then apply_sop_leaky else apply_sop.
(* a sequence of simple methods run alone, from the empty maps *)
Fixpoint seq_run (leaky : bool) (os : list (sop * ptr)) (om : omapT) (tm : tmapT) : omapT * tmapT :=
  match os with
  | [] => (om, tm)
  | (o, a) :: r => let '(om', tm', _, _) := apply_sop_gen leaky o a om tm in seq_run leaky r om' tm'
  end.

Definition ptest (o : pop) (tm : tmapT) (k : Z) (p : ptr) : bool :=
  match o with
  | RemPred kk => pval p =? kk
  | FindPred kk _ => pval p =? kk
  | FindPredT kk ty _ => (pval p =? kk) && has_tag ty k tm
  end.
(* effect of a predicate method once the matching entry (k,p) is known *)
Definition pfound (o : pop) (om : omapT) (tm : tmapT) (k : Z) (p : ptr) : omapT * tmapT * Z :=
  match o with
  | RemPred _ => (del k om, del k tm, 1)
  | _ => (om, tm, Z.of_nat (pid p))
  end.
(* scan the entries in key order, calling the predicate on each; call number c throws when planned *)
Fixpoint pscan (throws : list Z) (o : pop) (om : omapT) (tm : tmapT) (rest : omapT) (c : Z) : mstate * option Z :=
  match rest with
  | [] => (MS om tm c, Some 0)
  | (k, p) :: r =>
    if memZ c throws then (MS om tm (c + 1), None)
    else if ptest o tm k p then let '(om', tm', rv) := pfound o om tm k p in (MS om' tm' (c + 1), Some rv)
    else pscan throws o om tm r (c + 1)
  end.

Definition apply_op (throws : list Z) (o : op) (arg : ptr) (s : mstate) : mstate * option Z :=
  match o with
  | OS so => let '(om, tm, r, _) := apply_sop so arg (m_o s) (m_t s) in (MS om tm (m_calls s), Some r)
  | OP po => pscan throws po (m_o s) (m_t s) (m_o s) (m_calls s)
  | OL _ => (s, Some 0)
  end.

(* ---------- the concurrent model ---------- *)
(* a window on the shared_ptr instance of a map node: copy from it (read) or its destruction (write) *)
Inductive wk := WRd | WWr.
Definition wact := (wk * nat)%type.
Inductive pc :=
| Idle
| SLock (o : sop)                (* before lock_guard's lock() *)
| PLock (o : pop)
| Call (o : pop) (k : Z)         (* inside the section, parked in user_call, iterator at key k *)
| Unlock (o : op) (a : ptr) (r : Z)   (* body done (argument a), before lock_guard's unlock(); returns r *)
| Win (o : op) (a : ptr) (r : Z) (half : bool) (todo : list wact)
                                 (* body done; windows on node pointers still to play (half: the first one is open) *)
| XUnlock (o : pop).             (* unwinding after a throwing predicate: unlock, then the exception leaves *)

(* held: the shared_ptr argument on its way in (Add) or the result on its way out (Find) *)
Record loc := Loc { prog : list op; at_ : pc; slots : option ptr * option ptr; held : option ptr }.
Record entry := Entry { e_tid : nat; e_op : op; e_arg : ptr; e_ret : option Z }.
(* log: ghost linearization log, appended at the unlock step *)
(* imap: instance number of the node of each name; ninst: next fresh instance number *)
Record glob := Glob { omap : omapT; tmap : tmapT; mtx : option nat; heap : list nat;
                      calls : Z; throws : list Z; faulted : bool; log : list entry;
                      imap : list (Z * nat); ninst : nat }.

Definition O_MTX := 1.
Definition F_ITER := 1.   (* use of an iterator whose map node has been erased *)
Definition F_UAF := 2.    (* use of an object whose last reference is gone *)

Definition rc_of (h : list nat) (id : nat) : nat := match id with O => O | S i => nth i h O end.
(* new heap, and whether the cell was alive (false = Fault F_UAF) *)
Definition rc_inc (h : list nat) (id : nat) : list nat * bool :=
  match id with
  | O => (h, false)
  | S i => match nth_error h i with Some (S n) => (upd h i (S (S n)), true) | _ => (h, false) end
  end.
Definition rc_dec (h : list nat) (id : nat) : list nat * bool :=
  match id with
  | O => (h, false)
  | S i => match nth_error h i with Some (S n) => (upd h i n, true) | _ => (h, false) end
  end.
Definition inc_opt (h : list nat) (p : option ptr) : list nat * bool :=
  match p with None => (h, true) | Some q => rc_inc h (pid q) end.
Definition dec_opt (h : list nat) (p : option ptr) : list nat * bool :=
  match p with None => (h, true) | Some q => rc_dec h (pid q) end.
Definition alive (h : list nat) (p : ptr) : bool := negb (Nat.eqb (rc_of h (pid p)) O).

Definition fault_evs (code : Z) (ok : bool) : list ev := if ok then [] else [E K_FAULT 0 code].
Definition getslot (s : bool) (sl : option ptr * option ptr) : option ptr := if s then snd sl else fst sl.
Definition setslot (s : bool) (x : option ptr) (sl : option ptr * option ptr) : option ptr * option ptr :=
  if s then (fst sl, x) else (x, snd sl).
Definition slot (l : loc) (s : bool) : option ptr := getslot s (slots l).
Definition null_ptr : ptr := (O, 0).
Definition harg (l : loc) : ptr := match held l with Some p => p | None => null_ptr end.
Definition dst_slot (o : op) : option bool :=
  match o with
  | OS (FindName _ s) => Some s | OP (FindPred _ s) => Some s | OP (FindPredT _ _ s) => Some s
  | _ => None
  end.

(* reference-count effect of a simple method body, given what apply_sop reported *)
Definition sop_rc (o : sop) (arg : ptr) (r : Z) (touched : option ptr) (h : list nat) : list nat * bool * option ptr :=
  match o with
  | Add _ _ | AddT _ _ _ =>      (* emplace moved the argument into the map, or destroyed it with the rejected node *)
    if r =? 1 then (h, true, None) else let '(h', ok) := rc_dec h (pid arg) in (h', ok, None)
  | RemName _ => let '(h', ok) := dec_opt h touched in (h', ok, None)
  | Copy _ _ => let '(h', ok) := inc_opt h touched in (h', ok, None)
  | FindName _ _ => let '(h', ok) := inc_opt h touched in (h', ok, touched)
  | _ => (h, true, None)
  end.

(* the value of the object a method creates before it takes the lock (std::make_shared in the caller) *)
Definition new_arg (o : sop) : option Z := match o with Add _ v => Some v | AddT _ v _ => Some v | _ => None end.
Definition is_rem (o : pop) : bool := match o with RemPred _ => true | _ => false end.
Definition set_hf (g : glob) (h : list nat) (ok : bool) : glob :=
  Glob (omap g) (tmap g) (mtx g) h (calls g) (throws g) (faulted g || negb ok) (log g) (imap g) (ninst g).

(* ---------- windows on the node pointers ---------- *)
Definition inst_of (k : Z) (im : list (Z * nat)) : nat := match lookup k im with Some i => i | None => O end.
Definition iobj (i : nat) : Z := Z.of_nat i + 2.      (* event object number of an instance; 1 is the mutex *)
(* the windows a simple method body opens, in order, and the new instance table.
   om, im: the maps before the body; r: its result; fresh: the number of the node it may create.
   (emplace moves the argument into the new node: silent.  A rejected emplace constructs nothing.) *)
Definition sop_wins (o : sop) (r : Z) (om : omapT) (im : list (Z * nat)) (fresh : nat) : list wact * list (Z * nat) :=
  match o with
  | Add n _ => ([], if r =? 1 then put n fresh im else im)
  | AddT n _ _ => ([], if r =? 1 then put n fresh im else im)
  | RemName n => if r =? 1 then ([(WWr, inst_of n im)], del n im) else ([], im)        (* erase destroys the node's pointer *)
  | Copy a b =>
    match lookup a om with
    | Some _ => ([(WRd, inst_of a im)], if r =? 1 then put b fresh im else im)          (* newObjectPtr = fnd->second *)
    | None => ([], im)
    end
  | FindName n _ => match lookup n om with Some _ => ([(WRd, inst_of n im)], im) | None => ([], im) end  (* return fnd->second *)
  | GetObjects => (map (fun kp => (WRd, inst_of (fst kp) im)) om, im)                  (* push_back(obj.second) *)
  | _ => ([], im)
  end.
Definition after_body (o : op) (a : ptr) (r : Z) (todo : list wact) : pc :=
  match todo with [] => Unlock o a r | _ => Win o a r false todo end.
Definition win_ev (edge : bool) (w : wact) : ev :=
  match fst w, edge with
  | WRd, false => E K_RD_BEGIN (iobj (snd w)) 0
  | WRd, true => E K_RD_END (iobj (snd w)) 0
  | WWr, false => E K_WR_BEGIN (iobj (snd w)) 0
  | WWr, true => E K_WR_END (iobj (snd w)) 0
  end.

Definition tstep_gen (unfixed : bool) (t c : nat) (g : glob) (l : loc) : option (glob * loc * list ev) :=
  match at_ l with
  | Idle =>
    match prog l with
    | [] => None
    | o :: rest =>
      let iv := E K_INVOKE 0 (opcode o) in
      match o with
      | OL (Drop s) =>
        let '(h', ok) := dec_opt (heap g) (slot l s) in
        Some (set_hf g h' ok, Loc rest Idle (setslot s None (slots l)) (held l),
              [iv] ++ fault_evs F_UAF ok ++ [E K_RET 0 0])
      | OL (ReadObj s) =>
        match slot l s with
        | None => Some (g, Loc rest Idle (slots l) (held l), [iv; E K_RET 0 (-1)])
        | Some p =>
          let ok := alive (heap g) p in
          Some (set_hf g (heap g) ok, Loc rest Idle (slots l) (held l),
                [iv] ++ fault_evs F_UAF ok ++ [E K_RET 0 (pval p)])
        end
      | OL (AddFrom n s ty) =>
        match slot l s with
        | None => Some (g, Loc rest Idle (slots l) (held l), [iv; E K_RET 0 (-1)])
        | Some p =>     (* the argument is a copy of the client's pointer; then exactly addObject *)
          let '(h', ok) := rc_inc (heap g) (pid p) in
          Some (set_hf g h' ok,
                Loc rest (SLock (match ty with Some y => AddT n (pval p) y | None => Add n (pval p) end)) (slots l) (Some p),
                [iv] ++ fault_evs F_UAF ok)
        end
      | OS so =>
        match new_arg so with
        | Some v =>     (* std::make_shared: a new cell with one owner, the argument *)
          Some (set_hf g (heap g ++ [1%nat]) true, Loc rest (SLock so) (slots l) (Some (S (length (heap g)), v)), [iv])
        | None => Some (g, Loc rest (SLock so) (slots l) (held l), [iv])
        end
      | OP po => Some (g, Loc rest (PLock po) (slots l) (held l), [iv])
      end
    end
  | SLock o =>      (* lock, and the body up to its first window (or to the unlock) *)
    match mtx g with
    | Some _ => None
    | None =>
      let arg := harg l in
      let '(om, tm, r, touched) := apply_sop o arg (omap g) (tmap g) in
      let '(h', ok, keep) := sop_rc o arg r touched (heap g) in
      let '(todo, im) := sop_wins o r (omap g) (imap g) (ninst g) in
      Some (Glob om tm (Some t) h' (calls g) (throws g) (faulted g || negb ok) (log g) im (S (ninst g)),
            Loc (prog l) (after_body (OS o) arg r todo) (slots l) keep,
            [E K_LOCK O_MTX 0] ++ fault_evs F_UAF ok)
    end
  | PLock o =>      (* lock; begin(); the first predicate call parks in user_call *)
    match mtx g with
    | Some _ => None
    | None =>
      Some (Glob (omap g) (tmap g) (Some t) (heap g) (calls g) (throws g) (faulted g) (log g) (imap g) (ninst g),
            Loc (prog l) (match first_key (omap g) with Some k => Call o k | None => Unlock (OP o) null_ptr 0 end)
                (slots l) (held l),
            [E K_LOCK O_MTX 0])
    end
  | Call o k =>
    match lookup k (omap g) with
    | None =>       (* the iterator's node is gone *)
      Some (Glob (omap g) (tmap g) (mtx g) (heap g) (calls g) (throws g) true (log g) (imap g) (ninst g),
            Loc (prog l) (Unlock (OP o) null_ptr 0) (slots l) (held l), [E K_FAULT 0 F_ITER])
    | Some p =>
      let cev := E K_CALL 0 (Z.of_nat (pid p)) in
      let n := calls g in
      if memZ n (throws g) then
        Some (Glob (omap g) (tmap g) (mtx g) (heap g) (n + 1) (throws g) (faulted g) (log g) (imap g) (ninst g),
              Loc (prog l) (XUnlock o) (slots l) (held l), [cev; E K_THROW 0 n])
      else
        let live := alive (heap g) p in         (* the predicate reads the object *)
        if ptest o (tmap g) k p then
          if is_rem o then
            let '(h', ok) := rc_dec (heap g) (pid p) in
            (* fixed: the key is read (typeMap erased) before objectMap.erase(obj);
               unfixed: objectMap.erase(obj) first, then obj->first is read through the erased node *)
            let om_at_deref := if unfixed then del k (omap g) else omap g in
            let iter_ok := match lookup k om_at_deref with Some _ => true | None => false end in
            Some (Glob (del k (omap g)) (del k (tmap g)) (mtx g) h' (n + 1) (throws g)
                       (faulted g || negb (live && ok && iter_ok)) (log g) (del k (imap g)) (ninst g),
                  Loc (prog l) (Win (OP o) null_ptr 1 false [(WWr, inst_of k (imap g))]) (slots l) (held l),
                  [cev] ++ fault_evs F_UAF (live && ok) ++ fault_evs F_ITER iter_ok)
          else
            let '(h', ok) := rc_inc (heap g) (pid p) in
            Some (Glob (omap g) (tmap g) (mtx g) h' (n + 1) (throws g) (faulted g || negb (live && ok)) (log g)
                       (imap g) (ninst g),
                  Loc (prog l) (Win (OP o) null_ptr (Z.of_nat (pid p)) false [(WRd, inst_of k (imap g))]) (slots l) (Some p),
                  [cev] ++ fault_evs F_UAF (live && ok))
        else
          Some (Glob (omap g) (tmap g) (mtx g) (heap g) (n + 1) (throws g) (faulted g || negb live) (log g)
                     (imap g) (ninst g),
                Loc (prog l) (match next_key k (omap g) with Some k' => Call o k' | None => Unlock (OP o) null_ptr 0 end)
                    (slots l) (held l),
                [cev] ++ fault_evs F_UAF live)
    end
  | Win o a r half todo =>    (* one edge of the first pending window *)
    match todo with
    | [] => Some (g, Loc (prog l) (Unlock o a r) (slots l) (held l), [])      (* not reachable: after_body *)
    | w :: rest =>
      if half then Some (g, Loc (prog l) (after_body o a r rest) (slots l) (held l), [win_ev true w])
      else Some (g, Loc (prog l) (Win o a r true todo) (slots l) (held l), [win_ev false w])
    end
  | Unlock o a r =>   (* unlock; the result is handed to the client (a Find result goes into its slot) *)
    let e := Entry t o a (Some r) in
    match dst_slot o with
    | Some s =>
      let '(h', ok) := dec_opt (heap g) (slot l s) in
      Some (Glob (omap g) (tmap g) None h' (calls g) (throws g) (faulted g || negb ok) (log g ++ [e]) (imap g) (ninst g),
            Loc (prog l) Idle (setslot s (held l) (slots l)) None,
            [E K_UNLOCK O_MTX 0] ++ fault_evs F_UAF ok ++ [E K_RET 0 r])
    | None =>
      Some (Glob (omap g) (tmap g) None (heap g) (calls g) (throws g) (faulted g) (log g ++ [e]) (imap g) (ninst g),
            Loc (prog l) Idle (slots l) (held l), [E K_UNLOCK O_MTX 0; E K_RET 0 r])
    end
  | XUnlock o =>
    Some (Glob (omap g) (tmap g) None (heap g) (calls g) (throws g) (faulted g)
               (log g ++ [Entry t (OP o) null_ptr None]) (imap g) (ninst g),
          Loc (prog l) Idle (slots l) (held l), [E K_UNLOCK O_MTX 0; E K_CATCH 0 0])
  end.

Definition tstep := tstep_gen false.

Definition fin (l : loc) : bool := match at_ l, prog l with Idle, [] => true | _, _ => false end.

Definition init (thr_at : list Z) (progs : list (list op)) : sys glob loc :=
  Sys (Glob [] [] None [] 0 thr_at false [] [] 0) (map (fun p => Loc p Idle (None, None) None) progs).

(* ---------- entry point of the correspondence check ---------- *)
Fixpoint decode_prog (p : list (list Z)) : list op :=
  match p with
  | [] => []
  | z :: r => match decode_op z with Some o => o :: decode_prog r | None => decode_prog r end
  end.

Fixpoint live_lines (h : list nat) (id : nat) : list line :=
  match h with
  | [] => []
  | n :: r => (match n with O => [] | _ => [[-2; 3; Z.of_nat id; Z.of_nat n]] end) ++ live_lines r (S id)
  end.
Definition final (s : sys glob loc) : list line :=
  let g := gl s in
  [[-2; 0; Z.of_nat (length (filter (fun n => negb (Nat.eqb n O)) (heap g)));
    match mtx g with Some t => Z.of_nat t | None => -1 end; calls g]]
  ++ map (fun kp => [-2; 1; fst kp; Z.of_nat (pid (snd kp)); pval (snd kp)]) (omap g)
  ++ map (fun kt => [-2; 2; fst kt] ++ snd kt) (tmap g)
  ++ live_lines (heap g) 1.

Definition run_case (cfg : list Z) (progs : list (list (list Z))) (sched : list (Z * Z)) : list line :=
  run_case_gen glob loc tstep fin (init cfg (map decode_prog progs)) sched final.
