(* Two ordered_guarded objects X and Y of the same instantiation, and modify functors of X that call an operation
   of Y while they run (nested calls X -> Y): the product of two copies of WrapperModel (flavour ordered_guarded).
   Definitions only (no lemmas): this file is extracted and run against harness/wrapper2_drv.cpp.

   Every step of a thread is a step of WrapperModel.tstep in one of the two objects (on that object's global state
   and on the thread's state in that object); the single exception is the invocation of a nested functor of X,
   which is fused with the (invisible) entry of the inner call on Y.  A nested call emits no K_INVOKE / K_RET.
   The objects share nothing but the threads.  No throw plan in this component.
   cfg  = [mutex kind; initial value of X; initial value of Y; payload kind (0 instrumented, otherwise plain)]
   ops  = c ...          operation c of the wrapper driver on X          (K_INVOKE value c)
          100 + c ...    the same on Y                                   (K_INVOKE value 100 + c)
          50 fid c ...   X.modify(f) where f = { user_call(fid); Y.<op c ...>; ++x; }, c one of modify / read / load
          60             X = Y   (instrumented payload kind only: the generator never uses it with a plain payload) *)
From Coq Require Import List Arith ZArith Bool.
Import ListNotations.
From GV Require Import Sched Events WrapperModel.
Local Open Scope Z_scope.

Inductive op2 := OnX (o : op) | OnY (o : op) | Nested (fid : Z) (inner : op)
| AssignXY.   (* `X = Y;` : X.operator=(Y&) -> m_obj = Y, i.e. Y's operator T() (under Y's lock) inside X's lock *)

Definition inner_ok (o : op) : bool := match o with Modify _ | ReadF _ | Load => true | _ => false end.
Definition decode_op2 (z : list Z) : option op2 :=
  match z with
  | [] => None
  | c :: r =>
    if c =? 60 then Some AssignXY else
    if c =? 50 then
      match r with
      | fid :: inner =>
        match decode_op inner with
        | Some o => if inner_ok o then Some (Nested fid o) else None
        | None => None
        end
      | [] => None
      end
    else if 100 <=? c then match decode_op (c - 100 :: r) with Some o => Some (OnY o) | None => None end
    else match decode_op z with Some o => Some (OnX o) | None => None end
  end.

(* lX / lY: the thread's state in X's and in Y's automaton (their own program fields hold at most the operation
   being executed); nest: the inner call the functor of the current X.modify will make *)
(* xf: the inner call is the conversion of `X = Y`: it starts right after X's lock, and its result is the value X assigns *)
Record loc2 := Loc2 { prog2 : list op2; lX : loc; lY : loc; nest : option op; xf : bool }.
Record glob2 := Glob2 { gX : glob; gY : glob }.

(* events of Y are told apart from those of X by their object ids *)
Definition shiftY (e : ev) : ev := Ev (ek e) (if eo e =? 0 then 0 else eo e + 1000) (evl e) (emo e).
Definition is_kind (k : Z) (e : ev) : bool := ek e =? k.
Definition drop_kind (k : Z) (es : list ev) : list ev := filter (fun e => negb (is_kind k e)) es.
Definition set_invoke (code : Z) (es : list ev) : list ev :=
  map (fun e => if is_kind K_INVOKE e then Ev K_INVOKE 0 code (emo e) else e) es.

Definition idle (l : loc) : bool := match at_ l with Idle => true | _ => false end.
Definition with_op (l : loc) (o : op) : loc := Loc [o] Idle (slots l).
(* the thread is about to invoke the functor of X.modify *)
Definition at_functor_call (l : loc) : bool :=
  match at_ l with Run (FGuard (Modify _) _) (MCall _ _ :: _) _ _ _ => true | _ => false end.

Definition at_gacq (l : loc) : bool := match at_ l with GAcq _ => true | _ => false end.
(* the value X.operator= will assign becomes known when Y's conversion returns *)
Definition patch (l : loc) (v : Z) : loc :=
  match at_ l with
  | Run fr [MCall f s; MWrite Obj (Const _)] ph r ok => Loc (prog l) (Run fr [MCall f s; MWrite Obj (Const v)] ph r ok) (slots l)
  | _ => l
  end.
Definition ret_of (l : loc) : option Z := match at_ l with GRel _ _ rv false => Some rv | _ => None end.

Definition tstep2 (cx cy : config) (t c : nat) (g : glob2) (l : loc2) : option (glob2 * loc2 * list ev) :=
  if negb (idle (lY l)) then
    (* a call on Y is in progress: a top-level one, or the inner call of a nested functor (then X's pc is inside
       that functor and the call's return is not an event) *)
    match tstep cy t c (gY g) (lY l) with
    | None => None
    | Some (gY', lY', es) =>
      let lX1 := if xf l && idle lY' then match ret_of (lY l) with Some rv => patch (lX l) rv | None => lX l end else lX l in
      Some (Glob2 (gX g) gY', Loc2 (prog2 l) lX1 lY' (nest l) (xf l && negb (idle lY')),
            map shiftY (if idle (lX l) then es else drop_kind K_RET es))
    end
  else if negb (idle (lX l)) then
    match tstep cx t c (gX g) (lX l) with
    | None => None
    | Some (gX', lX', es) =>
      match nest l with
      | Some inner =>
        if (if xf l then at_gacq (lX l) else at_functor_call (lX l)) then
          (* the nested functor has been invoked: it enters the call on Y at once (no scheduling point in between) *)
          match tstep cy t c (gY g) (with_op (lY l) inner) with
          | None => None
          | Some (gY', lY', esY) =>
            Some (Glob2 gX' gY', Loc2 (prog2 l) lX' lY' None (xf l), es ++ map shiftY (drop_kind K_INVOKE esY))
          end
        else Some (Glob2 gX' (gY g), Loc2 (prog2 l) lX' (lY l) (nest l) (xf l), es)
      | None => Some (Glob2 gX' (gY g), Loc2 (prog2 l) lX' (lY l) None (xf l), es)
      end
    end
  else
    match prog2 l with
    | [] => None
    | OnX o :: r =>
      match tstep cx t c (gX g) (with_op (lX l) o) with
      | None => None
      | Some (gX', lX', es) => Some (Glob2 gX' (gY g), Loc2 r lX' (lY l) None false, es)
      end
    | OnY o :: r =>
      match tstep cy t c (gY g) (with_op (lY l) o) with
      | None => None
      | Some (gY', lY', es) =>
        Some (Glob2 (gX g) gY', Loc2 r (lX l) lY' None false, map shiftY (set_invoke (opcode o + 100) es))
      end
    | Nested fid inner :: r =>
      match tstep cx t c (gX g) (with_op (lX l) (Modify fid)) with
      | None => None
      | Some (gX', lX', es) => Some (Glob2 gX' (gY g), Loc2 r lX' (lY l) (Some inner) false, set_invoke 50 es)
      end
    | AssignXY :: r =>
      match tstep cx t c (gX g) (with_op (lX l) (Assign 0)) with
      | None => None
      | Some (gX', lX', es) => Some (Glob2 gX' (gY g), Loc2 r lX' (lY l) (Some Cast) true, set_invoke 60 es)
      end
    end.

Definition fin2 (l : loc2) : bool :=
  idle (lX l) && idle (lY l) && match prog2 l with [] => true | _ => false end.

Definition init_loc : loc := Loc [] Idle (repeat None NSLOTS).
Definition init2 (cx cy : config) (progs : list (list op2)) : sys glob2 loc2 :=
  Sys (Glob2 (gl (init cx [])) (gl (init cy []))) (map (fun p => Loc2 p init_loc init_loc None false) progs).

(* ---------- entry point of the correspondence check ---------- *)
Fixpoint decode_prog2 (p : list (list Z)) : list op2 :=
  match p with
  | [] => []
  | z :: r => match decode_op2 z with Some o => o :: decode_prog2 r | None => decode_prog2 r end
  end.
Definition mk_cfg (c : list Z) (i : Z) : config :=
  let k := nth 0 c 0 in
  Cfg FOrdered (if k =? 0 then MPlain else if k =? 1 then MTimed else if k =? 2 then MShared else MSharedTimed)
      true i [] (negb (nth 3 c 0 =? 0)).
Definition final_of (g : glob) : line :=
  [-2; val g; match owner g with Some a => Z.of_nat a | None => -1 end; Z.of_nat (length (sharers g))].
Definition final2 (s : sys glob2 loc2) : list line :=
  [final_of (gX (gl s)); final_of (gY (gl s));
   [-2; Z.of_nat (faults (gX (gl s)) + faults (gY (gl s))); Z.of_nat (calls (gX (gl s)) + calls (gY (gl s)))]].

Definition run_case (cfg : list Z) (progs : list (list (list Z))) (sched : list (Z * Z)) : list line :=
  let cx := mk_cfg cfg (nth 1 cfg 0) in
  let cy := mk_cfg cfg (nth 2 cfg 0) in
  run_case_gen glob2 loc2 (tstep2 cx cy) fin2 (init2 cx cy (map decode_prog2 progs)) sched final2.
