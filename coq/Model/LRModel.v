(* gmlc/libguarded/lr_guarded.hpp (T = vs::VPay, Mutex = std::mutex) as a pc automaton:
   one step per visible operation.  Definitions only (no lemmas): this file is
   extracted and run against the code.

   Payload: the *log* of functor ids applied to a copy (newest last); the integer the
   instrumented VPay holds is [enc log] (the harness functor is x := x*8 + fid).
   The harness functor passed to modify is
       user_call(fid); x.write(x.read()*8 + fid); user_call(fid+100);
   i.e. a throw point before and one after the modification of the copy.
   cfg = number of handle slots per thread :: throw plan (global indices of the
   user_call invocations that throw). *)
From Coq Require Import List Arith ZArith Bool.
Import ListNotations.
From GV Require Import Sched Events.
Local Open Scope Z_scope.

(* client operations; [LockShared k s]: k = 1 lock_shared, 2 try_lock_shared,
   3 try_lock_shared_for, 4 try_lock_shared_until (all the same code path) *)
Inductive op := Modify (f : Z) | LockShared (k : Z) (s : nat) | ReadHandle (s : nat) | Release (s : nat).
Definition opcode (o : op) : Z :=
  match o with Modify _ => 0 | LockShared k _ => k | ReadHandle _ => 5 | Release _ => 6 end.
Definition decode_op (z : list Z) : option op :=
  match z with
  | [0; f] => Some (Modify f)
  | [0; f; _] => Some (Modify f)   (* harness flag: the functor is passed as a value-category aware rvalue;
                                       modify applies its named parameter (an lvalue) twice, so nothing changes *)
  | [5; s] => Some (ReadHandle (Z.to_nat s))
  | [6; s] => Some (Release (Z.to_nat s))
  | [6; s; _] => Some (Release (Z.to_nat s))   (* harness flag: first half of a handle "refresh" *)
  | [k; s] => if (1 <=? k) && (k <=? 4) then Some (LockShared k (Z.to_nat s)) else None
  | _ => None
  end.

(* [ph] = true: first application / first catch block, false: second *)
Inductive pc :=
| Idle
| R_ldc | R_inc | R_ldr                 (* lock_shared: load countingLeft; counter++; load readingLeft *)
| H_rb | H_re                           (* read window through a handle *)
| L_dec                                 (* handle release: counter-- *)
| M_lock | M_ldr
| A_call (ph : bool) | A_rb (ph : bool) | A_re (ph : bool) | A_wb (ph : bool) | A_we (ph : bool) | A_call2 (ph : bool)
| C_rb (ph : bool) | C_re (ph : bool) | C_wb (ph : bool) | C_we (ph : bool) | C_unlock (ph : bool)
| M_str | M_ldc | M_d1 | M_y1 | M_stc | M_d2 | M_y2 | M_unlock.

(* a held shared handle: the copy it points to, the counter its deleter decrements;
   ghost: the committed log at the moment the handle was completed *)
Record hnd := Hnd { hd : bool; hc : bool; hsnap : list Z }.

Record loc := Loc {
  prog : list op; at_ : pc;
  slots : list (option hnd);
  sl : nat;              (* slot of the current reader operation *)
  rcnt : bool;           (* lock_shared: the value of countingLeft it loaded *)
  fid : Z;               (* modify: the functor *)
  lrl : bool; lcl : bool; (* modify: local_readingLeft, local_countingLeft *)
  tmp : list Z;          (* value read by the last read window of the functor / copy assignment *)
  gold : list Z          (* ghost: committed log when this modify took the mutex *)
}.

Record copy := Copy { log : list Z; dirty : bool; nrd : Z }.

(* ghost phase of the writer protocol: PA idle / applying, PC1 flipped readingLeft and
   first drain not yet passed, PC2 first drain passed, second not yet *)
Inductive phase := PA | PC1 | PC2.

Record glob := Glob {
  rl : bool; cl : bool; lc : Z; rc : Z;
  left : copy; right : copy;
  mtx : option nat;
  plan : list Z; calls : Z;
  faults : nat;
  committed : list Z;    (* ghost: functors that took effect (appended at the readingLeft flip) *)
  gph : phase; glcl : bool (* ghost *)
}.

Definition O_RL := 1. Definition O_CL := 2. Definition O_LC := 3. Definition O_RC := 4.
Definition O_LEFT := 5. Definition O_RIGHT := 6. Definition O_MTX := 7.

Definition b2z (b : bool) : Z := if b then 1 else 0.
Definition enc (l : list Z) : Z := fold_left (fun a f => a * 8 + f) l 0.
Definition ret_ev (v : Z) : ev := E K_RET 0 v.

Definition cp (g : glob) (x : bool) : copy := if x then left g else right g.
Definition o_cp (x : bool) : Z := if x then O_LEFT else O_RIGHT.
Definition ctr (g : glob) (c : bool) : Z := if c then lc g else rc g.
Definition o_ctr (c : bool) : Z := if c then O_LC else O_RC.

Definition set_cp (g : glob) (x : bool) (c : copy) (nf : nat) : glob :=
  Glob (rl g) (cl g) (lc g) (rc g) (if x then c else left g) (if x then right g else c)
       (mtx g) (plan g) (calls g) (faults g + nf) (committed g) (gph g) (glcl g).
Definition set_ctr (g : glob) (c : bool) (v : Z) : glob :=
  Glob (rl g) (cl g) (if c then v else lc g) (if c then rc g else v) (left g) (right g)
       (mtx g) (plan g) (calls g) (faults g) (committed g) (gph g) (glcl g).
Definition set_mtx (g : glob) (m : option nat) : glob :=
  Glob (rl g) (cl g) (lc g) (rc g) (left g) (right g) m (plan g) (calls g) (faults g) (committed g) (gph g) (glcl g).
Definition set_calls (g : glob) (k : Z) : glob :=
  Glob (rl g) (cl g) (lc g) (rc g) (left g) (right g) (mtx g) (plan g) k (faults g) (committed g) (gph g) (glcl g).
Definition set_ph (g : glob) (p : phase) (b : bool) : glob :=
  Glob (rl g) (cl g) (lc g) (rc g) (left g) (right g) (mtx g) (plan g) (calls g) (faults g) (committed g) p b.
Definition set_cl (g : glob) (b : bool) : glob :=
  Glob (rl g) b (lc g) (rc g) (left g) (right g) (mtx g) (plan g) (calls g) (faults g) (committed g) (gph g) (glcl g).
(* the flip of readingLeft is the point at which functor f takes effect *)
Definition flip_rl (g : glob) (b : bool) (f : Z) : glob :=
  Glob b (cl g) (lc g) (rc g) (left g) (right g) (mtx g) (plan g) (calls g) (faults g) (committed g ++ [f]) PC1 (glcl g).

(* the four VPay window edges on copy x; each returns the new copy, the events
   (K_FAULT first, as vpay.hpp logs them) and the number of faults *)
Definition fault_evs (x : bool) (codes : list Z) : list ev := map (fun c => E K_FAULT (o_cp x) c) codes.
Definition rd_begin (x : bool) (c : copy) : copy * list ev * nat :=
  let fs := if dirty c then [2] else [] in
  (Copy (log c) (dirty c) (nrd c + 1), fault_evs x fs ++ [E K_RD_BEGIN (o_cp x) 0], length fs).
Definition rd_end (x : bool) (c : copy) : copy * list ev * nat :=
  let fs := if dirty c then [4] else [] in
  (Copy (log c) (dirty c) (nrd c - 1), fault_evs x fs ++ [E K_RD_END (o_cp x) (enc (log c))], length fs).
Definition wr_begin (x : bool) (c : copy) : copy * list ev * nat :=
  let fs := (if 0 <? nrd c then [1] else []) ++ (if dirty c then [3] else []) in
  (Copy (log c) true (nrd c), fault_evs x fs ++ [E K_WR_BEGIN (o_cp x) 0], length fs).
Definition wr_end (x : bool) (c : copy) (v : list Z) : copy * list ev * nat :=
  (Copy v false (nrd c), [E K_WR_END (o_cp x) (enc v)], O).

Definition zmem (k : Z) (l : list Z) : bool := existsb (Z.eqb k) l.

(* copy written by application / catch block ph, given local_readingLeft *)
Definition tgt (ph lrl_ : bool) : bool := if ph then negb lrl_ else lrl_.

Definition set_at (l : loc) (p : pc) : loc :=
  Loc (prog l) p (slots l) (sl l) (rcnt l) (fid l) (lrl l) (lcl l) (tmp l) (gold l).
Definition set_tmp (l : loc) (p : pc) (v : list Z) : loc :=
  Loc (prog l) p (slots l) (sl l) (rcnt l) (fid l) (lrl l) (lcl l) v (gold l).
Definition set_slots (l : loc) (p : pc) (s : list (option hnd)) : loc :=
  Loc (prog l) p s (sl l) (rcnt l) (fid l) (lrl l) (lcl l) (tmp l) (gold l).

Definition cur_hnd (l : loc) : option hnd :=
  match nth_error (slots l) (sl l) with Some (Some h) => Some h | _ => None end.

(* model-internal inconsistency (a reader pc without its handle): never reachable *)
Definition bad (g : glob) (l : loc) : option (glob * loc * list ev) :=
  Some (set_cp g true (left g) 1, set_at l Idle, [E K_FAULT 0 9; ret_ev (-9)]).

Definition tstep (t c : nat) (g : glob) (l : loc) : option (glob * loc * list ev) :=
  let goto p := set_at l p in
  match at_ l with
  | Idle =>
    match prog l with
    | [] => None
    | o :: r =>
      let inv := E K_INVOKE 0 (opcode o) in
      let start p s f := Loc r p (slots l) s (rcnt l) f (lrl l) (lcl l) (tmp l) (gold l) in
      let refuse := Some (g, start Idle (sl l) (fid l), [inv; ret_ev (-1)]) in
      match o with
      | Modify f => Some (g, start M_lock (sl l) f, [inv])
      | LockShared _ s =>
        match nth_error (slots l) s with
        | Some None => Some (g, start R_ldc s (fid l), [inv])
        | _ => refuse
        end
      | ReadHandle s =>
        match nth_error (slots l) s with
        | Some (Some _) => Some (g, start H_rb s (fid l), [inv])
        | _ => refuse
        end
      | Release s =>
        match nth_error (slots l) s with
        | Some (Some _) => Some (g, start L_dec s (fid l), [inv])
        | _ => refuse
        end
      end
    end
  (* lock_shared(): if (m_countingLeft) { m_leftReadCount++; if (m_readingLeft) ... *)
  | R_ldc =>
    Some (g, Loc (prog l) R_inc (slots l) (sl l) (cl g) (fid l) (lrl l) (lcl l) (tmp l) (gold l),
          [ESC K_LOAD O_CL (b2z (cl g))])
  | R_inc =>
    let v := ctr g (rcnt l) + 1 in
    Some (set_ctr g (rcnt l) v, goto R_ldr, [ESC K_RMW (o_ctr (rcnt l)) v])
  | R_ldr =>
    Some (g, set_slots l Idle (upd (slots l) (sl l) (Some (Hnd (rl g) (rcnt l) (committed g)))),
          [ESC K_LOAD O_RL (b2z (rl g)); ret_ev 0])
  (* *handle: one read window on the copy the handle points to *)
  | H_rb =>
    match cur_hnd l with
    | Some h => let '(c', es, nf) := rd_begin (hd h) (cp g (hd h)) in
                Some (set_cp g (hd h) c' nf, goto H_re, es)
    | None => bad g l
    end
  | H_re =>
    match cur_hnd l with
    | Some h => let '(c', es, nf) := rd_end (hd h) (cp g (hd h)) in
                Some (set_cp g (hd h) c' nf, goto Idle, es ++ [ret_ev (enc (log (cp g (hd h))))])
    | None => bad g l
    end
  (* shared_deleter: m_readingCount-- *)
  | L_dec =>
    match cur_hnd l with
    | Some h => let v := ctr g (hc h) - 1 in
                Some (set_ctr g (hc h) v, set_slots l Idle (upd (slots l) (sl l) None),
                      [ESC K_RMW (o_ctr (hc h)) v; ret_ev 0])
    | None => bad g l
    end
  (* modify(): lock_guard lock(m_writeMutex); local_readingLeft = m_readingLeft.load(); *)
  | M_lock =>
    match mtx g with
    | None => Some (set_mtx g (Some t),
                    Loc (prog l) M_ldr (slots l) (sl l) (rcnt l) (fid l) (lrl l) (lcl l) (tmp l) (committed g),
                    [E K_LOCK O_MTX 0])
    | Some _ => None
    end
  | M_ldr =>
    Some (g, Loc (prog l) (A_call true) (slots l) (sl l) (rcnt l) (fid l) (rl g) (lcl l) (tmp l) (gold l),
          [ESC K_LOAD O_RL (b2z (rl g))])
  (* func( *location ): user_call(fid); x.write(x.read()*8+fid); user_call(fid+100) *)
  | A_call ph =>
    let k := calls g in
    if zmem k (plan g)
    then Some (set_calls g (k + 1), goto (C_rb ph), [E K_CALL 0 (fid l); E K_THROW 0 k])
    else Some (set_calls g (k + 1), goto (A_rb ph), [E K_CALL 0 (fid l)])
  | A_rb ph =>
    let x := tgt ph (lrl l) in
    let '(c', es, nf) := rd_begin x (cp g x) in Some (set_cp g x c' nf, goto (A_re ph), es)
  | A_re ph =>
    let x := tgt ph (lrl l) in
    let '(c', es, nf) := rd_end x (cp g x) in Some (set_cp g x c' nf, set_tmp l (A_wb ph) (log (cp g x)), es)
  | A_wb ph =>
    let x := tgt ph (lrl l) in
    let '(c', es, nf) := wr_begin x (cp g x) in Some (set_cp g x c' nf, goto (A_we ph), es)
  | A_we ph =>
    let x := tgt ph (lrl l) in
    let '(c', es, nf) := wr_end x (cp g x) (tmp l ++ [fid l]) in Some (set_cp g x c' nf, goto (A_call2 ph), es)
  | A_call2 ph =>
    let k := calls g in
    if zmem k (plan g)
    then Some (set_calls g (k + 1), goto (C_rb ph), [E K_CALL 0 (fid l + 100); E K_THROW 0 k])
    else Some (set_calls g (k + 1), goto (if ph then M_str else M_unlock), [E K_CALL 0 (fid l + 100)])
  (* catch (...) { this copy = other copy; throw; }  then ~lock_guard during unwinding *)
  | C_rb ph =>
    let x := negb (tgt ph (lrl l)) in
    let '(c', es, nf) := rd_begin x (cp g x) in Some (set_cp g x c' nf, goto (C_re ph), es)
  | C_re ph =>
    let x := negb (tgt ph (lrl l)) in
    let '(c', es, nf) := rd_end x (cp g x) in Some (set_cp g x c' nf, set_tmp l (C_wb ph) (log (cp g x)), es)
  | C_wb ph =>
    let x := tgt ph (lrl l) in
    let '(c', es, nf) := wr_begin x (cp g x) in Some (set_cp g x c' nf, goto (C_we ph), es)
  | C_we ph =>
    let x := tgt ph (lrl l) in
    let '(c', es, nf) := wr_end x (cp g x) (tmp l) in Some (set_cp g x c' nf, goto (C_unlock ph), es)
  | C_unlock ph => Some (set_mtx g None, goto Idle, [E K_UNLOCK O_MTX 0; E K_CATCH 0 0])
  (* m_readingLeft.store(!local_readingLeft); local_countingLeft = m_countingLeft.load(); *)
  | M_str =>
    Some (flip_rl g (negb (lrl l)) (fid l), goto M_ldc, [ESC K_STORE O_RL (b2z (negb (lrl l)))])
  | M_ldc =>
    Some (g, Loc (prog l) M_d1 (slots l) (sl l) (rcnt l) (fid l) (lrl l) (cl g) (tmp l) (gold l),
          [ESC K_LOAD O_CL (b2z (cl g))])
  (* if (local_countingLeft) while (m_rightReadCount.load() != 0) yield(); else ... left *)
  | M_d1 =>
    let v := ctr g (negb (lcl l)) in
    if v =? 0
    then Some (set_ph g PC2 (lcl l), goto M_stc, [ESC K_LOAD (o_ctr (negb (lcl l))) v])
    else Some (g, goto M_y1, [ESC K_LOAD (o_ctr (negb (lcl l))) v])
  | M_y1 => Some (g, goto M_d1, [E K_YIELD 0 0])
  | M_stc =>
    Some (set_cl g (negb (lcl l)), goto M_d2, [ESC K_STORE O_CL (b2z (negb (lcl l)))])
  | M_d2 =>
    let v := ctr g (lcl l) in
    if v =? 0
    then Some (set_ph g PA (glcl g), goto (A_call false), [ESC K_LOAD (o_ctr (lcl l)) v])
    else Some (g, goto M_y2, [ESC K_LOAD (o_ctr (lcl l)) v])
  | M_y2 => Some (g, goto M_d2, [E K_YIELD 0 0])
  | M_unlock => Some (set_mtx g None, goto Idle, [E K_UNLOCK O_MTX 0; ret_ev 0])
  end.

Definition fin (l : loc) : bool := match at_ l, prog l with Idle, [] => true | _, _ => false end.

Definition init_loc (ns : nat) (p : list op) : loc :=
  Loc p Idle (repeat None ns) O true 0 true true [] [].
Definition init_glob (pl : list Z) : glob :=
  Glob true true 0 0 (Copy [] false 0) (Copy [] false 0) None pl 0 O [] PA true.
Definition init (ns : nat) (pl : list Z) (progs : list (list op)) : sys glob loc :=
  Sys (init_glob pl) (map (init_loc ns) progs).

(* ---------- entry point of the correspondence check ---------- *)
Fixpoint decode_prog (p : list (list Z)) : list op :=
  match p with
  | [] => []
  | z :: r => match decode_op z with Some o => o :: decode_prog r | None => decode_prog r end
  end.

(* modelling assumption pinned to the source: the reader counters are unbounded here; the code's are
   std::atomic<int>, which agrees as long as fewer than 2^31 readers are registered in one counter.
   The driver prints numeric_limits<>::max() of the two counters' value type in the same line. *)
Definition COUNTER_MAX : Z := 2147483647.
Definition final (s : sys glob loc) : list line :=
  let g := gl s in
  [[-2; enc (log (left g)); enc (log (right g)); b2z (rl g); b2z (cl g); lc g; rc g; Z.of_nat (faults g)];
   [-2; COUNTER_MAX; COUNTER_MAX]].

Definition run_case (cfg : list Z) (progs : list (list (list Z))) (sched : list (Z * Z)) : list line :=
  let ns := match cfg with n :: _ => Z.to_nat n | [] => O end in
  let pl := match cfg with _ :: p => p | [] => [] end in
  run_case_gen glob loc tstep fin (init ns pl (map decode_prog progs)) sched final.
