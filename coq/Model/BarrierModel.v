(* gmlc/concurrency/Barrier.hpp as a pc automaton: one step per visible operation.
   Definitions only (no lemmas): this file is extracted and run against the code.

   threshold_, count_, generation_ are plain std::size_t fields read and written under the
   mutex: they produce no events.  The visible operations of wait() / wait_and_drop() are
     lock ; then either  notify_all ; unlock            (the last arriver)
                 or      { cv_sleep ; cv_wake }* ; unlock (cv.wait(lck, pred): pred is evaluated
                                                           before the first sleep and after every wake)
   so the step at the "lock" pc performs the lock and all the local computation up to the next
   visible operation (read generation_, the decrement(s), the test, and for the last arriver the
   bump of generation_ and the reset of count_).

   The two decrements are on an unsigned 64-bit type: they are modelled on Z with an explicit
   wrap (dec) and a sticky ghost flag [wrapped] recording that a wrap was taken.
   generation_ is modelled as an unbounded Z (it would take 2^64 completed generations to
   overflow; see props/C09.json, trusted_base). *)
From Coq Require Import List Arith ZArith Bool.
Import ListNotations.
From GV Require Import Sched Events.
Local Open Scope Z_scope.

Inductive op := Wait | WaitAndDrop.
Definition opcode (o : op) : Z := match o with Wait => 0 | WaitAndDrop => 1 end.
Definition decode_op (z : list Z) : option op :=
  match z with
  | [0] => Some Wait | [1] => Some WaitAndDrop
  | _ => None
  end.

Inductive pc :=
| Idle
| B_lock (k : op)   (* about to construct the unique_lock *)
| B_notify          (* last arriver: generation bumped, count reset, about to notify_all *)
| B_sleep           (* predicate false, about to release the mutex and sleep *)
| B_woken           (* sleeping: the next step is the wake-up (re-acquires the mutex, evaluates pred) *)
| B_unlock.         (* about to run ~unique_lock and return *)

(* lgen: the local lGen.  Ghost: arr (arrivals made by this thread = decrements of count_ it
   performed), dropped (it has performed the --threshold_ of wait_and_drop), prog0 (its whole
   client program). *)
Record loc := Loc { prog : list op; at_ : pc; lgen : Z; arr : nat; dropped : bool; prog0 : list op }.
(* ghost: wrapped *)
Record glob := Glob { threshold : Z; count : Z; generation : Z;
                      mtx : option nat; sleepers : list nat; wrapped : bool }.

Definition O_MTX := 1. Definition O_CV := 2.

Definition M64 : Z := 18446744073709551616.   (* 2^64 *)
Definition wrap (x : Z) : Z := x mod M64.
Definition dec (x : Z) : Z := if x =? 0 then M64 - 1 else x - 1.   (* --x on std::size_t *)
Definition to_signed (x : Z) : Z := if x <? 9223372036854775808 then x else x - M64.   (* (long)x *)

Definition set_mtx g m := Glob (threshold g) (count g) (generation g) m (sleepers g) (wrapped g).
Definition set_slp g m sl := Glob (threshold g) (count g) (generation g) m sl (wrapped g).
Definition ret_ev : ev := E K_RET 0 0.

(* the predicate of cv.wait: [this, lGen] { return lGen != generation_; } *)
Definition pred (lg : Z) (g : glob) : bool := negb (lg =? generation g).

Definition tstep (t c : nat) (g : glob) (l : loc) : option (glob * loc * list ev) :=
  let goto p := Loc (prog l) p (lgen l) (arr l) (dropped l) (prog0 l) in
  match at_ l with
  | Idle =>
    match prog l with
    | [] => None
    | o :: r => Some (g, Loc r (B_lock o) (lgen l) (arr l) (dropped l) (prog0 l), [E K_INVOKE 0 (opcode o)])
    end
  (* unique_lock lck(mtx); auto lGen = generation_; [--threshold_;] if (--count_ <= 0) { generation_++;
     count_ = threshold_; ...notify } else { ...wait(lck, pred) } *)
  | B_lock k =>
    match mtx g with
    | Some _ => None
    | None =>
      let lg := generation g in
      let th1 := match k with WaitAndDrop => dec (threshold g) | Wait => threshold g end in
      let w1 := match k with WaitAndDrop => threshold g =? 0 | Wait => false end in
      let c1 := dec (count g) in
      let wr := wrapped g || w1 || (count g =? 0) in
      let dr := match k with WaitAndDrop => true | Wait => dropped l end in
      let l' p := Loc (prog l) p lg (S (arr l)) dr (prog0 l) in
      if c1 =? 0   (* `--count_ <= 0` on an unsigned type *)
      then Some (Glob th1 th1 (generation g + 1) (Some t) (sleepers g) wr, l' B_notify, [E K_LOCK O_MTX 0])
      else
        let g' := Glob th1 c1 (generation g) (Some t) (sleepers g) wr in
        Some (g', l' (if pred lg g' then B_unlock else B_sleep), [E K_LOCK O_MTX 0])
    end
  | B_notify => Some (set_slp g (mtx g) [], goto B_unlock, [E K_NOTIFY_ALL O_CV 0])
  | B_sleep => (* cv.wait(lck): atomically release the mutex and enqueue *)
    Some (set_slp g None (t :: sleepers g), goto B_woken, [E K_CV_SLEEP O_CV 0])
  | B_woken => (* enabled when notified, or spuriously (choice 1), and the mutex is free; then pred() *)
    if negb (mem t (sleepers g)) || Nat.eqb c 1 then
      match mtx g with
      | None => Some (set_slp g (Some t) (rem t (sleepers g)),
                      goto (if pred (lgen l) g then B_unlock else B_sleep), [E K_CV_WAKE O_CV 0])
      | Some _ => None
      end
    else None
  | B_unlock => Some (set_mtx g None, goto Idle, [E K_UNLOCK O_MTX 0; ret_ev])
  end.

Definition fin (l : loc) : bool := match at_ l, prog l with Idle, [] => true | _, _ => false end.

Definition init (n : Z) (progs : list (list op)) : sys glob loc :=
  Sys (Glob (wrap n) (wrap n) 0 None [] false) (map (fun p => Loc p Idle 0 0 false p) progs).

(* ---------- client obligation (decidable) ----------
   The participants are exactly the n threads; each performs some Waits, optionally followed by
   one final WaitAndDrop, after which it does nothing more with the barrier. *)
Fixpoint wf_thread (p : list op) : bool :=
  match p with
  | [] => true
  | Wait :: r => wf_thread r
  | WaitAndDrop :: r => match r with [] => true | _ => false end
  end.
Definition wf_prog (n : Z) (progs : list (list op)) : bool :=
  (Z.of_nat (length progs) =? n) && (n <? M64) && forallb wf_thread progs.

(* every participant performs the same number K of generations unless it drops out earlier *)
Definition is_drop (o : op) : bool := match o with WaitAndDrop => true | Wait => false end.
Definition has_drop (p : list op) : bool := existsb is_drop p.
Definition balanced (K : nat) (progs : list (list op)) : bool :=
  forallb (fun p => if has_drop p then Nat.leb (length p) K else Nat.eqb (length p) K) progs.

(* ---------- entry point of the correspondence check ---------- *)
Fixpoint decode_prog (p : list (list Z)) : list op :=
  match p with
  | [] => []
  | z :: r => match decode_op z with Some o => o :: decode_prog r | None => decode_prog r end
  end.

Definition final (s : sys glob loc) : list line :=
  [[-2; to_signed (threshold (gl s)); to_signed (count (gl s)); to_signed (generation (gl s))]].

Definition run_case (cfg : list Z) (progs : list (list (list Z))) (sched : list (Z * Z)) : list line :=
  let n := match cfg with n :: _ => n | [] => 0 end in
  run_case_gen glob loc tstep fin (init n (map decode_prog progs)) sched final.
