(* The mutex-based wrappers of gmlc/libguarded as one parametric pc automaton:
     handles.hpp  guarded.hpp  guarded_opt.hpp  shared_guarded.hpp  shared_guarded_opt.hpp
     ordered_guarded.hpp  atomic_guarded.hpp
   One step per visible operation (mutex operation, payload window edge, user-code call).
   Definitions only (no lemmas): this file is extracted and run against the code
   (harness/wrapper_drv.cpp; the conventions of that driver are repeated below).

   Configuration: flavour, mutex kind, the enableLocking flag of the _opt flavours, the
   initial payload, the payload kind (instrumented vs::WPay / plain long) and the throw plan
   (global indices of user-code invocations that throw).

   Every thread owns NSLOTS handle slots.  A slot is empty or holds a handle object
   {type (lock_handle / shared_lock_handle); data != nullptr; lock object owns}.
   An acquisition into an occupied slot is `slot = wrapper.lock();` : acquire first, then
   move-assign over the old handle (releasing the lock the old handle owned).
   Handles alive at the end of a thread's program are not destroyed by the model (nor by the
   thread in the driver): programs that want them released say Destroy explicitly.

   "Not expressible" operations (refused by the driver, result -1, no effect): a method the
   (flavour, mutex kind) instantiation does not have; a slot index >= NSLOTS; Unlock / Destroy /
   Bool / Use / Move* naming an empty slot; Move* with src = dst; MoveAssign between handles of
   different types; Use incr / write through a shared (const) handle.
   Use through a null handle is a null dereference: K_FAULT 0 9 (with guard: skipped, -2). *)
From Coq Require Import List Arith ZArith Bool.
Import ListNotations.
From GV Require Import Sched Events.
Local Open Scope Z_scope.

(* ---------- configuration ---------- *)
Inductive flavour := FGuarded | FGuardedOpt | FShared | FSharedOpt | FOrdered | FAtomic.
Inductive mkind := MPlain | MTimed | MShared | MSharedTimed.
(* plain: the wrapped type is a plain `long` (trivially copyable, no user code in copy / assignment): its
   accesses are not visible operations - no window events, no K_CALL 900 / 901 *)
Record config := Cfg { flav : flavour; mk : mkind; en : bool; init_val : Z; throws : list nat; plain : bool }.

Definition is_opt (f : flavour) : bool := match f with FGuardedOpt | FSharedOpt => true | _ => false end.
(* handles really lock: every flavour except an _opt one constructed with enableLocking = false *)
Definition locking (cf : config) : bool := negb (is_opt (flav cf)) || en cf.
Definition shcap (cf : config) : bool := match mk cf with MShared | MSharedTimed => true | _ => false end.
Definition timedcap (cf : config) : bool := match mk cf with MTimed | MSharedTimed => true | _ => false end.
Definition has_x (f : flavour) : bool := match f with FGuarded | FGuardedOpt | FShared | FSharedOpt => true | _ => false end.
Definition has_s (f : flavour) : bool := match f with FShared | FSharedOpt | FOrdered => true | _ => false end.
Definition has_const (f : flavour) : bool := match f with FShared | FSharedOpt => true | _ => false end.
Definition has_ls (f : flavour) : bool := match f with FGuarded | FGuardedOpt | FOrdered | FAtomic => true | _ => false end.
Definition has_fn (f : flavour) : bool := match f with FOrdered => true | _ => false end.
Definition has_xc (f : flavour) : bool := match f with FAtomic => true | _ => false end.
Definition has_cast (f : flavour) : bool := match f with FOrdered | FAtomic => true | _ => false end.

(* ---------- client operations ---------- *)
Inductive amode := ABlock | ATry | ATimed.
Inductive access := ARead | AIncr | AWrite (v : Z).
Inductive op :=
| Lock (h : nat) | TryLock (h : nat) | TryLockFor (h : nat) | TryLockUntil (h : nat)
| LockShared (h : nat) | TryLockShared (h : nat) | TryLockSharedFor (h : nat) | TryLockSharedUntil (h : nat)
| ConstLock (h : nat)
| Unlock (h : nat) | Destroy (h : nat) | MoveCtor (src dst : nat) | MoveAssign (src dst : nat)
| Use (h : nat) (a : access) (guard : bool) | BoolOp (h : nat)
| Load | Store (v : Z) | Assign (v : Z) | Modify (fid : Z) | ReadF (fid : Z)
| Exchange (v : Z) | Cas (e d : Z) | Cast
| Bad (code : Z).

Definition opcode (o : op) : Z :=
  match o with
  | Lock _ => 0 | TryLock _ => 1 | TryLockFor _ => 2 | TryLockUntil _ => 3
  | LockShared _ => 4 | TryLockShared _ => 5 | TryLockSharedFor _ => 6 | TryLockSharedUntil _ => 7
  | ConstLock _ => 8 | Unlock _ => 9 | Destroy _ => 10 | MoveCtor _ _ => 11 | MoveAssign _ _ => 12
  | Use _ _ _ => 13 | BoolOp _ => 14 | Load => 15 | Store _ => 16 | Assign _ => 17
  | Modify _ => 18 | ReadF _ => 19 | Exchange _ => 20 | Cas _ _ => 21 | Cast => 22
  | Bad c => c
  end.

(* handle acquisitions: (slot, blocking / try / timed, shared_lock_handle?) and availability *)
Definition acq_of (cf : config) (o : op) : option (nat * amode * bool) :=
  let f := flav cf in
  match o with
  | Lock h => if has_x f then Some (h, ABlock, false) else None
  | TryLock h => if has_x f then Some (h, ATry, false) else None
  | TryLockFor h | TryLockUntil h => if has_x f && timedcap cf then Some (h, ATimed, false) else None
  | LockShared h => if has_s f then Some (h, ABlock, true) else None
  | TryLockShared h => if has_s f then Some (h, ATry, true) else None
  | TryLockSharedFor h | TryLockSharedUntil h => if has_s f && timedcap cf then Some (h, ATimed, true) else None
  | ConstLock h => if has_const f then Some (h, ABlock, true) else None
  | _ => None
  end.

(* ---------- micro-instructions executed under a guard / through a handle ---------- *)
Inductive target := Obj | Priv (base : Z).     (* the wrapped object / a thread-private temporary *)
Inductive source := Const (v : Z) | Reg.
Inductive mi :=
| MCall (fid : Z) (snap : bool)    (* user code; snap: the caller then reads the object's value silently (VPay move) *)
| MRead                            (* read window on the wrapped object: 2 phases; result in the register *)
| MWrite (tg : target) (s : source)(* write window: 2 phases *)
| MIncr                            (* read window then write window of value+1 on the wrapped object: 4 phases *)
| MReadE (e d : Z).                (* compare_exchange: read window on `expected`, then the branch *)

Definition FID_ASSIGN := 900. Definition FID_COPY := 901.
Definition P_XCHG := 100. Definition P_EXP := 200.   (* object ids of the temporaries of thread t: base + t *)

(* whole-object operations: is the guard a shared-type lock (shared_locker), and the body *)
Definition wop_code (cf : config) (o : op) : option (bool * list mi) :=
  let f := flav cf in
  let pl := plain cf in
  match o with
  | Load => if has_ls f then Some (match f with FOrdered => true | _ => false end,
                                   if pl then [MRead] else [MCall FID_COPY false; MRead]) else None
  | Cast => if has_cast f then Some (false, if pl then [MRead] else [MCall FID_COPY false; MRead]) else None
  | Store v | Assign v =>
    if has_ls f then Some (false, if pl then [MWrite Obj (Const v)] else [MCall FID_ASSIGN false; MWrite Obj (Const v)]) else None
  | Modify fid => if has_fn f then Some (false, [MCall fid false; MIncr]) else None
  | ReadF fid => if has_fn f then Some (true, [MCall fid false; MRead]) else None
  | Exchange v => if has_xc f then
      Some (false, if pl then [MRead; MWrite Obj (Const v)]
                   else [MCall FID_ASSIGN true; MWrite (Priv P_XCHG) Reg; MCall FID_ASSIGN false; MWrite Obj (Const v)]) else None
  | Cas e d => if has_xc f then Some (false, [MRead; MReadE e d]) else None
  | _ => None
  end.
Definition cas_branch (ok : bool) (d : Z) : list mi :=
  if ok then [MCall FID_ASSIGN false; MWrite Obj (Const d)]
  else [MCall FID_ASSIGN false; MRead; MWrite (Priv P_EXP) Reg].
Definition cas_branch_plain (ok : bool) (d : Z) : list mi :=
  if ok then [MWrite Obj (Const d)] else [MRead].
Definition wop_ret (o : op) (r : Z) (ok : bool) : Z :=
  match o with
  | Load | Cast | Exchange _ => r
  | Modify fid => if Z.odd fid then r + 1 else 0
  | ReadF fid => if Z.odd fid then r else 0
  | Cas _ _ => 2 * r + (if ok then 1 else 0)
  | _ => 0
  end.
Definition use_code (a : access) : list mi :=
  match a with ARead => [MRead] | AIncr => [MIncr] | AWrite v => [MWrite Obj (Const v)] end.
Definition use_ret (a : access) (r : Z) : Z := match a with ARead => r | AIncr => r + 1 | AWrite _ => 0 end.

(* ---------- state ---------- *)
(* hid (ghost): number of the acquisition this handle's lock object owns *)
Record handle := H { hsh : bool; hnn : bool; hown : bool; hid : nat }.
Inductive relk := RUnlock (h : nat) | RDestroy (h : nat) | RMove (src dst : nat).
Inductive frame := FGuard (o : op) (gid : nat) | FUse (a : access).
Inductive pc :=
| Idle
| HAcq (h : nat) (am : amode) (sh : bool)   (* inside the lock-object constructor of a handle acquisition *)
| HRelOld (h : nat) (new : handle)          (* new handle built; move-assignment releases the lock of the old handle in slot h *)
| HRel (k : relk)                           (* unlock() / destructor / move-assignment target: releases an owned lock *)
| GAcq (o : op)                             (* whole-object operation: taking the guard *)
| Run (fr : frame) (code : list mi) (ph : nat) (r : Z) (ok : bool)
| GRel (o : op) (gid : nat) (rv : Z) (exn : bool).  (* guard destructor, then return rv / propagate the exception *)

Definition NSLOTS : nat := 3.
Record loc := Loc { prog : list op; at_ : pc; slots : list (option handle) }.
Record glob := Glob {
  owner : option nat; sharers : list nat;          (* the wrapper's mutex *)
  val : Z; readers : nat; dirty : bool;            (* the wrapped object (vs::VPay) *)
  calls : nat;                                     (* user-code invocations so far (index into the throw plan) *)
  faults : nat;                                    (* = vs::plan().faults *)
  (* ghost *)
  nacq : nat;                                      (* acquisitions so far; the k-th gets id k *)
  released : list nat;                             (* ids of acquisitions, in order of release *)
  misuse : nat;                                    (* accesses through a non-null handle that owns nothing, locking enabled *)
  incrs : nat;                                     (* completed read-increment-write sequences *)
  owrites : nat;                                   (* other completed writes of the wrapped object *)
  nderef : nat                                     (* null-handle dereferences *)
}.

Definition O_MTX := 1. Definition O_OBJ := 2.

Definition set_mutex g o s := Glob o s (val g) (readers g) (dirty g) (calls g) (faults g) (nacq g) (released g) (misuse g) (incrs g) (owrites g) (nderef g).
Definition set_obj g v r d fl := Glob (owner g) (sharers g) v r d (calls g) fl (nacq g) (released g) (misuse g) (incrs g) (owrites g) (nderef g).
Definition set_calls g n := Glob (owner g) (sharers g) (val g) (readers g) (dirty g) n (faults g) (nacq g) (released g) (misuse g) (incrs g) (owrites g) (nderef g).
Definition set_nacq g n := Glob (owner g) (sharers g) (val g) (readers g) (dirty g) (calls g) (faults g) n (released g) (misuse g) (incrs g) (owrites g) (nderef g).
Definition add_released g i := Glob (owner g) (sharers g) (val g) (readers g) (dirty g) (calls g) (faults g) (nacq g) (i :: released g) (misuse g) (incrs g) (owrites g) (nderef g).
Definition add_misuse g := Glob (owner g) (sharers g) (val g) (readers g) (dirty g) (calls g) (faults g) (nacq g) (released g) (S (misuse g)) (incrs g) (owrites g) (nderef g).
Definition add_incr g := Glob (owner g) (sharers g) (val g) (readers g) (dirty g) (calls g) (faults g) (nacq g) (released g) (misuse g) (S (incrs g)) (owrites g) (nderef g).
Definition add_owrite g := Glob (owner g) (sharers g) (val g) (readers g) (dirty g) (calls g) (faults g) (nacq g) (released g) (misuse g) (incrs g) (S (owrites g)) (nderef g).
Definition add_nderef g := Glob (owner g) (sharers g) (val g) (readers g) (dirty g) (calls g) (S (faults g)) (nacq g) (released g) (misuse g) (incrs g) (owrites g) (S (nderef g)).

(* ---------- the mutex (harness/vstd.hpp: mutex, timed_mutex, shared_mutex, shared_timed_mutex) ---------- *)
Definition free_x (g : glob) : bool := match owner g, sharers g with None, [] => true | _, _ => false end.
Definition free_s (g : glob) : bool := match owner g with None => true | Some _ => false end.
Definition obtainable (sm : bool) (g : glob) : bool := if sm then free_s g else free_x g.
Fixpoint remove1 (t : nat) (l : list nat) : list nat :=
  match l with [] => [] | x :: r => if Nat.eqb t x then r else x :: remove1 t r end.
Definition take (sm : bool) (t : nat) (g : glob) : glob :=
  if sm then set_mutex g (owner g) (sharers g ++ [t]) else set_mutex g (Some t) (sharers g).
Definition drop (sm : bool) (t : nat) (g : glob) : glob :=
  if sm then set_mutex g (owner g) (remove1 t (sharers g)) else set_mutex g None (sharers g).
Definition k_acq (am : amode) (sm : bool) : Z :=
  match am, sm with
  | ABlock, false => K_LOCK | ATry, false => K_TRYLOCK | ATimed, false => K_TRYLOCK_FOR
  | ABlock, true => K_LOCK_SH | ATry, true => K_TRYLOCK_SH | ATimed, true => K_TRYLOCK_SH_FOR
  end.
Definition k_rel (sm : bool) : Z := if sm then K_UNLOCK_SH else K_UNLOCK.
Definition b2z (b : bool) : Z := if b then 1 else 0.

(* one acquisition attempt by thread t under choice c: None = not enabled;
   Some (g', ok, event): ok = the lock object owns; a successful one gets the next acquisition id *)
Definition acquire (am : amode) (sm : bool) (t c : nat) (g : glob) : option (glob * bool * ev) :=
  let can := obtainable sm g in
  let got := set_nacq (take sm t g) (S (nacq g)) in
  match am with
  | ABlock => if can then Some (got, true, E (k_acq am sm) O_MTX 0) else None
  | ATry => Some (if can then got else g, can, E (k_acq am sm) O_MTX (b2z can))
  | ATimed => if can || Nat.eqb c 2 then Some (if can then got else g, can, E (k_acq am sm) O_MTX (b2z can)) else None
  end.
(* release of acquisition i, held in actual mode sm *)
Definition release (sm : bool) (t i : nat) (g : glob) : glob * ev :=
  (add_released (drop sm t g) i, E (k_rel sm) O_MTX 0).

(* ---------- slots ---------- *)
Definition slot (sl : list (option handle)) (h : nat) : option handle :=
  match nth_error sl h with Some x => x | None => None end.
Definition in_range (h : nat) : bool := Nat.ltb h NSLOTS.
Definition disown (x : handle) : handle := H (hsh x) (hnn x) false 0.
Definition nulled (x : handle) : handle := H (hsh x) false false 0.
Definition do_move (sl : list (option handle)) (src dst : nat) : list (option handle) :=
  match slot sl src with
  | Some x => upd (upd sl dst (Some x)) src (Some (disown x))
  | None => sl
  end.
Definition after_rel (k : relk) (sl : list (option handle)) : list (option handle) :=
  match k with
  | RUnlock h => match slot sl h with Some x => upd sl h (Some (nulled x)) | None => sl end
  | RDestroy h => upd sl h None
  | RMove src dst => do_move sl src dst
  end.
Definition rel_slot (k : relk) : nat := match k with RUnlock h | RDestroy h => h | RMove _ dst => dst end.

Definition ret_ev (v : Z) : ev := E K_RET 0 v.
Definition inv_ev (o : op) : ev := E K_INVOKE 0 (opcode o).
Definition catch_ev : ev := E K_CATCH 0 0.
Definition fault_ev (o code : Z) : ev := E K_FAULT o code.

(* ---------- windows on the wrapped object (harness/vpay.hpp) ---------- *)
Definition rd_begin (g : glob) : glob * list ev :=
  let f := if dirty g then 1%nat else 0%nat in
  (set_obj g (val g) (S (readers g)) (dirty g) (faults g + f),
   (if dirty g then [fault_ev O_OBJ 2] else []) ++ [E K_RD_BEGIN O_OBJ 0]).
Definition rd_end (g : glob) : glob * list ev :=
  let f := if dirty g then 1%nat else 0%nat in
  (set_obj g (val g) (pred (readers g)) (dirty g) (faults g + f),
   (if dirty g then [fault_ev O_OBJ 4] else []) ++ [E K_RD_END O_OBJ (val g)]).
Definition wr_begin (g : glob) : glob * list ev :=
  let f1 := if Nat.ltb 0 (readers g) then 1%nat else 0%nat in
  let f3 := if dirty g then 1%nat else 0%nat in
  (set_obj g (val g) (readers g) true (faults g + f1 + f3),
   (if Nat.ltb 0 (readers g) then [fault_ev O_OBJ 1] else []) ++ (if dirty g then [fault_ev O_OBJ 3] else []) ++ [E K_WR_BEGIN O_OBJ 0]).
Definition wr_end (g : glob) (x : Z) : glob * list ev :=
  (set_obj g x (readers g) false (faults g), [E K_WR_END O_OBJ x]).

(* result of one phase of the head instruction *)
Record mres := MRes {
  m_g : glob; m_ev : list ev; m_r : Z; m_ok : bool;
  m_done : bool;                 (* the instruction is complete *)
  m_thrown : bool;               (* user code threw *)
  m_rest : option (list mi)      (* replacement of the remaining code (compare_exchange's branch) *)
}.
Definition exec_mi (cf : config) (t : nat) (i : mi) (ph : nat) (r : Z) (ok : bool) (g : glob) : mres :=
  match i with
  | MCall fid snap =>
    let k := calls g in
    let g1 := set_calls g (S k) in
    if existsb (Nat.eqb k) (throws cf)
    then MRes g1 [E K_CALL 0 fid; E K_THROW 0 (Z.of_nat k)] r ok true true None
    else MRes g1 [E K_CALL 0 fid] (if snap then val g else r) ok true false None
  | MRead =>
    match ph with
    | O => let (g1, es) := rd_begin g in MRes g1 es r ok false false None
    | _ => let (g1, es) := rd_end g in MRes g1 es (val g) ok true false None
    end
  | MWrite Obj s =>
    let x := match s with Const v => v | Reg => r end in
    match ph with
    | O => let (g1, es) := wr_begin g in MRes g1 es r ok false false None
    | _ => let (g1, es) := wr_end g x in MRes (add_owrite g1) es r ok true false None
    end
  | MWrite (Priv b) s =>
    let x := match s with Const v => v | Reg => r end in
    let o := b + Z.of_nat t in
    match ph with
    | O => MRes g [E K_WR_BEGIN o 0] r ok false false None
    | _ => MRes g [E K_WR_END o x] r ok true false None
    end
  | MIncr =>
    match ph with
    | 0%nat => let (g1, es) := rd_begin g in MRes g1 es r ok false false None
    | 1%nat => let (g1, es) := rd_end g in MRes g1 es (val g) ok false false None
    | 2%nat => let (g1, es) := wr_begin g in MRes g1 es r ok false false None
    | _ => let (g1, es) := wr_end g (r + 1) in MRes (add_incr g1) es r ok true false None
    end
  | MReadE e d =>
    let o := P_EXP + Z.of_nat t in
    match ph with
    | O => MRes g [E K_RD_BEGIN o 0] r ok false false None
    | _ => let okk := Z.eqb r e in MRes g [E K_RD_END o e] r okk true false (Some (if plain cf then cas_branch_plain okk d else cas_branch okk d))
    end
  end.

(* ---------- the step function ---------- *)
(* tstep0: one visible operation of the instrumented payload kind (every window edge is a step) *)
Definition tstep0 (cf : config) (t c : nat) (g : glob) (l : loc) : option (glob * loc * list ev) :=
  let goto p := Loc (prog l) p (slots l) in
  let sl := slots l in
  match at_ l with
  | Idle =>
    match prog l with
    | [] => None
    | o :: rest =>
      let stay slots' evs := Some (g, Loc rest Idle slots', inv_ev o :: evs) in
      let refuse := stay sl [ret_ev (-1)] in
      let go p := Some (g, Loc rest p sl, [inv_ev o]) in
      match o with
      | Lock _ | TryLock _ | TryLockFor _ | TryLockUntil _ | LockShared _ | TryLockShared _
      | TryLockSharedFor _ | TryLockSharedUntil _ | ConstLock _ =>
        match acq_of cf o with
        | None => refuse
        | Some (h, am, sh) =>
          if negb (in_range h) then refuse
          else if locking cf then go (HAcq h am sh)
          else (* disabled mode: handle(&m_obj, unique_lock<M>()) - no mutex operation *)
            let new := H sh true false 0 in
            match slot sl h with
            | Some old => if hown old then go (HRelOld h new) else stay (upd sl h (Some new)) [ret_ev 1]
            | None => stay (upd sl h (Some new)) [ret_ev 1]
            end
        end
      | Unlock h =>
        match slot sl h with
        | None => refuse
        | Some x => if hown x then go (HRel (RUnlock h)) else stay (upd sl h (Some (nulled x))) [ret_ev 0]
        end
      | Destroy h =>
        match slot sl h with
        | None => refuse
        | Some x => if hown x then go (HRel (RDestroy h)) else stay (upd sl h None) [ret_ev 0]
        end
      | MoveCtor src dst =>
        if negb (in_range dst) || Nat.eqb src dst then refuse else
        match slot sl src with
        | None => refuse
        | Some _ =>
          match slot sl dst with
          | Some y => if hown y then go (HRel (RMove src dst)) else stay (do_move sl src dst) [ret_ev 0]
          | None => stay (do_move sl src dst) [ret_ev 0]
          end
        end
      | MoveAssign src dst =>
        if Nat.eqb src dst then refuse else
        match slot sl src, slot sl dst with
        | Some x, Some y =>
          if negb (Bool.eqb (hsh x) (hsh y)) then refuse
          else if hown y then go (HRel (RMove src dst)) else stay (do_move sl src dst) [ret_ev 0]
        | _, _ => refuse
        end
      | Use h a guard =>
        match slot sl h with
        | None => refuse
        | Some x =>
          if hsh x && negb (match a with ARead => true | _ => false end) then refuse
          else if negb (hnn x) then
            if guard then stay sl [ret_ev (-2)]
            else Some (add_nderef g, Loc rest Idle sl, [inv_ev o; fault_ev 0 9; ret_ev (-1)])
          else
            let g1 := if locking cf && negb (hown x) then add_misuse g else g in
            Some (g1, Loc rest (Run (FUse a) (use_code a) 0 0 false) sl, [inv_ev o])
        end
      | BoolOp h =>
        match slot sl h with
        | None => refuse
        | Some x => stay sl [ret_ev (b2z (hnn x))]
        end
      | Load | Store _ | Assign _ | Modify _ | ReadF _ | Exchange _ | Cas _ _ | Cast =>
        match wop_code cf o with
        | None => refuse
        | Some _ => go (GAcq o)
        end
      | Bad _ => refuse
      end
    end
  (* lock_handle(val, M&) / try_lock_handle* : the unique_lock / shared_lock constructor *)
  | HAcq h am sh =>
    let sm := sh && shcap cf in
    match acquire am sm t c g with
    | None => None
    | Some (g1, okk, e) =>
      let new := H sh okk okk (if okk then nacq g1 else 0%nat) in
      match slot sl h with
      | Some old =>
        if hown old then Some (g1, goto (HRelOld h new), [e])
        else Some (g1, Loc (prog l) Idle (upd sl h (Some new)), [e; ret_ev (b2z okk)])
      | None => Some (g1, Loc (prog l) Idle (upd sl h (Some new)), [e; ret_ev (b2z okk)])
      end
    end
  | HRelOld h new =>
    match slot sl h with
    | Some old =>
      let (g1, e) := release (hsh old && shcap cf) t (hid old) g in
      Some (g1, Loc (prog l) Idle (upd sl h (Some new)), [e; ret_ev (b2z (hnn new))])
    | None => None
    end
  | HRel k =>
    match slot sl (rel_slot k) with
    | Some old =>
      let (g1, e) := release (hsh old && shcap cf) t (hid old) g in
      Some (g1, Loc (prog l) Idle (after_rel k sl), [e; ret_ev 0])
    | None => None
    end
  (* lock_guard<M> glock(m_mutex) / shared_handle::lock_type glock(m_mutex) / lock_shared() in ordered load *)
  | GAcq o =>
    match wop_code cf o with
    | None => None
    | Some (gsh, code) =>
      match acquire ABlock (gsh && shcap cf) t c g with
      | None => None
      | Some (g1, _, e) => Some (g1, goto (Run (FGuard o (nacq g1)) code 0 0 false), [e])
      end
    end
  | Run fr code ph r ok =>
    match code with
    | [] => None
    | i :: rest =>
      let m := exec_mi cf t i ph r ok g in
      if m_thrown m then
        match fr with
        | FGuard o gid => Some (m_g m, goto (GRel o gid 0 true), m_ev m)
        | FUse _ => Some (m_g m, goto Idle, m_ev m ++ [catch_ev])
        end
      else if negb (m_done m) then Some (m_g m, goto (Run fr code (S ph) (m_r m) (m_ok m)), m_ev m)
      else
        let rest' := match m_rest m with Some c' => c' | None => rest end in
        match rest' with
        | _ :: _ => Some (m_g m, goto (Run fr rest' 0 (m_r m) (m_ok m)), m_ev m)
        | [] =>
          match fr with
          | FGuard o gid => Some (m_g m, goto (GRel o gid (wop_ret o (m_r m) (m_ok m)) false), m_ev m)
          | FUse a => Some (m_g m, goto Idle, m_ev m ++ [ret_ev (use_ret a (m_r m))])
          end
        end
    end
  | GRel o gid rv exn =>
    match wop_code cf o with
    | None => None
    | Some (gsh, _) =>
      let (g1, e) := release (gsh && shcap cf) t gid g in
      Some (g1, goto Idle, [e; if exn then catch_ev else ret_ev rv])
    end
  end.

(* The plain payload kind: the accesses of the wrapped object are not visible operations, so the code between
   two visible operations runs in the step of the first one.  A step of the plain kind is a step of tstep0
   followed by the (window) steps of the same thread up to its next visible operation - a user-code call, the
   release of the guard, or the end of the operation; the window events of those steps are not emitted. *)
Definition silent_pc (p : pc) : bool :=
  match p with
  | Run _ (MCall _ _ :: _) _ _ _ => false
  | Run _ _ _ _ _ => true
  | _ => false
  end.
Definition vis_ev (e : ev) : bool :=
  negb ((ek e =? K_RD_BEGIN) || (ek e =? K_RD_END) || (ek e =? K_WR_BEGIN) || (ek e =? K_WR_END)).
Fixpoint settle (cf : config) (t : nat) (fuel : nat) (g : glob) (l : loc) (es : list ev) : glob * loc * list ev :=
  match fuel with
  | O => (g, l, es)
  | S f =>
    if silent_pc (at_ l) then
      match tstep0 cf t 0 g l with
      | Some (g', l', es') => settle cf t f g' l' (es ++ filter vis_ev es')
      | None => (g, l, es)
      end
    else (g, l, es)
  end.
Definition SETTLE_FUEL : nat := 24.
Definition tstep (cf : config) (t c : nat) (g : glob) (l : loc) : option (glob * loc * list ev) :=
  match tstep0 cf t c g l with
  | None => None
  | Some (g1, l1, es) => if plain cf then Some (settle cf t SETTLE_FUEL g1 l1 es) else Some (g1, l1, es)
  end.

Definition fin (l : loc) : bool := match at_ l, prog l with Idle, [] => true | _, _ => false end.

Definition init (cf : config) (progs : list (list op)) : sys glob loc :=
  Sys (Glob None [] (init_val cf) 0 false 0 0 0 [] 0 0 0 0)
      (map (fun p => Loc p Idle (repeat None NSLOTS)) progs).

(* ---------- entry point of the correspondence check ---------- *)
Definition zn (z : Z) : nat := Z.to_nat z.
Definition decode_op (z : list Z) : option op :=
  match z with
  | [] => None
  | c :: a =>
    let a1 := nth 0 a 0 in let a2 := nth 1 a 0 in let a3 := nth 2 a 0 in let a4 := nth 3 a 0 in
    (* a negative slot index is out of range: map it to NSLOTS *)
    let h := if a1 <? 0 then NSLOTS else zn a1 in
    let h2 := if a2 <? 0 then NSLOTS else zn a2 in
    Some (
    if c =? 0 then Lock h else if c =? 1 then TryLock h else if c =? 2 then TryLockFor h else if c =? 3 then TryLockUntil h
    else if c =? 4 then LockShared h else if c =? 5 then TryLockShared h else if c =? 6 then TryLockSharedFor h
    else if c =? 7 then TryLockSharedUntil h else if c =? 8 then ConstLock h else if c =? 9 then Unlock h
    else if c =? 10 then Destroy h else if c =? 11 then MoveCtor h h2 else if c =? 12 then MoveAssign h h2
    else if c =? 13 then
      (if a2 =? 0 then Use h ARead (negb (a4 =? 0)) else if a2 =? 1 then Use h AIncr (negb (a4 =? 0))
       else if a2 =? 2 then Use h (AWrite a3) (negb (a4 =? 0)) else Bad c)
    else if c =? 14 then BoolOp h else if c =? 15 then Load else if c =? 16 then Store a1 else if c =? 17 then Assign a1
    else if c =? 18 then Modify a1 else if c =? 19 then ReadF a1 else if c =? 20 then Exchange a1
    else if c =? 21 then Cas a1 a2 else if c =? 22 then Cast else Bad c)
  end.
Fixpoint decode_prog (p : list (list Z)) : list op :=
  match p with
  | [] => []
  | z :: r => match decode_op z with Some o => o :: decode_prog r | None => decode_prog r end
  end.
Definition decode_cfg (c : list Z) : config :=
  let f := nth 0 c 0 in let k := nth 1 c 0 in
  Cfg (if f =? 0 then FGuarded else if f =? 1 then FGuardedOpt else if f =? 2 then FShared
       else if f =? 3 then FSharedOpt else if f =? 4 then FOrdered else FAtomic)
      (if k =? 0 then MPlain else if k =? 1 then MTimed else if k =? 2 then MShared else MSharedTimed)
      (negb (nth 2 c 0 =? 0)) (nth 3 c 0) (map zn (skipn 5 c)) (negb (nth 4 c 0 =? 0)).

Definition final (s : sys glob loc) : list line :=
  let g := gl s in
  [[-2; val g; match owner g with Some a => Z.of_nat a | None => -1 end; Z.of_nat (length (sharers g));
    Z.of_nat (faults g); Z.of_nat (calls g)]].

Definition run_case (cfg : list Z) (progs : list (list (list Z))) (sched : list (Z * Z)) : list line :=
  let cf := decode_cfg cfg in
  run_case_gen glob loc (tstep cf) fin (init cf (map decode_prog progs)) sched final.
