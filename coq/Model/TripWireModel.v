(* gmlc/concurrency/TripWire.hpp as a pc automaton: one step per visible operation
   (the atomic<bool> store of ~TripWireTrigger, the load of isTripped, the window
   edges of the harness-side data).  shared_ptr operations are not visible.
   Definitions only (no lemmas): this file is extracted and run against the code.

   One step function serves two semantics, selected by [views P]:
     views = false  interleaving / sequentially consistent: a load reads the newest
                    message.  This is the instance extracted and compared with the code;
                    the events carry the memory-order argument of both sites.
     views = true   Views semantics (Common/Views.v): a load reads any
                    coherence-allowed message, chosen by the schedule's choice.
   The vector clocks, message histories and FastTrack epochs are maintained in both;
   they are ghost in the first (never read by control flow, never in events).

   [unfixed P = true] selects the destructor as it was before repair 58ffa14
   (`lineTrigger->store(...)` without the null test). *)
From Coq Require Import List Arith ZArith Bool.
Import ListNotations.
From GV Require Import Sched Events Views.
Local Open Scope Z_scope.

(* the memory orders of the two atomic sites, TripWire.hpp:101 and :80 *)
Definition tw_store_mo : mo := Release.
Definition tw_load_mo : mo := Acquire.

Record params := Params {
  unfixed : bool; views : bool; st_mo : mo; ld_mo : mo;
  nidx : nat;     (* COUNT of DECLARE_INDEXED_TRIPLINES *)
  nexp : nat;     (* explicit lines made with make_tripline / make_triplines *)
  ndata : nat;    (* harness-side non-atomic data *)
  nthr : nat }.

(* line numbering: 0 = the declared line, 1..nidx = indexed lines, then the explicit ones *)
Definition line_decl : nat := 0%nat.
Definition line_idx (i : nat) : nat := S i.
Definition line_exp (P : params) (l : nat) : nat := (S (nidx P) + l)%nat.
Definition nlines (P : params) : nat := (S (nidx P) + nexp P)%nat.

(* slots: s, d = per-thread slot numbers (triggers and detectors have separate tables) *)
Inductive op :=
| MkTrigE (s l : nat) | MkTrigD (s : nat) | MkTrigI (s i : nat)
| MoveCtor (s d : nat) | MoveAssign (s d : nat) | Destroy (s : nat)
| MkDetE (s l : nat) | MkDetD (s : nat) | MkDetI (s i : nat)
| IsTripped (s : nat)
| WriteData (d : nat) (v : Z) | ReadData (d : nat)
| PollRead (s d : nat)    (* if (det[s].isTripped()) return data[d].read(); else return -1; *)
| ReleaseLine (l : nat)   (* the harness drops its own reference to explicit line l; the line lives on in the
                             triggers / detectors that hold it; later Make operations on it are refused *)
(* detectors in a table shared by all threads: created by one thread, polled by any *)
| MkSDetE (s l : nat) | MkSDetD (s : nat) | MkSDetI (s i : nat)
| SIsTripped (s : nat) | SPollRead (s d : nat).

Definition opcode (o : op) : Z :=
  match o with
  | MkTrigE _ _ => 0 | MkTrigD _ => 1 | MkTrigI _ _ => 2 | MoveCtor _ _ => 3 | MoveAssign _ _ => 4
  | Destroy _ => 5 | MkDetE _ _ => 6 | MkDetD _ => 7 | MkDetI _ _ => 8 | IsTripped _ => 9
  | WriteData _ _ => 10 | ReadData _ => 11 | PollRead _ _ => 12 | ReleaseLine _ => 13
  | MkSDetE _ _ => 14 | MkSDetD _ => 15 | MkSDetI _ _ => 16 | SIsTripped _ => 17 | SPollRead _ _ => 18
  end.

Definition nn (z : Z) : bool := 0 <=? z.
Definition decode_op (z : list Z) : option op :=
  match z with
  | [0; s; l] => if nn s && nn l then Some (MkTrigE (Z.to_nat s) (Z.to_nat l)) else None
  | [1; s] => if nn s then Some (MkTrigD (Z.to_nat s)) else None
  | [2; s; i] => if nn s && nn i then Some (MkTrigI (Z.to_nat s) (Z.to_nat i)) else None
  | [3; s; d] => if nn s && nn d then Some (MoveCtor (Z.to_nat s) (Z.to_nat d)) else None
  | [4; s; d] => if nn s && nn d then Some (MoveAssign (Z.to_nat s) (Z.to_nat d)) else None
  | [5; s] => if nn s then Some (Destroy (Z.to_nat s)) else None
  | [6; s; l] => if nn s && nn l then Some (MkDetE (Z.to_nat s) (Z.to_nat l)) else None
  | [7; s] => if nn s then Some (MkDetD (Z.to_nat s)) else None
  | [8; s; i] => if nn s && nn i then Some (MkDetI (Z.to_nat s) (Z.to_nat i)) else None
  | [9; s] => if nn s then Some (IsTripped (Z.to_nat s)) else None
  | [10; d; v] => if nn d then Some (WriteData (Z.to_nat d) v) else None
  | [11; d] => if nn d then Some (ReadData (Z.to_nat d)) else None
  | [12; s; d] => if nn s && nn d then Some (PollRead (Z.to_nat s) (Z.to_nat d)) else None
  | [13; l] => if nn l then Some (ReleaseLine (Z.to_nat l)) else None
  | [14; s; l] => if nn s && nn l then Some (MkSDetE (Z.to_nat s) (Z.to_nat l)) else None
  | [15; s] => if nn s then Some (MkSDetD (Z.to_nat s)) else None
  | [16; s; i] => if nn s && nn i then Some (MkSDetI (Z.to_nat s) (Z.to_nat i)) else None
  | [17; s] => if nn s then Some (SIsTripped (Z.to_nat s)) else None
  | [18; s; d] => if nn s && nn d then Some (SPollRead (Z.to_nat s) (Z.to_nat d)) else None
  | _ => None
  end.

Inductive pc :=
| Idle
| P_store (l : nat)                    (* ~TripWireTrigger: lineTrigger->store(true, st_mo) *)
| P_load (l : nat) (k : option nat)    (* isTripped: lineDetector->load(ld_mo); k = Some d: PollRead goes on to read d *)
| P_wbeg (d : nat) (v : Z) | P_wend (d : nat) (v : Z)
| P_rbeg (d : nat) | P_rend (d : nat).

(* a trigger slot: None = no object; Some None = an object whose lineTrigger is null
   (moved-from); Some (Some l) = attached to line l *)
Record loc := Loc { prog : list op; at_ : pc; trg : nat -> option (option nat); det : nat -> option nat }.

(* a harness-side datum (vs::VPay): value, open read windows, write window open, FastTrack epochs *)
Record cell := Cell { cval : Z; crd : nat; cdirty : bool; cft : ft }.

Record glob := Glob {
  hs : nat -> hist;               (* message history of every line *)
  clk : nat -> vc;                (* per-thread vector clock *)
  seen : nat -> nat -> nat;       (* thread -> line -> newest time stamp read or written *)
  cells : nat -> cell;
  destroyed : nat -> nat;         (* ghost: per line, destructions of a trigger attached to it *)
  gnull : bool;                   (* fault: null shared_ptr dereferenced *)
  gwin : bool;                    (* fault: overlapping access windows on a datum *)
  grace : nat -> bool;            (* fault, per datum: data race (vector clocks) *)
  released : nat -> bool;         (* explicit line l: the harness has dropped its reference *)
  sdet : nat -> option nat }.     (* shared detector table: slot -> line *)

Definition faulted (nd : nat) (g : glob) : bool := gnull g || gwin g || existsb (grace g) (seq 0 nd).

Definition lobj (l : nat) : Z := Z.of_nat l + 1.
Definition dobj (d : nat) : Z := Z.of_nat d + 1000.
Definition ret (v : Z) : ev := E K_RET 0 v.
Definition inv_ev (o : op) : ev := E K_INVOKE 0 (opcode o).
Definition fault_ev (o c : Z) : ev := E K_FAULT o c.

(* ---------- the memory operations ---------- *)
Definition do_store (P : params) (t l : nat) (g : glob) : glob :=
  let c := clk g t in
  let h := hs g l in
  Glob (fupd (hs g) l (store_msg (st_mo P) t c 1 :: h)) (fupd (clk g) t (vinc c t))
       (fupd (seen g) t (fupd (seen g t) l (Nat.max (seen g t l) (S (length h))))) (cells g) (destroyed g) (gnull g) (gwin g) (grace g) (released g) (sdet g).

Definition load_idx (P : params) (t ch l : nat) (g : glob) : nat :=
  pick (views P) (hs g l) (clk g t) (seen g t l) ch.
Definition load_val (P : params) (t ch l : nat) (g : glob) : Z :=
  read_val 0 (hs g l) (load_idx P t ch l g).
Definition do_load (P : params) (t ch l : nat) (g : glob) : glob :=
  let i := load_idx P t ch l g in
  let h := hs g l in
  Glob (hs g) (fupd (clk g) t (read_clock (ld_mo P) h i (clk g t)))
       (fupd (seen g) t (fupd (seen g t) l (Nat.max (seen g t l) (read_stamp h i))))
       (cells g) (destroyed g) (gnull g) (gwin g) (grace g) (released g) (sdet g).

Definition set_cell (g : glob) (d : nat) (x : cell) (win race : bool) : glob :=
  Glob (hs g) (clk g) (seen g) (fupd (cells g) d x) (destroyed g) (gnull g) (gwin g || win)
       (fupd (grace g) d (grace g d || race)) (released g) (sdet g).

(* vs::VPay::write / read, first half: overlap check (faults 1, 3 / 2), FastTrack check *)
Definition wbeg_faults (x : cell) (d : nat) : list ev :=
  (if (0 <? crd x)%nat then [fault_ev (dobj d) 1] else []) ++ (if cdirty x then [fault_ev (dobj d) 3] else []).
Definition do_wbeg (P : params) (t d : nat) (g : glob) : glob * list ev :=
  let x := cells g d in
  let '(f, ok) := ft_write (nthr P) t (clk g t) (cft x) in
  let fs := wbeg_faults x d in
  (set_cell g d (Cell (cval x) (crd x) true f) (match fs with [] => false | _ => true end) (negb ok),
   fs ++ [E K_WR_BEGIN (dobj d) 0]).
Definition do_wend (d : nat) (v : Z) (g : glob) : glob :=
  let x := cells g d in set_cell g d (Cell v (crd x) false (cft x)) false false.
Definition do_rbeg (t d : nat) (g : glob) : glob * list ev :=
  let x := cells g d in
  let '(f, ok) := ft_read t (clk g t) (cft x) in
  let fs := if cdirty x then [fault_ev (dobj d) 2] else [] in
  (set_cell g d (Cell (cval x) (S (crd x)) (cdirty x) f) (cdirty x) (negb ok), fs ++ [E K_RD_BEGIN (dobj d) 0]).
Definition do_rend (d : nat) (g : glob) : glob * list ev :=
  let x := cells g d in
  let fs := if cdirty x then [fault_ev (dobj d) 4] else [] in
  (set_cell g d (Cell (cval x) (pred (crd x)) (cdirty x) (cft x)) (cdirty x) false,
   fs ++ [E K_RD_END (dobj d) (cval x)]).

Definition bump_destroyed (g : glob) (l : nat) : glob :=
  Glob (hs g) (clk g) (seen g) (cells g) (fupd (destroyed g) l (S (destroyed g l))) (gnull g) (gwin g) (grace g) (released g) (sdet g).
Definition set_null (g : glob) : glob :=
  Glob (hs g) (clk g) (seen g) (cells g) (destroyed g) true (gwin g) (grace g) (released g) (sdet g).
Definition set_released (g : glob) (l : nat) : glob :=
  Glob (hs g) (clk g) (seen g) (cells g) (destroyed g) (gnull g) (gwin g) (grace g) (fupd (released g) l true) (sdet g).
Definition set_sdet (g : glob) (s l : nat) : glob :=
  Glob (hs g) (clk g) (seen g) (cells g) (destroyed g) (gnull g) (gwin g) (grace g) (released g) (fupd (sdet g) s (Some l)).
(* may a new trigger / detector be attached to explicit line l? *)
Definition exp_ok (P : params) (g : glob) (l : nat) : bool := (l <? nexp P)%nat && negb (released g l).

(* ---------- the invoke step of every operation ---------- *)
(* An operation the harness refuses (occupied / empty slot, line or datum number out of
   the configured range, s = d in a move) does not reach the library and returns -1. *)
Definition dispatch (P : params) (g : glob) (lc : loc) (o : op) (r : list op) : glob * loc * list ev :=
  let T := trg lc in
  let D := det lc in
  let done (T' : nat -> option (option nat)) (D' : nat -> option nat) (v : Z) :=
      (g, Loc r Idle T' D', [inv_ev o; ret v]) in
  let bad := done T D (-1) in
  let thrown := (g, Loc r Idle T D, [inv_ev o; E K_CATCH 0 0]) in   (* triplines.at(index) throws *)
  let go (p : pc) := (g, Loc r p T D, [inv_ev o]) in
  match o with
  | MkTrigE s l =>
    match T s with
    | None => if exp_ok P g l then done (fupd T s (Some (Some (line_exp P l)))) D 0 else bad
    | Some _ => bad
    end
  | MkTrigD s =>
    match T s with None => done (fupd T s (Some (Some line_decl))) D 0 | Some _ => bad end
  | MkTrigI s i =>
    match T s with
    | None => if (i <? nidx P)%nat then done (fupd T s (Some (Some (line_idx i)))) D 0 else thrown
    | Some _ => bad
    end
  (* TripWireTrigger b(std::move(a)): defaulted, the shared_ptr is handed over, a's becomes null *)
  | MoveCtor s d =>
    match T s, T d with
    | Some x, None => if (s =? d)%nat then bad else done (fupd (fupd T d (Some x)) s (Some None)) D 0
    | _, _ => bad
    end
  (* b = std::move(a): defaulted; b's old shared_ptr is dropped, its line is NOT tripped *)
  | MoveAssign s d =>
    match T s, T d with
    | Some x, Some _ => if (s =? d)%nat then bad else done (fupd (fupd T d (Some x)) s (Some None)) D 0
    | _, _ => bad
    end
  | Destroy s =>
    match T s with
    | None => bad
    | Some None =>
      if unfixed P
      then (set_null g, Loc r Idle (fupd T s None) D, [inv_ev o; fault_ev 0 1; ret 0])
      else done (fupd T s None) D 0
    | Some (Some l) => (bump_destroyed g l, Loc r (P_store l) (fupd T s None) D, [inv_ev o])
    end
  | MkDetE s l =>
    match D s with
    | None => if exp_ok P g l then done T (fupd D s (Some (line_exp P l))) 0 else bad
    | Some _ => bad
    end
  | MkDetD s =>
    match D s with None => done T (fupd D s (Some line_decl)) 0 | Some _ => bad end
  | MkDetI s i =>
    match D s with
    | None => if (i <? nidx P)%nat then done T (fupd D s (Some (line_idx i))) 0 else thrown
    | Some _ => bad
    end
  | IsTripped s =>
    match D s with Some l => go (P_load l None) | None => bad end
  | WriteData d v => if (d <? ndata P)%nat then go (P_wbeg d v) else bad
  | ReadData d => if (d <? ndata P)%nat then go (P_rbeg d) else bad
  | PollRead s d =>
    match D s with
    | Some l => if (d <? ndata P)%nat then go (P_load l (Some d)) else bad
    | None => bad
    end
  | ReleaseLine l =>
    if exp_ok P g l then (set_released g l, Loc r Idle T D, [inv_ev o; ret 0]) else bad
  | MkSDetE s l =>
    match sdet g s with
    | None => if exp_ok P g l then (set_sdet g s (line_exp P l), Loc r Idle T D, [inv_ev o; ret 0]) else bad
    | Some _ => bad
    end
  | MkSDetD s =>
    match sdet g s with
    | None => (set_sdet g s line_decl, Loc r Idle T D, [inv_ev o; ret 0])
    | Some _ => bad
    end
  | MkSDetI s i =>
    match sdet g s with
    | None => if (i <? nidx P)%nat then (set_sdet g s (line_idx i), Loc r Idle T D, [inv_ev o; ret 0]) else thrown
    | Some _ => bad
    end
  | SIsTripped s =>
    match sdet g s with Some l => go (P_load l None) | None => bad end
  | SPollRead s d =>
    match sdet g s with
    | Some l => if (d <? ndata P)%nat then go (P_load l (Some d)) else bad
    | None => bad
    end
  end.

Definition tstep (P : params) (t ch : nat) (g : glob) (lc : loc) : option (glob * loc * list ev) :=
  let goto p := Loc (prog lc) p (trg lc) (det lc) in
  match at_ lc with
  | Idle =>
    match prog lc with
    | [] => None
    | o :: r => Some (dispatch P g lc o r)
    end
  | P_store l =>
    Some (do_store P t l g, goto Idle, [EA K_STORE (lobj l) 1 (mo_code (st_mo P)); ret 0])
  | P_load l k =>
    let v := load_val P t ch l g in
    let e := EA K_LOAD (lobj l) v (mo_code (ld_mo P)) in
    match k with
    | None => Some (do_load P t ch l g, goto Idle, [e; ret v])
    | Some d =>
      if v =? 0 then Some (do_load P t ch l g, goto Idle, [e; ret (-1)])
      else Some (do_load P t ch l g, goto (P_rbeg d), [e])
    end
  | P_wbeg d v => let '(g', es) := do_wbeg P t d g in Some (g', goto (P_wend d v), es)
  | P_wend d v => Some (do_wend d v g, goto Idle, [E K_WR_END (dobj d) v; ret 0])
  | P_rbeg d => let '(g', es) := do_rbeg t d g in Some (g', goto (P_rend d), es)
  | P_rend d => let '(g', es) := do_rend d g in Some (g', goto Idle, es ++ [ret (cval (cells g d))])
  end.

Definition fin (l : loc) : bool := match at_ l, prog l with Idle, [] => true | _, _ => false end.

Definition cell0 : cell := Cell 0 0 false ft0.
Definition glob0 : glob :=
  Glob (fun _ => []) clk0 (fun _ _ => 0%nat) (fun _ => cell0) (fun _ => 0%nat) false false (fun _ => false) (fun _ => false) (fun _ => None).
Definition loc0 (p : list op) : loc := Loc p Idle (fun _ => None) (fun _ => None).
Definition init (progs : list (list op)) : sys glob loc := Sys glob0 (map loc0 progs).

(* the configuration the correspondence check runs: the repaired code, interleaving
   semantics, the source's memory orders *)
Definition mkP (unf vw : bool) (s l : mo) (ni ne nd nt : nat) : params := Params unf vw s l ni ne nd nt.

(* ---------- entry point of the correspondence check ---------- *)
Fixpoint decode_prog (p : list (list Z)) : list op :=
  match p with
  | [] => []
  | z :: r => match decode_op z with Some o => o :: decode_prog r | None => decode_prog r end
  end.

Definition final (P : params) (s : sys glob loc) : list line :=
  [ (-2) :: map (fun l => if (nidx P <? l)%nat && released (gl s) (l - S (nidx P)) then -1 else read_val 0 (hs (gl s) l) 0)
                (seq 0 (nlines P));
    (-2) :: map (fun d => cval (cells (gl s) d)) (seq 0 (ndata P)) ].

Definition run_case (cfg : list Z) (progs : list (list (list Z))) (sched : list (Z * Z)) : list line :=
  let a := Z.to_nat (nth 0 cfg 0) in
  let b := Z.to_nat (nth 1 cfg 0) in
  let c := Z.to_nat (nth 2 cfg 0) in
  let P := mkP false false tw_store_mo tw_load_mo a b c (length progs) in
  run_case_gen glob loc (tstep P) fin (init (map decode_prog progs)) sched (final P).
