(* gmlc/libguarded/rcu_list.hpp + rcu_guarded.hpp as a pc automaton: one step per visible
   operation (allocator calls, atomic operations, the write mutex, the read of an element).
   Definitions only (no lemmas): this file is extracted and run against the code.

   Heap.  Every cell the list ever allocates (list nodes and log records) lives in one
   list [heap], indexed by allocation order (cell number k = k-th allocate call; cells are
   never removed, their ledger state says what the allocator did with them):
       Alloc -> Constr -> Destr -> Freed
   any other allocator transition, any access to a cell that is not Constr (or not of the
   expected kind), and - in [unfixed] mode, the pre-repair source - destroy/deallocate of a
   null pointer set the sticky flag [fault] and emit K_FAULT.
   Object ids in events: m_head 1, m_tail 2, m_zombie_head 3, m_write_mutex 4, the
   rcu_guard of thread t (read handle: 2t, write handle: 2t+1) 3g+5, cell k: 3k+6 (its
   first atomic: node::next / zombie_list_node::next, and the cell itself in allocator
   events) and 3k+7 (its second atomic: node::back / zombie_list_node::owner).

   Client.  One handle per thread at a time (rcu_guarded read_handle / write_handle),
   any number of iterator slots.  Registration is lazy (handle::access(), m_accessed):
   the first Begin / Push / Erase of a session runs rcu_read_lock first.  The client
   operations are guarded the way a careful client is: Next / Deref / Erase on an
   iterator that equals end() do nothing.  An operation that makes no sense (no handle,
   unknown iterator slot, mutation through a read handle, second handle) is skipped with
   K_FAULT 9 and the separate flag [misuse]; it touches nothing.
   ~rcu_list runs on the driver's main thread after all threads have finished (function
   [destroy_list], printed in the final lines, see [final]).

   Ghost (never read by control flow, not in events): npos / lo / hi (global position
   order of inserted nodes), mlog (mutators in the order they take effect = write-mutex order),
   lst (the abstract list: node ids, front first; always = fold apply_m mlog []), zlog (every log
   record ever pushed on m_zombie_head, newest first; never shrinks - whether a record is still
   on the log is its ledger state), the counters
   nct / ndt / nfr of every cell.  A push takes effect at the store that makes the node reachable
   (m_head for push_front and for the first element, oldTail->next for push_back), an erase at
   the store that unlinks the node from the forward chain.

   Faults carried by the programs (so that every theorem quantifies over every fault plan):
   - a push / emplace of a NEGATIVE value: the element constructor throws inside construct()
     ([throws]; pcs PX_alloc / PX_constr / PX_free / PX_unl; the storage is a BRaw cell);
   - BeginFail / PushFail / EraseFail: the first allocation made inside the call throws std::bad_alloc
     ([ofails]): the registration record (R_alloc ends the operation, the handle stays unregistered,
     a later access registers normally), the list node (PA_fail), erase's reclamation record
     (EF_lock / EF_ld0 / EF_alloc).  K_THROW 2 at the allocate call, K_CATCH 0 when the exception
     leaves the call (after ~lock_guard where the write mutex was held).
   erase() (repair eb66dd7 in /repo): the reclamation record is allocated and constructed FIRST
   (E_alloc, E_constr), then deleted := true and the unlinking (E_ldb, E_ldn, E_s1, E_s2), then the
   push of the record (E_ldz, E_stz, E_cas); the record is private to the eraser, which holds the
   write mutex, from its allocation to the CAS.  The pre-repair order (unlink, then allocate) leaked
   the node when the allocation threw - it was on no log, so not even ~rcu_list freed it; that
   order is not modelled (reproducer: corpus/C13/rcu_erase_alloc_fail.case, reported by the ledger
   monitor on git show c9feeb7:gmlc/libguarded/rcu_list.hpp). *)
From Coq Require Import List Arith ZArith Bool.
Import ListNotations.
From GV Require Import Sched Events.
Local Open Scope Z_scope.

(* ---------- client operations ---------- *)
Inductive op :=
| LockRead | LockWrite
| Begin (it : nat) | Next (it : nat) | Deref (it : nat) | IsEnd (it : nat)
| PushFront (v : Z) | PushBack (v : Z) | EmplFront (v : Z) | EmplBack (v : Z)
| Erase (it : nat) | Release
(* the first allocation made inside the operation throws std::bad_alloc (the driver arms a per-thread flag) *)
| BeginFail (it : nat) | PushFail (v : Z) | EraseFail (it : nat).

Definition opcode (o : op) : Z :=
  match o with
  | LockRead => 0 | LockWrite => 1 | Begin _ => 2 | Next _ => 3 | Deref _ => 4 | IsEnd _ => 5
  | PushFront _ => 6 | PushBack _ => 7 | EmplFront _ => 8 | EmplBack _ => 9 | Erase _ => 10 | Release => 11
  | BeginFail _ => 12 | PushFail _ => 13 | EraseFail _ => 14
  end.
Definition decode_op (z : list Z) : option op :=
  match z with
  | [0] => Some LockRead | [1] => Some LockWrite
  | [2; i] => Some (Begin (Z.to_nat i)) | [3; i] => Some (Next (Z.to_nat i))
  | [4; i] => Some (Deref (Z.to_nat i)) | [5; i] => Some (IsEnd (Z.to_nat i))
  | [6; v] => Some (PushFront v) | [7; v] => Some (PushBack v)
  | [8; v] => Some (EmplFront v) | [9; v] => Some (EmplBack v)
  | [10; i] => Some (Erase (Z.to_nat i)) | [11] => Some Release
  | [12; i] => Some (BeginFail (Z.to_nat i)) | [13; v] => Some (PushFail v) | [14; i] => Some (EraseFail (Z.to_nat i))
  | _ => None
  end.
Definition is_push (o : op) : bool :=
  match o with PushFront _ | PushBack _ | EmplFront _ | EmplBack _ | PushFail _ => true | _ => false end.
Definition is_front (o : op) : bool := match o with PushFront _ | EmplFront _ => true | _ => false end.
Definition push_val (o : op) : Z :=
  match o with PushFront v | PushBack v | EmplFront v | EmplBack v | PushFail v => v | _ => 0 end.
(* the element type's constructor throws on a negative payload (the driver's Elem does); this is the
   throw plan: it is part of the programs, so the theorems quantify over every plan *)
Definition throws (o : op) : bool := (push_val o <? 0)%Z.
Definition FID_CTOR : Z := 1.
(* the operation's first allocation fails *)
Definition ofails (o : op) : bool := match o with BeginFail _ | PushFail _ | EraseFail _ => true | _ => false end.
Definition BAD_ALLOC : Z := 2.

(* ---------- heap ---------- *)
Inductive cst := Alloc | Constr | Destr | Freed.
Record node := Node { nnext : option nat; nback : option nat; ndel : bool; nval : Z; npos : Z }.
Record zrec := ZRec { znext : option nat; zowner : option nat; znode : option nat }.
(* BRaw: storage of a list node whose constructor is going to throw (never constructed) *)
Inductive body := BNode (n : node) | BRec (r : zrec) | BRaw.
Record cell := Cell { cs : cst; cb : body; nct : nat; ndt : nat; nfr : nat }.

Definition dnode : node := Node None None false 0 0.
Definition drec : zrec := ZRec None None None.

Inductive mop := MPushF (k : nat) | MPushB (k : nat) | MErase (k : nat).

Record glob := Glob {
  heap : list cell; head : option nat; tail : option nat; zhead : option nat;
  wmtx : option nat; fault : bool; misuse : bool; unfixed : bool;
  (* ghost *) mlog : list mop; lo : Z; hi : Z; lst : list nat; zlog : list nat }.

Definition with_heap g h := Glob h (head g) (tail g) (zhead g) (wmtx g) (fault g) (misuse g) (unfixed g) (mlog g) (lo g) (hi g) (lst g) (zlog g).
Definition with_head g x := Glob (heap g) x (tail g) (zhead g) (wmtx g) (fault g) (misuse g) (unfixed g) (mlog g) (lo g) (hi g) (lst g) (zlog g).
Definition with_tail g x := Glob (heap g) (head g) x (zhead g) (wmtx g) (fault g) (misuse g) (unfixed g) (mlog g) (lo g) (hi g) (lst g) (zlog g).
Definition with_zhead g x := Glob (heap g) (head g) (tail g) x (wmtx g) (fault g) (misuse g) (unfixed g) (mlog g) (lo g) (hi g) (lst g) (zlog g).
Definition with_mtx g x := Glob (heap g) (head g) (tail g) (zhead g) x (fault g) (misuse g) (unfixed g) (mlog g) (lo g) (hi g) (lst g) (zlog g).
Definition with_fault g := Glob (heap g) (head g) (tail g) (zhead g) (wmtx g) true (misuse g) (unfixed g) (mlog g) (lo g) (hi g) (lst g) (zlog g).
Definition with_misuse g := Glob (heap g) (head g) (tail g) (zhead g) (wmtx g) (fault g) true (unfixed g) (mlog g) (lo g) (hi g) (lst g) (zlog g).
(* ghost updates *)
Definition with_pos g l h := Glob (heap g) (head g) (tail g) (zhead g) (wmtx g) (fault g) (misuse g) (unfixed g) (mlog g) l h (lst g) (zlog g).
Definition with_zlog g z := Glob (heap g) (head g) (tail g) (zhead g) (wmtx g) (fault g) (misuse g) (unfixed g) (mlog g) (lo g) (hi g) (lst g) z.
Definition remove_nat (k : nat) (l : list nat) : list nat := filter (fun x => negb (Nat.eqb k x)) l.
(* sequential semantics of the mutators on the abstract list (node ids, front first) *)
Definition apply_m (l : list nat) (m : mop) : list nat :=
  match m with MPushF k => k :: l | MPushB k => l ++ [k] | MErase k => remove_nat k l end.
(* a mutator takes effect: appended to the log, applied to the abstract list *)
Definition commit g (m : mop) := Glob (heap g) (head g) (tail g) (zhead g) (wmtx g) (fault g) (misuse g) (unfixed g)
                                     (mlog g ++ [m]) (lo g) (hi g) (apply_m (lst g) m) (zlog g).

Definition getc (g : glob) (k : nat) : option cell := nth_error (heap g) k.
Definition okn (g : glob) (k : nat) : bool :=
  match getc g k with Some (Cell Constr (BNode _) _ _ _) => true | _ => false end.
Definition okz (g : glob) (k : nat) : bool :=
  match getc g k with Some (Cell Constr (BRec _) _ _ _) => true | _ => false end.
Definition gnode (g : glob) (k : nat) : node :=
  match getc g k with Some (Cell _ (BNode n) _ _ _) => n | _ => dnode end.
Definition grec (g : glob) (k : nat) : zrec :=
  match getc g k with Some (Cell _ (BRec r) _ _ _) => r | _ => drec end.
Definition modc (g : glob) (k : nat) (f : cell -> cell) : glob :=
  match getc g k with Some c => with_heap g (upd (heap g) k (f c)) | None => g end.
Definition set_body (b : body) (c : cell) : cell := Cell (cs c) b (nct c) (ndt c) (nfr c).
Definition setn (g : glob) (k : nat) (n : node) : glob := modc g k (set_body (BNode n)).
Definition setz (g : glob) (k : nat) (r : zrec) : glob := modc g k (set_body (BRec r)).

Definition n_next (n : node) x := Node x (nback n) (ndel n) (nval n) (npos n).
Definition n_back (n : node) x := Node (nnext n) x (ndel n) (nval n) (npos n).
Definition n_del (n : node) := Node (nnext n) (nback n) true (nval n) (npos n).
Definition z_next (r : zrec) x := ZRec x (zowner r) (znode r).
Definition z_owner (r : zrec) x := ZRec (znext r) x (znode r).

(* ---------- object ids ---------- *)
Definition O_HEAD := 1. Definition O_TAIL := 2. Definition O_ZHEAD := 3. Definition O_MTX := 4.
Definition gid (gd : nat) : Z := 3 * Z.of_nat gd + 5.
Definition cbase (k : nat) : Z := 3 * Z.of_nat k + 6.
Definition cfld (k : nat) : Z := 3 * Z.of_nat k + 7.
Definition pid (o : option nat) : Z := match o with None => 0 | Some k => cbase k end.
Definition gpid (o : option nat) : Z := match o with None => 0 | Some gd => gid gd end.
Definition guard_of (t : nat) (w : bool) : nat := (2 * t + (if w then 1 else 0))%nat.

(* ---------- memory orders of the atomic sites (C07: rcu_mo_table) ---------- *)
Definition mo_reg_load_zhead := MO_RELAXED.    (* rcu_read_lock: m_zombie_head.load(relaxed) *)
Definition mo_reg_store_next := MO_RELAXED.    (* rcu_read_lock: m_zombie->next.store(oldNext, relaxed) *)
Definition mo_reg_cas := MO_SEQ_CST.           (* rcu_read_lock: compare_exchange_weak *)
Definition mo_push_load_tail := MO_RELAXED.    (* push_back / emplace_back: m_tail.load(relaxed) *)
Definition mo_default := MO_SEQ_CST.           (* every other site *)

Definition LDP := K_LOAD + K_PTR. Definition STP := K_STORE + K_PTR.
Definition CASOK := K_CAS_OK + K_PTR. Definition CASFAIL := K_CAS_FAIL + K_PTR.

(* ---------- faults ---------- *)
(* access check: event list extension and state after touching cell k *)
Definition chk (ok : bool) (k : nat) (g : glob) : glob * list ev :=
  if ok then (g, []) else (with_fault g, [E K_FAULT (cbase k) 3]).

(* allocator ledger *)
Definition bump_ct c := Cell (cs c) (cb c) (S (nct c)) (ndt c) (nfr c).
Definition bump_dt c := Cell (cs c) (cb c) (nct c) (S (ndt c)) (nfr c).
Definition bump_fr c := Cell (cs c) (cb c) (nct c) (ndt c) (S (nfr c)).
Definition set_cs s c := Cell s (cb c) (nct c) (ndt c) (nfr c).
Definition cs_is (g : glob) (k : nat) (s : cst) : bool :=
  match getc g k with
  | Some c => match cs c, s with Alloc, Alloc | Constr, Constr | Destr, Destr | Freed, Freed => true | _, _ => false end
  | None => false
  end.
Definition lfault (ok : bool) (k : nat) (g : glob) : glob * list ev :=
  if ok then (g, []) else (with_fault g, [E K_FAULT (cbase k) 1]).

Definition do_alloc (g : glob) (b : body) : glob * nat :=
  (with_heap g (heap g ++ [Cell Alloc b 0 0 0]), length (heap g)).
Definition do_construct (g : glob) (k : nat) (b : body) : glob * list ev :=
  let ok := cs_is g k Alloc in
  let g1 := modc g k (fun c => bump_ct (if ok then Cell Constr b (nct c) (ndt c) (nfr c) else c)) in
  let '(g2, fe) := lfault ok k g1 in (g2, E K_CONSTRUCT (cbase k) 0 :: fe).
Definition do_destroy (g : glob) (k : nat) : glob * list ev :=
  let ok := cs_is g k Constr in
  let g1 := modc g k (fun c => bump_dt (if ok then set_cs Destr c else c)) in
  let '(g2, fe) := lfault ok k g1 in (g2, E K_DESTROY (cbase k) 0 :: fe).
Definition do_dealloc (g : glob) (k : nat) : glob * list ev :=
  let ok := cs_is g k Destr in
  let g1 := modc g k (fun c => bump_fr (if ok then set_cs Freed c else c)) in
  let '(g2, fe) := lfault ok k g1 in (g2, E K_DEALLOC (cbase k) 0 :: fe).
(* deallocate of storage that was never constructed (construction threw); only raw storage is touched *)
Definition israwc (c : cell) : bool := match cb c with BRaw => true | _ => false end.
Definition do_dealloc_raw (g : glob) (k : nat) : glob * list ev :=
  let ok := cs_is g k Alloc && match getc g k with Some c => israwc c | None => false end in
  let g1 := modc g k (fun c => if israwc c then bump_fr (if ok then set_cs Freed c else c) else c) in
  let '(g2, fe) := lfault ok k g1 in (g2, E K_DEALLOC (cbase k) 0 :: fe).
(* destroy / deallocate of a null pointer (only reachable in [unfixed] mode) *)
Definition null_call (g : glob) (kind : Z) : glob * list ev :=
  (with_fault g, [E kind 0 0; E K_FAULT 0 2]).

(* ---------- threads ---------- *)
Inductive pc :=
| Idle
(* rcu_read_lock (registration), on behalf of operation o *)
| R_alloc (o : op) | R_constr (o : op) (z : nat) | R_ldh (o : op) (z : nat)
| R_st (o : op) (z : nat) (old : option nat) | R_cas (o : op) (z : nat) (old : option nat)
(* begin / ++ / * *)
| B_ld (it : nat) | N_ld (it c : nat) | D_rd (it c : nat)
(* push_front / push_back / emplace_* *)
| P_lock (o : op) | P_alloc (o : op) | P_constr (o : op) (n : nat) | P_ld (o : op) (n : nat)
| P_e1 (o : op) (n : nat) | P_e2 (n : nat)
| PF_next (n old : nat) | PF_back (n old : nat) | PF_head (n : nat)
| PB_back (n old : nat) | PB_next (n old : nat) | PB_tail (n : nat)
| P_unlock
(* push whose element constructor throws: allocate; construct throws; catch: deallocate; ~lock_guard; rethrow *)
| PX_alloc | PX_constr (n : nat) | PX_free (n : nat) | PX_unl
(* allocation failure: of the node in a push, of the record in erase (PX_unl: ~lock_guard, exception leaves the call) *)
| PA_fail | EF_lock (it c : nat) | EF_ld0 (it c : nat) | EF_alloc
(* erase *)
| E_lock (it c : nat) | E_ld0 (it c : nat) | E_ldb (it c : nat) (nx0 : option nat) (z : nat)
| E_ldn (it c : nat) (nx0 pv : option nat) (z : nat) | E_s1 (it c : nat) (nx0 pv nx : option nat) (z : nat)
| E_s2 (it c : nat) (nx0 pv nx : option nat) (z : nat)
| E_alloc (it c : nat) (nx0 : option nat) | E_constr (it c : nat) (nx0 : option nat) (z : nat)
| E_ldz (it : nat) (nx0 : option nat) (z : nat)
| E_stz (it : nat) (nx0 : option nat) (z : nat) (old : option nat)
| E_cas (it : nat) (nx0 : option nat) (z : nat) (old : option nat)
| E_unlock (it : nat) (nx0 : option nat)
(* rcu_guard::unlock (release) *)
| U_ld | U_own (n : nat) (cached : option nat) | U_nx (n : nat) (cached : option nat)
| U_dd (n : nat) (d : option nat) | U_df (n : nat) (d : option nat) | U_ln (n : nat)
| U_zd (n : nat) (nx : option nat) | U_zf (n : nat) (nx : option nat) | U_stn | U_sto.

(* hnd: Some (is_write, Some z) = handle alive and registered with log record z *)
Record loc := Loc { prog : list op; at_ : pc; hnd : option (bool * option nat); its : list (nat * option nat) }.

Fixpoint getit (l : list (nat * option nat)) (i : nat) : option (option nat) :=
  match l with
  | [] => None
  | (j, x) :: r => if Nat.eqb i j then Some x else getit r i
  end.
Definition setit (l : list (nat * option nat)) (i : nat) (x : option nat) : list (nat * option nat) :=
  (i, x) :: filter (fun p => negb (Nat.eqb i (fst p))) l.

Definition ret (v : Z) : ev := E K_RET 0 v.
Definition inv_ev (o : op) : ev := E K_INVOKE 0 (opcode o).

(* the first pc of the body of o once the handle is registered *)
Definition body_pc (o : op) : pc :=
  match o with Begin it | BeginFail it => B_ld it | _ => P_lock o end.
(* the reclaim loop at record k: reads k.zombie_node (a plain field) *)
Definition reclaim_at (g : glob) (k : nat) : pc :=
  match znode (grec g k) with
  | Some d => U_dd k (Some d)
  | None => if unfixed g then U_dd k None else U_ln k
  end.
Definition own_rec (l : loc) : nat := match hnd l with Some (_, Some z) => z | _ => 0%nat end.
Definition own_w (l : loc) : bool := match hnd l with Some (w, _) => w | None => false end.

Definition tstep (t c : nat) (g : glob) (l : loc) : option (glob * loc * list ev) :=
  let goto p := Loc (prog l) p (hnd l) (its l) in
  let done_ := Loc (prog l) Idle (hnd l) (its l) in
  let ptr_ld (obj : Z) (v : option nat) (m : Z) := EA LDP obj (pid v) m in
  let ptr_st (obj : Z) (v : option nat) (m : Z) := EA STP obj (pid v) m in
  match at_ l with
  | Idle =>
    match prog l with
    | [] => None
    | o :: r =>
      let nxt p := Loc r p (hnd l) (its l) in
      let skip v := Some (g, nxt Idle, [inv_ev o; ret v]) in
      let bad := Some (with_misuse g, nxt Idle, [inv_ev o; E K_FAULT 0 9; ret 0]) in
      match o with
      | LockRead | LockWrite =>
        match hnd l with
        | None => Some (g, Loc r Idle (Some (match o with LockWrite => true | _ => false end, None)) (its l),
                        [inv_ev o; ret 0])
        | Some _ => bad
        end
      | Begin it | BeginFail it =>
        match hnd l with
        | Some (_, None) => Some (g, nxt (R_alloc o), [inv_ev o])
        | Some (_, Some _) => Some (g, nxt (B_ld it), [inv_ev o])
        | None => bad
        end
      | Next it =>
        match getit (its l) it with
        | Some (Some cu) => Some (g, nxt (N_ld it cu), [inv_ev o])
        | Some None => skip 0
        | None => bad
        end
      | Deref it =>
        match getit (its l) it with
        | Some (Some cu) => Some (g, nxt (D_rd it cu), [inv_ev o])
        | Some None => skip (-1)
        | None => bad
        end
      | IsEnd it =>
        match getit (its l) it with
        | Some (Some _) => skip 0
        | Some None => skip 1
        | None => bad
        end
      | PushFront _ | PushBack _ | EmplFront _ | EmplBack _ | PushFail _ =>
        match hnd l with
        | Some (true, None) => Some (g, nxt (R_alloc o), [inv_ev o])
        | Some (true, Some _) => Some (g, nxt (P_lock o), [inv_ev o])
        | _ => bad
        end
      | Erase it =>
        match hnd l, getit (its l) it with
        | Some (true, Some _), Some (Some cu) => Some (g, nxt (E_lock it cu), [inv_ev o])
        | Some (true, Some _), Some None => skip 0
        | _, _ => bad
        end
      | EraseFail it =>
        match hnd l, getit (its l) it with
        | Some (true, Some _), Some (Some cu) => Some (g, nxt (EF_lock it cu), [inv_ev o])
        | Some (true, Some _), Some None => skip 0
        | _, _ => bad
        end
      | Release =>
        match hnd l with
        | Some (_, None) => Some (g, Loc r Idle None [], [inv_ev o; ret 0])
        | Some (_, Some _) => Some (g, nxt U_ld, [inv_ev o])
        | None => bad
        end
      end
    end
  (* ---- rcu_read_lock ---- *)
  | R_alloc o =>
    if ofails o then Some (g, done_, [E K_THROW 0 BAD_ALLOC; E K_CATCH 0 0])   (* the handle stays unregistered *)
    else
    let '(g1, z) := do_alloc g (BRec drec) in
    Some (g1, goto (R_constr o z), [E K_ALLOC (cbase z) 2])
  | R_constr o z =>
    let '(g1, es) := do_construct g z (BRec (ZRec None (Some (guard_of t (own_w l))) None)) in
    Some (g1, goto (R_ldh o z), es)
  | R_ldh o z => Some (g, goto (R_st o z (zhead g)), [ptr_ld O_ZHEAD (zhead g) mo_reg_load_zhead])
  | R_st o z old =>
    let '(g1, fe) := chk (okz g z) z (setz g z (z_next (grec g z) old)) in
    Some (g1, goto (R_cas o z old), ptr_st (cbase z) old mo_reg_store_next :: fe)
  | R_cas o z old =>
    if (match zhead g, old with Some a, Some b => Nat.eqb a b | None, None => true | _, _ => false end)
       && negb (Nat.eqb c 3)
    then Some (with_zlog (with_zhead g (Some z)) (z :: zlog g), Loc (prog l) (body_pc o) (Some (own_w l, Some z)) (its l),
               [EA CASOK O_ZHEAD (cbase z) mo_reg_cas])
    else Some (g, goto (R_st o z (zhead g)), [EA CASFAIL O_ZHEAD (pid (zhead g)) mo_reg_cas])
  (* ---- begin / ++ / * ---- *)
  | B_ld it =>
    Some (g, Loc (prog l) Idle (hnd l) (setit (its l) it (head g)), [ptr_ld O_HEAD (head g) mo_default; ret 0])
  | N_ld it cu =>
    let nx := nnext (gnode g cu) in
    let '(g1, fe) := chk (okn g cu) cu g in
    Some (g1, Loc (prog l) Idle (hnd l) (setit (its l) it nx), ptr_ld (cbase cu) nx mo_default :: fe ++ [ret 0])
  | D_rd it cu =>
    let v := nval (gnode g cu) in
    let '(g1, fe) := chk (okn g cu) cu g in
    Some (g1, done_, E K_RD_END (cbase cu) v :: fe ++ [ret v])
  (* ---- push ---- *)
  | P_lock o =>
    match wmtx g with
    | None => Some (with_mtx g (Some t), goto (if ofails o then PA_fail else if throws o then PX_alloc else P_alloc o), [E K_LOCK O_MTX 0])
    | Some _ => None
    end
  | PX_alloc =>
    let '(g1, n) := do_alloc g BRaw in
    Some (g1, goto (PX_constr n), [E K_ALLOC (cbase n) 1])
  | PX_constr n => Some (g, goto (PX_free n), [E K_CALL 0 FID_CTOR; E K_THROW 0 0])
  | PX_free n =>
    let '(g1, es) := do_dealloc_raw g n in
    Some (g1, goto PX_unl, es)
  | PX_unl => Some (with_mtx g None, done_, [E K_UNLOCK O_MTX 0; E K_CATCH 0 0])
  | PA_fail => Some (g, goto PX_unl, [E K_THROW 0 BAD_ALLOC])
  | EF_lock it cu =>
    match wmtx g with
    | None => Some (with_mtx g (Some t), goto (EF_ld0 it cu), [E K_LOCK O_MTX 0])
    | Some _ => None
    end
  | EF_ld0 it cu =>
    let nd := gnode g cu in
    let nx0 := nnext nd in
    if ndel nd then
      let '(g1, fe) := chk (okn g cu) cu (commit g (MErase cu)) in
      Some (g1, goto (E_unlock it nx0), ptr_ld (cbase cu) nx0 mo_default :: fe)
    else
      let '(g1, fe) := chk (okn g cu) cu g in
      Some (g1, goto EF_alloc, ptr_ld (cbase cu) nx0 mo_default :: fe)
  | EF_alloc => Some (g, goto PX_unl, [E K_THROW 0 BAD_ALLOC])
  | P_alloc o =>
    let '(g1, n) := do_alloc g (BNode dnode) in
    let g2 := if is_front o then with_pos g1 (lo g1 - 1) (hi g1) else with_pos g1 (lo g1) (hi g1 + 1) in
    Some (g2, goto (P_constr o n), [E K_ALLOC (cbase n) 1])
  | P_constr o n =>
    let p := if is_front o then lo g else hi g in
    let '(g1, es) := do_construct g n (BNode (Node None None false (push_val o) p)) in
    Some (g1, goto (P_ld o n), E K_CALL 0 FID_CTOR :: es)
  | P_ld o n =>
    if is_front o then
      Some (g, goto (match head g with None => P_e1 o n | Some old => PF_next n old end), [ptr_ld O_HEAD (head g) mo_default])
    else
      Some (g, goto (match tail g with None => P_e1 o n | Some old => PB_back n old end), [ptr_ld O_TAIL (tail g) mo_push_load_tail])
  | P_e1 o n => Some (commit (with_head g (Some n)) (if is_front o then MPushF n else MPushB n), goto (P_e2 n), [ptr_st O_HEAD (Some n) mo_default])
  | P_e2 n => Some (with_tail g (Some n), goto P_unlock, [ptr_st O_TAIL (Some n) mo_default])
  | PF_next n old =>
    let '(g1, fe) := chk (okn g n) n (setn g n (n_next (gnode g n) (Some old))) in
    Some (g1, goto (PF_back n old), ptr_st (cbase n) (Some old) mo_default :: fe)
  | PF_back n old =>
    let '(g1, fe) := chk (okn g old) old (setn g old (n_back (gnode g old) (Some n))) in
    Some (g1, goto (PF_head n), ptr_st (cfld old) (Some n) mo_default :: fe)
  | PF_head n => Some (commit (with_head g (Some n)) (MPushF n), goto P_unlock, [ptr_st O_HEAD (Some n) mo_default])
  | PB_back n old =>
    let '(g1, fe) := chk (okn g n) n (setn g n (n_back (gnode g n) (Some old))) in
    Some (g1, goto (PB_next n old), ptr_st (cfld n) (Some old) mo_default :: fe)
  | PB_next n old =>
    let '(g1, fe) := chk (okn g old) old (commit (setn g old (n_next (gnode g old) (Some n))) (MPushB n)) in
    Some (g1, goto (PB_tail n), ptr_st (cbase old) (Some n) mo_default :: fe)
  | PB_tail n => Some (with_tail g (Some n), goto P_unlock, [ptr_st O_TAIL (Some n) mo_default])
  | P_unlock => Some (with_mtx g None, done_, [E K_UNLOCK O_MTX 0; ret 0])
  (* ---- erase ---- *)
  | E_lock it cu =>
    match wmtx g with
    | None => Some (with_mtx g (Some t), goto (E_ld0 it cu), [E K_LOCK O_MTX 0])
    | Some _ => None
    end
  | E_ld0 it cu =>
    let nd := gnode g cu in
    let nx0 := nnext nd in
    if ndel nd then
      let '(g1, fe) := chk (okn g cu) cu (commit g (MErase cu)) in
      Some (g1, goto (E_unlock it nx0), ptr_ld (cbase cu) nx0 mo_default :: fe)
    else
      let '(g1, fe) := chk (okn g cu) cu g in
      Some (g1, goto (E_alloc it cu nx0), ptr_ld (cbase cu) nx0 mo_default :: fe)
  (* the reclamation record is allocated and constructed first (repair eb66dd7): if that throws, the list is unchanged *)
  | E_alloc it cu nx0 =>
    let '(g1, z) := do_alloc g (BRec drec) in
    Some (g1, goto (E_constr it cu nx0 z), [E K_ALLOC (cbase z) 2])
  | E_constr it cu nx0 z =>
    let '(g1, es) := do_construct g z (BRec (ZRec None None (Some cu))) in
    Some (g1, goto (E_ldb it cu nx0 z), es)
  | E_ldb it cu nx0 z =>          (* deleted = true (plain), then back.load() *)
    let nd := gnode g cu in
    let pv := nback nd in
    let '(g1, fe) := chk (okn g cu) cu (setn g cu (n_del nd)) in
    Some (g1, goto (E_ldn it cu nx0 pv z), ptr_ld (cfld cu) pv mo_default :: fe)
  | E_ldn it cu nx0 pv z =>
    let nx := nnext (gnode g cu) in
    let '(g1, fe) := chk (okn g cu) cu g in
    Some (g1, goto (E_s1 it cu nx0 pv nx z), ptr_ld (cbase cu) nx mo_default :: fe)
  | E_s1 it cu nx0 pv nx z =>
    match pv with
    | Some p =>
      let '(g1, fe) := chk (okn g p) p (commit (setn g p (n_next (gnode g p) nx)) (MErase cu)) in
      Some (g1, goto (E_s2 it cu nx0 pv nx z), ptr_st (cbase p) nx mo_default :: fe)
    | None => Some (commit (with_head g nx) (MErase cu), goto (E_s2 it cu nx0 pv nx z), [ptr_st O_HEAD nx mo_default])
    end
  | E_s2 it cu nx0 pv nx z =>
    match nx with
    | Some x =>
      let '(g1, fe) := chk (okn g x) x (setn g x (n_back (gnode g x) pv)) in
      Some (g1, goto (E_ldz it nx0 z), ptr_st (cfld x) pv mo_default :: fe)
    | None => Some (with_tail g pv, goto (E_ldz it nx0 z), [ptr_st O_TAIL pv mo_default])
    end
  | E_ldz it nx0 z => Some (g, goto (E_stz it nx0 z (zhead g)), [ptr_ld O_ZHEAD (zhead g) mo_default])
  | E_stz it nx0 z old =>
    let '(g1, fe) := chk (okz g z) z (setz g z (z_next (grec g z) old)) in
    Some (g1, goto (E_cas it nx0 z old), ptr_st (cbase z) old mo_default :: fe)
  | E_cas it nx0 z old =>
    if (match zhead g, old with Some a, Some b => Nat.eqb a b | None, None => true | _, _ => false end)
       && negb (Nat.eqb c 3)
    then Some (with_zlog (with_zhead g (Some z)) (z :: zlog g), goto (E_unlock it nx0), [EA CASOK O_ZHEAD (cbase z) mo_default])
    else Some (g, goto (E_stz it nx0 z (zhead g)), [EA CASFAIL O_ZHEAD (pid (zhead g)) mo_default])
  | E_unlock it nx0 =>
    Some (with_mtx g None, Loc (prog l) Idle (hnd l) (setit (its l) it nx0), [E K_UNLOCK O_MTX 0; ret 0])
  (* ---- rcu_guard::unlock ---- *)
  | U_ld =>
    let z := own_rec l in
    let cached := znext (grec g z) in
    let '(g1, fe) := chk (okz g z) z g in
    Some (g1, goto (match cached with Some n => U_own n cached | None => U_stn end),
          ptr_ld (cbase z) cached mo_default :: fe)
  | U_own n cached =>
    let ow := zowner (grec g n) in
    let '(g1, fe) := chk (okz g n) n g in
    Some (g1, goto (match ow with Some _ => U_sto | None => U_nx n cached end),
          EA LDP (cfld n) (gpid ow) mo_default :: fe)
  | U_nx n cached =>
    let nx := znext (grec g n) in
    let '(g1, fe) := chk (okz g n) n g in
    Some (g1, goto (match nx with
                    | Some m => U_own m cached
                    | None => match cached with Some k => reclaim_at g k | None => U_stn end
                    end),
          ptr_ld (cbase n) nx mo_default :: fe)
  | U_dd n d =>
    match d with
    | Some x => let '(g1, es) := do_destroy g x in Some (g1, goto (U_df n d), es)
    | None => let '(g1, es) := null_call g K_DESTROY in Some (g1, goto (U_df n d), es)
    end
  | U_df n d =>
    match d with
    | Some x => let '(g1, es) := do_dealloc g x in Some (g1, goto (U_ln n), es)
    | None => let '(g1, es) := null_call g K_DEALLOC in Some (g1, goto (U_ln n), es)
    end
  | U_ln n =>
    let nx := znext (grec g n) in
    let '(g1, fe) := chk (okz g n) n g in
    Some (g1, goto (U_zd n nx), ptr_ld (cbase n) nx mo_default :: fe)
  | U_zd n nx => let '(g1, es) := do_destroy g n in Some (g1, goto (U_zf n nx), es)
  | U_zf n nx =>
    let '(g1, es) := do_dealloc g n in
    Some (g1, goto (match nx with Some m => reclaim_at g1 m | None => U_stn end), es)
  | U_stn =>
    let z := own_rec l in
    let '(g1, fe) := chk (okz g z) z (setz g z (z_next (grec g z) None)) in
    Some (g1, goto U_sto, ptr_st (cbase z) None mo_default :: fe)
  | U_sto =>
    let z := own_rec l in
    let '(g1, fe) := chk (okz g z) z (setz g z (z_owner (grec g z) None)) in
    Some (g1, Loc (prog l) Idle None [], EA STP (cfld z) 0 mo_default :: fe ++ [ret 0])
  end.

Definition fin (l : loc) : bool := match at_ l, prog l with Idle, [] => true | _, _ => false end.

Definition init_glob (unf : bool) : glob := Glob [] None None None None false false unf [] 0 0 [] [].
Definition init (unf : bool) (progs : list (list op)) : sys glob loc :=
  Sys (init_glob unf) (map (fun p => Loc p Idle None []) progs).

(* ---------- ~rcu_list (driver main thread, after every thread has finished) ---------- *)
(* allocator calls are reported as final lines [-2; kind; cell number]; faults as [-2; 90; cell; code] *)
Definition fl_of (es : list ev) (k : nat) : list line :=
  map (fun e => if Z.eqb (ek e) K_FAULT then [-2; K_FAULT; Z.of_nat k; evl e] else [-2; ek e; Z.of_nat k]) es.
Definition acc_line (ok : bool) (k : nat) (g : glob) : glob * list line :=
  if ok then (g, []) else (with_fault g, [[-2; K_FAULT; Z.of_nat k; 3]]).

Fixpoint dl_nodes (fuel : nat) (g : glob) (n : option nat) : glob * list line :=
  match fuel, n with
  | S f, Some k =>
    let nx := nnext (gnode g k) in
    let '(g0, l0) := acc_line (okn g k) k g in
    let '(g1, e1) := do_destroy g0 k in
    let '(g2, e2) := do_dealloc g1 k in
    let '(g3, l3) := dl_nodes f g2 nx in
    (g3, l0 ++ fl_of e1 k ++ fl_of e2 k ++ l3)
  | _, _ => (g, [])
  end.
Fixpoint dl_recs (fuel : nat) (g : glob) (n : option nat) : glob * list line :=
  match fuel, n with
  | S f, Some k =>
    let '(g0, l0) := acc_line (okz g k) k g in
    match zowner (grec g k) with
    | Some _ => (g0, l0)
    | None =>
      let nx := znext (grec g k) in
      let '(g2, l2) :=
        match znode (grec g k) with
        | Some d => let '(ga, ea) := do_destroy g0 d in let '(gb, eb) := do_dealloc ga d in (gb, fl_of ea d ++ fl_of eb d)
        | None => if unfixed g
                  then (with_fault g0, [[-2; K_DESTROY; 0]; [-2; K_FAULT; 0; 2]; [-2; K_DEALLOC; 0]; [-2; K_FAULT; 0; 2]])
                  else (g0, [])
        end in
      let '(g3, e3) := do_destroy g2 k in
      let '(g4, e4) := do_dealloc g3 k in
      let '(g5, l5) := dl_recs f g4 nx in
      (g5, l0 ++ l2 ++ fl_of e3 k ++ fl_of e4 k ++ l5)
    end
  | _, _ => (g, [])
  end.
Definition destroy_list (g : glob) : glob * list line :=
  let fuel := S (length (heap g)) in
  let '(g1, l1) := dl_nodes fuel g (head g) in
  let '(g2, l2) := dl_recs fuel g1 (zhead g1) in
  (g2, l1 ++ l2).

(* the values reachable from m_head (final contents) *)
Fixpoint chain (fuel : nat) (g : glob) (n : option nat) : list nat :=
  match fuel, n with
  | S f, Some k => k :: chain f g (nnext (gnode g k))
  | _, _ => []
  end.
Definition contents (g : glob) : list nat := chain (S (length (heap g))) g (head g).

Definition not_freed (c : cell) : bool := match cs c with Freed => false | _ => true end.
Definition b2z (b : bool) : Z := if b then 1 else 0.

Definition final (s : sys glob loc) : list line :=
  if all_fin glob loc fin s then
    let g := gl s in
    let '(g1, ls) := destroy_list g in
    [(-2) :: (-3) :: map (fun k => nval (gnode g k)) (contents g)] ++ ls ++
    [[-2; -1; Z.of_nat (length (heap g1)); Z.of_nat (length (filter not_freed (heap g1))); b2z (fault g1)]]
  else [[-2; -4]].

(* ---------- entry point of the correspondence check ---------- *)
Fixpoint decode_prog (p : list (list Z)) : list op :=
  match p with
  | [] => []
  | z :: r => match decode_op z with Some o => o :: decode_prog r | None => decode_prog r end
  end.

Definition run_case (cfg : list Z) (progs : list (list (list Z))) (sched : list (Z * Z)) : list line :=
  let unf := match cfg with u :: _ => negb (Z.eqb u 0) | [] => false end in
  run_case_gen glob loc tstep fin (init unf (map decode_prog progs)) sched final.
