Require Extraction. Require Import ExtrOcamlBasic.
From Coq Require Import List ZArith.
From GV Require Import Sched Enum CowModel.
Definition enum_case (cfg : list Z) (progs : list (list (list Z))) (depth budget : Z) :=
  enum_case_gen glob loc tstep (init_of cfg progs) depth budget.
Extraction "cow_model.ml" CowModel.run_case enum_case.
