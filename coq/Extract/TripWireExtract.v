Require Extraction. Require Import ExtrOcamlBasic.
From Coq Require Import List ZArith.
From GV Require Import Sched Enum TripWireModel.
Definition enum_case (cfg : list Z) (progs : list (list (list Z))) (depth budget : Z) :=
  let a := Z.to_nat (nth 0 cfg 0%Z) in
  let b := Z.to_nat (nth 1 cfg 0%Z) in
  let c := Z.to_nat (nth 2 cfg 0%Z) in
  let P := mkP false false tw_store_mo tw_load_mo a b c (length progs) in
  enum_case_gen glob loc (tstep P) (init (map decode_prog progs)) depth budget.
Extraction "tripwire_model.ml" TripWireModel.run_case enum_case.
