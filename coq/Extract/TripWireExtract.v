Require Extraction. Require Import ExtrOcamlBasic.
From GV Require Import TripWireModel.
Extraction "tripwire_model.ml" TripWireModel.run_case.
