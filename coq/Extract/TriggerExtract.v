Require Extraction. Require Import ExtrOcamlBasic.
From GV Require Import TriggerModel.
Extraction "trigger_model.ml" TriggerModel.run_case.
