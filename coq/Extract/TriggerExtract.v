Require Extraction. Require Import ExtrOcamlBasic.
From Coq Require Import List ZArith Bool.
From GV Require Import Sched Enum TriggerModel.
Definition enum_case (cfg : list Z) (progs : list (list (list Z))) (depth budget : Z) :=
  let a := match cfg with a :: _ => negb (Z.eqb a 0) | nil => false end in
  enum_case_gen glob loc tstep (init a (map decode_prog progs)) depth budget.
Extraction "trigger_model.ml" TriggerModel.run_case enum_case.
