Require Extraction. Require Import ExtrOcamlBasic.
From Coq Require Import List ZArith.
From GV Require Import Sched Enum WrapperModel.
Definition enum_case (cfg : list Z) (progs : list (list (list Z))) (depth budget : Z) :=
  let cf := decode_cfg cfg in
  enum_case_gen glob loc (tstep cf) (init cf (map decode_prog progs)) depth budget.
Extraction "wrapper_model.ml" WrapperModel.run_case enum_case.
