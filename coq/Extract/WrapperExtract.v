Require Extraction. Require Import ExtrOcamlBasic.
From GV Require Import WrapperModel.
Extraction "wrapper_model.ml" WrapperModel.run_case.
