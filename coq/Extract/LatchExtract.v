Require Extraction. Require Import ExtrOcamlBasic.
From GV Require Import LatchModel.
Extraction "latch_model.ml" LatchModel.run_case.
