Require Extraction. Require Import ExtrOcamlBasic.
From Coq Require Import List ZArith Bool.
From GV Require Import Sched Enum RcuModel.
Definition enum_case (cfg : list Z) (progs : list (list (list Z))) (depth budget : Z) :=
  let unf := match cfg with u :: _ => negb (Z.eqb u 0) | nil => false end in
  enum_case_gen glob loc tstep (init unf (map decode_prog progs)) depth budget.
Extraction "rcu_model.ml" RcuModel.run_case enum_case.
