Require Extraction. Require Import ExtrOcamlBasic.
From GV Require Import RcuModel.
Extraction "rcu_model.ml" RcuModel.run_case.
