Require Extraction. Require Import ExtrOcamlBasic.
From Coq Require Import List ZArith.
From GV Require Import Sched Enum DelayedDestructorModel.
Definition enum_case (cfg : list Z) (progs : list (list (list Z))) (depth budget : Z) :=
  enum_case_gen glob loc tstep (init (decode_cfg cfg) (map decode_prog progs)) depth budget.
Extraction "delayeddestructor_model.ml" DelayedDestructorModel.run_case enum_case.
