Require Extraction. Require Import ExtrOcamlBasic.
From GV Require Import DelayedDestructorModel.
Extraction "delayeddestructor_model.ml" DelayedDestructorModel.run_case.
