Require Extraction. Require Import ExtrOcamlBasic.
From GV Require Import Wrapper2Model.
Extraction "wrapper2_model.ml" Wrapper2Model.run_case.
