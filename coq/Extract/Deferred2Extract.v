Require Extraction. Require Import ExtrOcamlBasic.
From Coq Require Import List ZArith.
From GV Require Import Sched Enum DeferredModel Deferred2Model.
Definition enum_case (cfg : list Z) (progs : list (list (list Z))) (depth budget : Z) :=
  let m := match cfg with m :: _ => m | nil => 0%Z end in
  enum_case_gen glob2 loc2 tstep2 (init2 m (map decode_prog2 progs)) depth budget.
Extraction "deferred2_model.ml" Deferred2Model.run_case enum_case.
