Require Extraction. Require Import ExtrOcamlBasic.
From GV Require Import DeferredModel.
Extraction "deferred_model.ml" DeferredModel.run_case.
