Require Extraction. Require Import ExtrOcamlBasic.
From Coq Require Import List ZArith.
From GV Require Import Sched Enum DeferredModel.
Definition enum_case (cfg : list Z) (progs : list (list (list Z))) (depth budget : Z) :=
  let '(m, thr) := match cfg with m :: r => (m, r) | nil => (0%Z, nil) end in
  enum_case_gen glob loc tstep (init m thr (map decode_prog progs)) depth budget.
Extraction "deferred_model.ml" DeferredModel.run_case enum_case.
