Require Extraction. Require Import ExtrOcamlBasic.
From GV Require Import DelayedObjectsModel.
Extraction "delayedobjects_model.ml" DelayedObjectsModel.run_case.
