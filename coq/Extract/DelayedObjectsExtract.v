Require Extraction. Require Import ExtrOcamlBasic.
From Coq Require Import List ZArith.
From GV Require Import Sched Enum DelayedObjectsModel.
Definition enum_case (cfg : list Z) (progs : list (list (list Z))) (depth budget : Z) :=
  enum_case_gen glob loc tstep (init_cfg cfg progs) depth budget.
Extraction "delayedobjects_model.ml" DelayedObjectsModel.run_case enum_case.
