Require Extraction. Require Import ExtrOcamlBasic.
From GV Require Import SOHModel.
Extraction "soh_model.ml" SOHModel.run_case.
