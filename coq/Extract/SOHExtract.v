Require Extraction. Require Import ExtrOcamlBasic.
From Coq Require Import List ZArith.
From GV Require Import Sched Enum SOHModel.
Definition enum_case (cfg : list Z) (progs : list (list (list Z))) (depth budget : Z) :=
  enum_case_gen glob loc tstep (init cfg (map decode_prog progs)) depth budget.
Extraction "soh_model.ml" SOHModel.run_case enum_case.
