Require Extraction. Require Import ExtrOcamlBasic.
From Coq Require Import List ZArith.
From GV Require Import Sched Enum BarrierModel.
Definition enum_case (cfg : list Z) (progs : list (list (list Z))) (depth budget : Z) :=
  enum_case_gen glob loc tstep (init (match cfg with n :: _ => n | nil => 0%Z end) (map decode_prog progs)) depth budget.
Extraction "barrier_model.ml" BarrierModel.run_case enum_case.
