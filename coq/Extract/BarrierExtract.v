Require Extraction. Require Import ExtrOcamlBasic.
From GV Require Import BarrierModel.
Extraction "barrier_model.ml" BarrierModel.run_case.
