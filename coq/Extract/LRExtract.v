Require Extraction. Require Import ExtrOcamlBasic.
From GV Require Import LRModel.
Extraction "lr_model.ml" LRModel.run_case.
