Require Extraction. Require Import ExtrOcamlBasic.
From Coq Require Import List ZArith.
From GV Require Import Sched Enum LRModel.
Definition enum_case (cfg : list Z) (progs : list (list (list Z))) (depth budget : Z) :=
  enum_case_gen glob loc tstep
    (init (match cfg with n :: _ => Z.to_nat n | nil => O end) (match cfg with _ :: p => p | nil => nil end)
          (map decode_prog progs)) depth budget.
Extraction "lr_model.ml" LRModel.run_case enum_case.
