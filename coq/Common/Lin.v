(* Linearization points imply linearizability (Herlihy & Wing), proved once.

   An *annotated history* is the sequence of the invocation, linearization-point and response
   events of a run, oldest first:  Inv t o | Lin t | Res t r.   A component produces it from its
   runs (K_INVOKE, the step that appends to its ghost log, K_RET) and proves that it is well formed:
   per thread the events alternate  Inv, Lin, Res, Inv, ...  (possibly stopping after an Inv or a Lin:
   a pending operation).  [scan] checks exactly that and returns the operations in the order of their
   linearization points, each with the positions of its three events.

   Theorem [scan_linearizes]: the returned list L is a linearization of the history in the sense of
   Herlihy & Wing - it contains every completed operation exactly once (and those pending operations
   that have passed their linearization point, i.e. a completion of the history), every record
   describes actual events of the history, and the real-time order is respected: if a's response
   precedes b's invocation then a precedes b in L.  With the component's own theorem that its log,
   which is L's operations in this very order, is a legal run of the sequential specification whose
   results are the returned values ([legal]), every concurrent history is linearizable.
   The Lin markers are not part of the client-visible history; erasing them preserves the relative
   order of all Inv / Res events, which is all the definition depends on. *)
From Coq Require Import List Arith Lia Bool.
Import ListNotations.

Section Lin.
  Variables (Op Ret : Type).

  Inductive hev := Inv (t : nat) (o : Op) | Lin (t : nat) | Res (t : nat) (r : Ret).
  Definition history := list hev.

  Record oprec := OpRec { o_thr : nat; o_op : Op; o_inv : nat; o_lin : nat; o_res : option (nat * Ret) }.

  Inductive status := Idle | Pending (o : Op) (i : nat) | Linned (o : Op) (i k : nat).

  Definition supd (st : nat -> status) (t : nat) (x : status) : nat -> status :=
    fun u => if Nat.eqb u t then x else st u.

  (* answer the (unique) unanswered record of thread t *)
  Fixpoint answer (t p : nat) (r : Ret) (acc : list oprec) : list oprec :=
    match acc with
    | [] => []
    | a :: rest =>
      if Nat.eqb (o_thr a) t && (match o_res a with None => true | Some _ => false end)
      then OpRec (o_thr a) (o_op a) (o_inv a) (o_lin a) (Some (p, r)) :: rest
      else a :: answer t p r rest
    end.

  (* acc: linearized operations, newest first *)
  Fixpoint scan_from (n : nat) (H : history) (st : nat -> status) (acc : list oprec) : option (list oprec) :=
    match H with
    | [] => Some (rev acc)
    | Inv t o :: H' =>
      match st t with
      | Idle => scan_from (S n) H' (supd st t (Pending o n)) acc
      | _ => None
      end
    | Lin t :: H' =>
      match st t with
      | Pending o i => scan_from (S n) H' (supd st t (Linned o i n)) (OpRec t o i n None :: acc)
      | _ => None
      end
    | Res t r :: H' =>
      match st t with
      | Linned o i k => scan_from (S n) H' (supd st t Idle) (answer t n r acc)
      | _ => None
      end
    end.

  Definition scan (H : history) : option (list oprec) := scan_from 0 H (fun _ => Idle) [].
  Definition wf (H : history) : Prop := exists L, scan H = Some L.

  (* ---------- what a linearization is ---------- *)
  Definition describes (H : history) (a : oprec) : Prop :=
    nth_error H (o_inv a) = Some (Inv (o_thr a) (o_op a)) /\
    nth_error H (o_lin a) = Some (Lin (o_thr a)) /\
    o_inv a < o_lin a /\
    match o_res a with
    | Some (p, r) => nth_error H p = Some (Res (o_thr a) r) /\ o_lin a < p
    | None => True
    end.

  Fixpoint lin_sorted (L : list oprec) : Prop :=
    match L with
    | [] => True
    | a :: rest => (forall b, In b rest -> o_lin a < o_lin b) /\ lin_sorted rest
    end.

  Record linearization (H : history) (L : list oprec) : Prop := {
    L_describes : forall a, In a L -> describes H a;
    L_complete : forall p t r, nth_error H p = Some (Res t r) -> exists a, In a L /\ o_thr a = t /\ o_res a = Some (p, r);
    L_sorted : lin_sorted L;              (* L is ordered by linearization point; in particular no duplicates *)
    L_realtime : forall a b p r, In a L -> In b L -> o_res a = Some (p, r) -> p < o_inv b -> o_lin a < o_lin b
  }.

  (* ---------- the invariant of the scanner ---------- *)
  Fixpoint rsorted (acc : list oprec) : Prop :=   (* newest first: strictly decreasing o_lin *)
    match acc with
    | [] => True
    | a :: rest => (forall b, In b rest -> o_lin b < o_lin a) /\ rsorted rest
    end.

  Record SInv (H0 : history) (n : nat) (st : nat -> status) (acc : list oprec) : Prop := {
    S_desc : forall a, In a acc -> describes H0 a /\ o_lin a < n /\
                                  match o_res a with Some (p, _) => p < n | None => True end;
    S_sorted : rsorted acc;
    S_lin : forall t o i k, st t = Linned o i k ->
            exists a, In a acc /\ o_thr a = t /\ o_res a = None /\ o_lin a = k;
    S_open : forall a, In a acc -> o_res a = None -> exists o i k, st (o_thr a) = Linned o i k /\ o_lin a = k;
    S_pend : forall t o i, st t = Pending o i -> i < n /\ nth_error H0 i = Some (Inv t o);
    S_linned : forall t o i k, st t = Linned o i k -> i < k /\ nth_error H0 i = Some (Inv t o);
    S_done : forall p t r, p < n -> nth_error H0 p = Some (Res t r) ->
             exists a, In a acc /\ o_thr a = t /\ o_res a = Some (p, r)
  }.

  Lemma In_answer t p r acc b : In b (answer t p r acc) ->
    In b acc \/ exists a, In a acc /\ o_thr a = t /\ o_res a = None /\
                          b = OpRec (o_thr a) (o_op a) (o_inv a) (o_lin a) (Some (p, r)).
  Proof.
    induction acc as [|a rest IH]; cbn; [tauto|].
    destruct (Nat.eqb (o_thr a) t && match o_res a with None => true | Some _ => false end) eqn:E.
    - apply andb_true_iff in E as [E1 E2]. apply Nat.eqb_eq in E1.
      intros [<-|Hb]; [|left; right; exact Hb].
      right. exists a. repeat split; auto. destruct (o_res a); [discriminate|reflexivity].
    - intros [<-|Hb]; [left; left; reflexivity|].
      destruct (IH Hb) as [H1|[a' [Ha' Hr]]]; [left; right; exact H1|].
      right. exists a'. split; [right; exact Ha'|exact Hr].
  Qed.

  Lemma answer_lins t p r acc : map o_lin (answer t p r acc) = map o_lin acc.
  Proof.
    induction acc as [|a rest IH]; cbn; [reflexivity|].
    destruct (Nat.eqb (o_thr a) t && match o_res a with None => true | Some _ => false end); cbn; [reflexivity|].
    rewrite IH. reflexivity.
  Qed.

  Lemma rsorted_lins acc acc' : map o_lin acc' = map o_lin acc -> rsorted acc -> rsorted acc'.
  Proof.
    revert acc'; induction acc as [|a rest IH]; intros [|a' rest'] E; cbn in *; try discriminate; auto.
    injection E as E1 E2. intros [Hs Hr]. split; [|apply IH; auto].
    intros b Hb. apply (in_map o_lin) in Hb. rewrite E2 in Hb. apply in_map_iff in Hb.
    destruct Hb as [b' [Eb Hb']]. specialize (Hs b' Hb'). lia.
  Qed.

  (* the unanswered record of a thread is found and answered *)
  Lemma answer_hits t p r acc a : In a acc -> o_thr a = t -> o_res a = None ->
    (forall b, In b acc -> o_thr b = t -> o_res b = None -> b = a) ->
    In (OpRec (o_thr a) (o_op a) (o_inv a) (o_lin a) (Some (p, r))) (answer t p r acc) /\
    (forall b, In b acc -> b <> a -> In b (answer t p r acc)).
  Proof.
    induction acc as [|x rest IH]; cbn; [tauto|].
    intros Hin Ht Hn Huniq.
    destruct (Nat.eqb (o_thr x) t && match o_res x with None => true | Some _ => false end) eqn:E.
    - apply andb_true_iff in E as [E1 E2]. apply Nat.eqb_eq in E1.
      assert (x = a) as -> by (apply Huniq; auto; destruct (o_res x); [discriminate|reflexivity]).
      split; [left; reflexivity|]. intros b [Hb|Hb] Hne; [congruence|right; exact Hb].
    - destruct Hin as [->|Hin].
      + rewrite Ht, Nat.eqb_refl, Hn in E. discriminate.
      + destruct (IH Hin Ht Hn) as [I1 I2]; [intros b Hb; apply Huniq; right; exact Hb|].
        split; [right; exact I1|]. intros b [Hb|Hb] Hne; [left; exact Hb|right; apply I2; auto].
  Qed.

  Lemma answer_no_open t p r acc : rsorted acc ->
    (forall b c, In b acc -> In c acc -> o_thr b = t -> o_res b = None -> o_thr c = t -> o_res c = None -> b = c) ->
    forall b, In b (answer t p r acc) -> o_thr b = t -> o_res b = None -> False.
  Proof.
    induction acc as [|x rest IH]; cbn; [tauto|].
    intros [Hx Hrest] Huniq b.
    destruct (Nat.eqb (o_thr x) t && match o_res x with None => true | Some _ => false end) eqn:E.
    - apply andb_true_iff in E as [E1 E2]. apply Nat.eqb_eq in E1.
      intros [<-|Hb] Hbt Hbr; [discriminate|].
      assert (b = x) as -> by (apply Huniq; auto; destruct (o_res x); [discriminate|reflexivity]).
      specialize (Hx x Hb). lia.
    - intros [<-|Hb] Hbt Hbr.
      + rewrite Hbt, Nat.eqb_refl, Hbr in E. discriminate.
      + eapply IH; eauto.
  Qed.

  Lemma scan_inv H0 : forall H n st acc L, length H0 = n + length H ->
    (forall i, i < length H -> nth_error H0 (n + i) = nth_error H i) ->
    SInv H0 n st acc -> scan_from n H st acc = Some L ->
    exists st', SInv H0 (length H0) st' (rev L) .
  Proof.
    induction H as [|e H' IH]; intros n st acc L Hlen Hnth HI Hs.
    - cbn in Hs. inversion Hs; subst. rewrite rev_involutive. cbn in Hlen. rewrite Nat.add_0_r in Hlen.
      exists st. rewrite Hlen. exact HI.
    - assert (Hn : nth_error H0 n = Some e).
      { specialize (Hnth 0). cbn in Hnth. rewrite Nat.add_0_r in Hnth. apply Hnth. lia. }
      assert (Hlen' : length H0 = S n + length H') by (cbn in Hlen; lia).
      assert (Hnth' : forall i, i < length H' -> nth_error H0 (S n + i) = nth_error H' i).
      { intros i Hi. specialize (Hnth (S i)). cbn in Hnth. replace (S n + i) with (n + S i) by lia. apply Hnth. lia. }
      destruct HI as [Hd Hso Hl Ho Hp Hln Hdn].
      destruct e as [t o|t|t r]; cbn in Hs.
      + (* Inv *)
        destruct (st t) eqn:Est; try discriminate.
        eapply (IH _ _ _ _ Hlen' Hnth' _ Hs). Unshelve.
        constructor.
        * intros a Ha. destruct (Hd a Ha) as (A & B & C). split; [exact A|split; [lia|]]. destruct (o_res a) as [[p ?]|]; auto; lia.
        * exact Hso.
        * intros u o' i k. unfold supd. destruct (Nat.eqb_spec u t); [discriminate|]. apply Hl.
        * intros a Ha Hr. destruct (Ho a Ha Hr) as (o' & i & k & Hst & Hk).
          exists o', i, k. split; auto. unfold supd. destruct (Nat.eqb_spec (o_thr a) t); [congruence|exact Hst].
        * intros u o' i. unfold supd. destruct (Nat.eqb_spec u t) as [->|Hne].
          -- intros E. inversion E; subst. split; [lia|exact Hn].
          -- intros E. destruct (Hp u o' i E). split; [lia|auto].
        * intros u o' i k. unfold supd. destruct (Nat.eqb_spec u t); [discriminate|]. apply Hln.
        * intros p u r Hpn Hev. destruct (Nat.eq_dec p n) as [->|Hne]; [congruence|]. apply Hdn; auto; lia.
      + (* Lin *)
        destruct (st t) as [|o i|] eqn:Est; try discriminate.
        destruct (Hp t o i Est) as [Hi Hinv].
        eapply (IH _ _ _ _ Hlen' Hnth' _ Hs). Unshelve.
        constructor.
        * intros a [<-|Ha].
          -- cbn. unfold describes; cbn. repeat split; auto; lia.
          -- destruct (Hd a Ha) as (A & B & C). split; [exact A|split; [lia|]]. destruct (o_res a) as [[p ?]|]; auto; lia.
        * cbn. split; [|exact Hso]. intros b Hb. destruct (Hd b Hb) as (_ & B & _). exact B.
        * intros u o' i' k. unfold supd. destruct (Nat.eqb_spec u t) as [->|Hne].
          -- intros E. inversion E; subst. eexists; split; [left; reflexivity|]. cbn. auto.
          -- intros E. destruct (Hl u o' i' k E) as [a [Ha Hr]]. exists a. split; [right; exact Ha|exact Hr].
        * intros a [<-|Ha] Hr.
          -- cbn. exists o, i, n. unfold supd. rewrite Nat.eqb_refl. auto.
          -- destruct (Ho a Ha Hr) as (o' & i' & k & Hst & Hk).
             exists o', i', k. split; auto. unfold supd. destruct (Nat.eqb_spec (o_thr a) t); [congruence|exact Hst].
        * intros u o' i'. unfold supd. destruct (Nat.eqb_spec u t); [discriminate|].
          intros E. destruct (Hp u o' i' E). split; [lia|auto].
        * intros u o' i' k. unfold supd. destruct (Nat.eqb_spec u t) as [->|Hne].
          -- intros E. inversion E; subst. split; [lia|exact Hinv].
          -- apply Hln.
        * intros p u r Hpn Hev. destruct (Nat.eq_dec p n) as [->|Hne]; [congruence|].
          destruct (Hdn p u r) as [a [Ha Hr]]; auto; [lia|]. exists a. split; [right; exact Ha|exact Hr].
      + (* Res *)
        destruct (st t) as [| |o i k] eqn:Est; try discriminate.
        destruct (Hl t o i k Est) as [a [Ha [Hat [Har Hak]]]].
        assert (Huniq : forall b, In b acc -> o_thr b = t -> o_res b = None -> b = a).
        { intros b Hb Hbt Hbr. destruct (Ho b Hb Hbr) as (o' & i' & k' & Hst & Hk'). rewrite Hbt, Est in Hst.
          assert (Elin : o_lin b = o_lin a) by (inversion Hst; subst; congruence).
          (* same o_lin => same record, by strict sortedness *)
          clear -Hso Ha Hb Elin. induction acc as [|x rest IHr]; [destruct Ha|].
          cbn in Hso. destruct Hso as [Hx Hrest].
          destruct Ha as [->|Ha]; destruct Hb as [->|Hb]; auto.
          - specialize (Hx b Hb). lia.
          - specialize (Hx a Ha). lia. }
        destruct (answer_hits t n r acc a Ha Hat Har Huniq) as [Hhit Hkeep].
        eapply (IH _ _ _ _ Hlen' Hnth' _ Hs). Unshelve.
        constructor.
        * intros b Hb. apply In_answer in Hb. destruct Hb as [Hb|[a' [Ha' [Ht' [Hr' ->]]]]].
          -- destruct (Hd b Hb) as (A & B & C). split; [exact A|split; [lia|]]. destruct (o_res b) as [[p ?]|]; auto; lia.
          -- destruct (Hd a' Ha') as ((A1 & A2 & A3 & _) & B & _). cbn. unfold describes; cbn.
             rewrite Ht' in *. repeat split; auto; try lia.
        * eapply rsorted_lins; [apply answer_lins|exact Hso].
        * intros u o' i' k'. unfold supd. destruct (Nat.eqb_spec u t); [discriminate|].
          intros E. destruct (Hl u o' i' k' E) as [b [Hb [Hbt [Hbr Hbk]]]].
          exists b. repeat split; auto. apply Hkeep; auto. intros ->. congruence.
        * intros b Hb Hbr. pose proof Hb as Hb0. apply In_answer in Hb.
          destruct Hb as [Hb|[a' [_ [_ [_ ->]]]]]; [|discriminate].
          destruct (Ho b Hb Hbr) as (o' & i' & k' & Hst & Hk').
          exists o', i', k'. split; auto. unfold supd. destruct (Nat.eqb_spec (o_thr b) t) as [E|E]; [|exact Hst].
          exfalso. eapply (answer_no_open t n r acc Hso); [|exact Hb0|exact E|exact Hbr].
          intros x y Hx Hy Hxt Hxr Hyt Hyr. rewrite (Huniq x), (Huniq y); auto.
        * intros u o' i'. unfold supd. destruct (Nat.eqb_spec u t); [discriminate|].
          intros E. destruct (Hp u o' i' E). split; [lia|auto].
        * intros u o' i' k'. unfold supd. destruct (Nat.eqb_spec u t); [discriminate|]. apply Hln.
        * intros p u r' Hpn Hev. destruct (Nat.eq_dec p n) as [->|Hne].
          -- rewrite Hn in Hev. inversion Hev; subst. eexists; split; [exact Hhit|]. cbn. auto.
          -- destruct (Hdn p u r') as [b [Hb [Hbt Hbr]]]; auto; [lia|]. exists b. repeat split; auto.
             apply Hkeep; auto. intros ->. congruence.
  Qed.

  Lemma rsorted_app_end acc a : rsorted (acc ++ [a]) <-> rsorted acc /\ forall b, In b acc -> o_lin a < o_lin b.
  Proof.
    induction acc as [|x rest IH]; cbn.
    - split; [intros _; split; [exact I|tauto]|intros _; split; [tauto|exact I]].
    - rewrite IH. split.
      + intros [Hx [Hr Ha]]. repeat split; auto.
        * intros b Hb. apply Hx. apply in_or_app. left. exact Hb.
        * intros b [<-|Hb]; [apply Hx; apply in_or_app; right; left; reflexivity|apply Ha; exact Hb].
      + intros [[Hx Hr] Ha]. repeat split; auto.
        intros b Hb. apply in_app_or in Hb. destruct Hb as [Hb|[<-|[]]]; [apply Hx; exact Hb|apply Ha; left; reflexivity].
  Qed.

  Lemma rsorted_rev L : rsorted (rev L) -> lin_sorted L.
  Proof.
    induction L as [|a rest IH]; cbn; [tauto|].
    rewrite rsorted_app_end. intros [Hr Ha]. split; [|apply IH; exact Hr].
    intros b Hb. apply Ha. apply in_rev in Hb. exact Hb.
  Qed.

  Theorem scan_linearizes H L : scan H = Some L -> linearization H L.
  Proof.
    intros Hs. unfold scan in Hs.
    destruct (scan_inv H H 0 (fun _ => Idle) [] L) as [st' HI]; auto.
    - constructor; cbn; try tauto; try discriminate. intros; lia.
    - destruct HI as [Hd Hso _ _ _ _ Hdn].
      assert (Hin : forall a, In a L <-> In a (rev L)) by (intros a; apply in_rev).
      constructor.
      + intros a Ha. apply Hin in Ha. apply (Hd a Ha).
      + intros p t r Hp. destruct (Hdn p t r) as [a [Ha Hr]]; auto.
        * apply nth_error_Some. congruence.
        * exists a. split; [apply Hin; exact Ha|exact Hr].
      + apply rsorted_rev. exact Hso.
      + intros a b p r Ha Hb Hr Hlt. apply Hin in Ha. apply Hin in Hb.
        destruct (Hd a Ha) as ((_ & _ & _ & A) & _). rewrite Hr in A. destruct A as [_ A].
        destruct (Hd b Hb) as ((_ & _ & B & _) & _). lia.
  Qed.

  (* ---------- legality w.r.t. a sequential specification ---------- *)
  Variable St : Type.
  Variable apply : St -> Op -> St * Ret.

  (* run the operations of L in order from s; every answered operation returned what the specification gives *)
  Fixpoint legal (s : St) (L : list oprec) : Prop :=
    match L with
    | [] => True
    | a :: rest =>
      let (s', r) := apply s (o_op a) in
      match o_res a with Some (_, r') => r' = r | None => True end /\ legal s' rest
    end.

  Definition linearizable (s0 : St) (H : history) : Prop := exists L, linearization H L /\ legal s0 L.

  Corollary lin_points_linearizable s0 H L : scan H = Some L -> legal s0 L -> linearizable s0 H.
  Proof. intros Hs Hl. exists L. split; [apply scan_linearizes; exact Hs|exact Hl]. Qed.
End Lin.

(* non-vacuity: a two-thread history of a register (Op = option nat: None = read, Some v = write v) *)
Example lin_example :
  let H := [Inv nat nat 0 5; Inv nat nat 1 0; Lin nat nat 0; Res nat nat 0 0; Lin nat nat 1; Res nat nat 1 5] in
  exists L, scan nat nat H = Some L /\ length L = 2 /\
            legal nat nat nat (fun s o => if Nat.eqb o 0 then (s, s) else (o, 0)) 0 L.
Proof. cbn. eexists. split; [reflexivity|]. cbn. auto. Qed.
