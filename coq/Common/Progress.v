(* Progress without a fairness axiom: from every state satisfying the invariant a
   quiescent state is reachable by a schedule of at most mu(s) work-choices, and (with
   Sched.moves_le_mu) every such schedule makes at most mu(s) moves.  Together with a
   component's characterisation of its quiescent states this is "every maximal run
   without spurious wake-ups is finite and ends in a state where ...". *)
From Coq Require Import List Arith ZArith Lia Bool.
Import ListNotations.
From GV Require Import Sched.

Section Progress.
  Variables (G L : Type).
  Variable tstep : nat -> nat -> G -> L -> option (G * L * list ev).
  Notation sysT := (sys G L).
  Notation stepT := (step G L tstep).
  Notation runT := (run G L tstep).
  Notation enabledT := (enabled G L tstep).

  (* for a fixed choice, "some thread is enabled" is decidable *)
  Lemma enabled_choice_dec (s : sysT) (c : nat) :
    (exists t, enabledT s t c) \/ (forall t, ~ enabledT s t c).
  Proof.
    assert (H : forall n, (exists t, t < n /\ enabledT s t c) \/ (forall t, t < n -> ~ enabledT s t c)).
    { induction n as [|n IH].
      - right. intros t Ht. lia.
      - destruct IH as [[t [Ht He]]|Hn].
        + left. exists t. split; [lia|exact He].
        + destruct (nth_error (thr s) n) as [l|] eqn:Hl.
          * destruct (tstep n c (gl s) l) as [r|] eqn:Hs.
            -- left. exists n. split; [lia|]. exists l, r. auto.
            -- right. intros t Ht [l' [r' [Hl' Hs']]].
               destruct (Nat.eq_dec t n) as [->|Hne].
               ++ rewrite Hl in Hl'. inversion Hl'; subst. congruence.
               ++ apply (Hn t); [lia|]. exists l', r'. auto.
          * right. intros t Ht [l' [r' [Hl' Hs']]].
            destruct (Nat.eq_dec t n) as [->|Hne]; [congruence|].
            apply (Hn t); [lia|]. exists l', r'. auto. }
    destruct (H (length (thr s))) as [[t [_ He]]|Hn]; [left; exists t; exact He|right].
    intros t [l [r [Hl Hs]]]. apply (Hn t).
    - apply nth_error_Some. congruence.
    - exists l, r. auto.
  Qed.

  Variable mu : sysT -> nat.
  Variable Inv : G -> list L -> Prop.
  Hypothesis Inv_step : forall g ls t c l g' l' es,
      Inv g ls -> nth_error ls t = Some l -> tstep t c g l = Some (g', l', es) -> Inv g' (upd ls t l').
  Variable ok : nat -> bool.
  Hypothesis mu_dec : forall s t c, Inv (gl s) (thr s) -> ok c = true -> enabledT s t c ->
      mu (stepT s (t, c)) < mu s.

  (* nothing can move under a work-choice *)
  Definition settled (s : sysT) : Prop := forall t c, ok c = true -> ~ enabledT s t c.
  Hypothesis pick : forall s, (exists t c, ok c = true /\ enabledT s t c) \/ settled s.

  Lemma reach_settled : forall n s, mu s <= n -> Inv (gl s) (thr s) ->
    exists sc, sched_ok ok sc /\ length sc <= n /\ settled (runT s sc) /\ Inv (gl (runT s sc)) (thr (runT s sc)).
  Proof.
    induction n as [|n IH]; intros s Hm HI.
    - exists []. repeat split; auto. cbn.
      destruct (pick s) as [[t [c [Hc He]]]|Hs]; [|exact Hs].
      pose proof (mu_dec s t c HI Hc He). lia.
    - destruct (pick s) as [[t [c [Hc He]]]|Hs].
      + pose proof (mu_dec s t c HI Hc He) as Hd.
        destruct (IH (stepT s (t, c))) as [sc [Hok [Hlen [Hset HI']]]]; [lia|apply (step_inv G L tstep Inv Inv_step); exact HI|].
        exists ((t, c) :: sc). repeat split; auto.
        * unfold sched_ok in *. cbn. rewrite Hc. exact Hok.
        * cbn. lia.
      + exists []. repeat split; auto. cbn. lia.
  Qed.

  Theorem settles : forall s, Inv (gl s) (thr s) ->
    exists sc, sched_ok ok sc /\ length sc <= mu s /\ settled (runT s sc).
  Proof.
    intros s HI. destruct (reach_settled (mu s) s (le_n _) HI) as [sc [A [B [C _]]]]. exists sc; auto.
  Qed.
End Progress.
