(* Event-kind and memory-order code table.  The same numbers are used by
   harness/events.h (instrumented build) and lib/events.py (pretty printer). *)
From Coq Require Import ZArith List.
From GV Require Import Sched.
Local Open Scope Z_scope.

Definition K_INVOKE := 0.   Definition K_RET := 1.
Definition K_LOAD := 2.     Definition K_STORE := 3.   Definition K_RMW := 4.
Definition K_CAS_OK := 5.   Definition K_CAS_FAIL := 6. Definition K_XCHG := 7.
Definition K_LOCK := 10.    Definition K_UNLOCK := 11. Definition K_TRYLOCK := 12.
Definition K_LOCK_SH := 13. Definition K_UNLOCK_SH := 14. Definition K_TRYLOCK_SH := 15.
Definition K_TRYLOCK_FOR := 16. Definition K_TRYLOCK_SH_FOR := 17.
Definition K_CV_SLEEP := 20. Definition K_CV_WAKE := 21.
Definition K_NOTIFY_ALL := 22. Definition K_NOTIFY_ONE := 23.
Definition K_RD_BEGIN := 30. Definition K_RD_END := 31.
Definition K_WR_BEGIN := 32. Definition K_WR_END := 33.
Definition K_CALL := 40.    Definition K_THROW := 41.  Definition K_CATCH := 42.
Definition K_ALLOC := 50.   Definition K_CONSTRUCT := 51.
Definition K_DESTROY := 52. Definition K_DEALLOC := 53.
Definition K_YIELD := 60.   Definition K_SLEEP := 61.
Definition K_FAULT := 90.
Definition K_SKIP := 99.
(* pointer-valued atomics: kind + 100, the value field is an object id (0 = null) *)
Definition K_PTR := 100.

(* memory orders as logged ((int)std::memory_order); -1 = not an atomic op *)
Definition MO_RELAXED := 0. Definition MO_CONSUME := 1. Definition MO_ACQUIRE := 2.
Definition MO_RELEASE := 3. Definition MO_ACQ_REL := 4. Definition MO_SEQ_CST := 5.
Definition MO_NA := -1.

Definition E (k o v : Z) : ev := Ev k o v MO_NA.        (* non-atomic event *)
Definition EA (k o v m : Z) : ev := Ev k o v m.          (* atomic event *)
Definition ESC (k o v : Z) : ev := Ev k o v MO_SEQ_CST.  (* seq_cst atomic event *)

(* mutex / condvar state helpers shared by the models *)
Definition mem (t : nat) (l : list nat) : bool := existsb (Nat.eqb t) l.
Definition rem (t : nat) (l : list nat) : list nat := filter (fun x => negb (Nat.eqb t x)) l.
