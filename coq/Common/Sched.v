(* Generic interleaving semantics shared by every component model.

   A component supplies a global state type G, a thread-local state type L and
     tstep : tid -> choice -> G -> L -> option (G * L * list ev)
   returning None when thread [tid] is disabled in that state (blocked on a
   mutex, sleeping on a condition variable, or finished).  [choice] resolves
   everything the environment decides (spurious wake-up, time-out, weak-CAS
   failure, which coherence-allowed message a relaxed load returns, whether a
   user functor throws).  One step = one synchronisation-visible operation of
   the C++ code; the events it emits are what the instrumented build logs. *)
From Coq Require Import List Arith ZArith Lia Bool.
Import ListNotations.

(* ---------- events (shared code table: harness/events.h, lib/events.py) ---------- *)
Record ev := Ev { ek : Z; eo : Z; evl : Z; emo : Z }.
(* a trace line: [tid; kind; obj; val; mo], or [tid; 99] for SKIP *)
Definition line := list Z.
Definition ev_line (t : nat) (e : ev) : line := [Z.of_nat t; ek e; eo e; evl e; emo e].
Definition skip_line (t : nat) : line := [Z.of_nat t; 99%Z].

Fixpoint upd {A} (l : list A) (i : nat) (x : A) : list A :=
  match l, i with
  | [], _ => []
  | _ :: t, O => x :: t
  | h :: t, S i => h :: upd t i x
  end.

Lemma nth_upd_eq {A} (l : list A) i x y : nth_error l i = Some y -> nth_error (upd l i x) i = Some x.
Proof. revert i; induction l; destruct i; cbn; intros; try congruence; auto. Qed.
Lemma nth_upd_ne {A} (l : list A) i j x : i <> j -> nth_error (upd l i x) j = nth_error l j.
Proof. revert i j; induction l; destruct i, j; cbn; intros; try congruence; auto. Qed.
Lemma upd_length {A} (l : list A) i x : length (upd l i x) = length l.
Proof. revert i; induction l; destruct i; cbn; auto. Qed.
Lemma nth_upd {A} (l : list A) i j x y :
  nth_error (upd l i x) j = Some y ->
  (i = j /\ y = x /\ j < length l) \/ (i <> j /\ nth_error l j = Some y).
Proof.
  intros H. destruct (Nat.eq_dec i j) as [->|Hne].
  - left. assert (j < length l) as Hlt.
    { rewrite <- (upd_length l j x). apply nth_error_Some. congruence. }
    destruct (nth_error l j) eqn:E; [|apply nth_error_None in E; lia].
    rewrite (nth_upd_eq _ _ _ _ E) in H. inversion H; auto.
  - right. rewrite nth_upd_ne in H by exact Hne. auto.
Qed.

(* sums over the thread list (progress measures) *)
Lemma sum_upd {A} (f : A -> nat) (l : list A) t x y : nth_error l t = Some x ->
  list_sum (map f (upd l t y)) + f x = list_sum (map f l) + f y.
Proof.
  revert t; induction l as [|h r IH]; destruct t; simpl; intros H; try discriminate.
  - inversion H; subst. simpl. lia.
  - specialize (IH _ H). simpl in *. lia.
Qed.
Lemma sum_mono {A} (f g : A -> nat) (l : list A) : (forall x, In x l -> f x <= g x) ->
  list_sum (map f l) <= list_sum (map g l).
Proof.
  induction l as [|h r IH]; simpl; intros H; [lia|].
  pose proof (H h (or_introl eq_refl)). assert (list_sum (map f r) <= list_sum (map g r)) by (apply IH; intros; apply H; auto). lia.
Qed.
(* a step of thread t that lowers t's own weight, while no other weight grows, lowers the sum *)
Lemma sum_step_dec {A} (f f' : A -> nat) (l : list A) t x y : nth_error l t = Some x ->
  (forall z, f' z <= f z) -> f' y < f x ->
  list_sum (map f' (upd l t y)) < list_sum (map f l).
Proof.
  intros Hn Hm Hd. revert t Hn; induction l as [|h r IH]; destruct t; simpl; intros H; try discriminate.
  - inversion H; subst. pose proof (sum_mono f' f r (fun z _ => Hm z)). lia.
  - specialize (IH _ H). pose proof (Hm h). lia.
Qed.

Section Sched.
  Variables (G L : Type).
  Variable tstep : nat -> nat -> G -> L -> option (G * L * list ev).

  Record sys := Sys { gl : G; thr : list L }.

  (* one scheduled pair: new state, and the emitted events (None = SKIP: the
     named thread does not exist, is finished, or is disabled) *)
  Definition sys_step (s : sys) (tc : nat * nat) : sys * option (list ev) :=
    let (t, c) := tc in
    match nth_error (thr s) t with
    | None => (s, None)
    | Some l =>
      match tstep t c (gl s) l with
      | None => (s, None)
      | Some (g', l', es) => (Sys g' (upd (thr s) t l'), Some es)
      end
    end.
  Definition step (s : sys) (tc : nat * nat) : sys := fst (sys_step s tc).
  Definition run (s : sys) (sched : list (nat * nat)) : sys := fold_left step sched s.

  Definition reachable (s0 s : sys) : Prop := exists sched, s = run s0 sched.

  Lemma run_app s a b : run s (a ++ b) = run (run s a) b.
  Proof. unfold run. apply fold_left_app. Qed.

  Lemma reachable_refl s : reachable s s.
  Proof. exists []. reflexivity. Qed.
  Lemma reachable_step s0 s tc : reachable s0 s -> reachable s0 (step s tc).
  Proof. intros [sc ->]. exists (sc ++ [tc]). rewrite run_app. reflexivity. Qed.
  Lemma reachable_trans s0 s1 s2 : reachable s0 s1 -> reachable s1 s2 -> reachable s0 s2.
  Proof. intros [a ->] [b ->]. exists (a ++ b). symmetry. apply run_app. Qed.

  (* ---------- invariants ---------- *)
  Section Inv.
    Variable Inv : G -> list L -> Prop.
    Hypothesis Inv_step : forall g ls t c l g' l' es,
        Inv g ls -> nth_error ls t = Some l -> tstep t c g l = Some (g', l', es) ->
        Inv g' (upd ls t l').

    Lemma step_inv s tc : Inv (gl s) (thr s) -> Inv (gl (step s tc)) (thr (step s tc)).
    Proof.
      intros H. unfold step, sys_step. destruct tc as [t c].
      destruct (nth_error (thr s) t) as [l|] eqn:Hl; [|exact H].
      destruct (tstep t c (gl s) l) as [[[g' l'] es]|] eqn:Hs; [|exact H].
      cbn. eapply Inv_step; eauto.
    Qed.

    Lemma run_inv sched : forall s, Inv (gl s) (thr s) -> Inv (gl (run s sched)) (thr (run s sched)).
    Proof.
      induction sched as [|tc sched IH]; intros s H; cbn [run fold_left]; [exact H|].
      apply IH. apply step_inv. exact H.
    Qed.

    Lemma reachable_inv s0 s : Inv (gl s0) (thr s0) -> reachable s0 s -> Inv (gl s) (thr s).
    Proof. intros H [sc ->]. apply run_inv. exact H. Qed.
  End Inv.

  (* a relation between consecutive states that every step respects is
     respected by every run (used for monotonicity / stability properties) *)
  Section Rel.
    Variable R : sys -> sys -> Prop.
    Hypothesis R_refl : forall s, R s s.
    Hypothesis R_trans : forall a b c, R a b -> R b c -> R a c.
    Hypothesis R_step : forall s tc, R s (step s tc).
    Lemma run_rel sched : forall s, R s (run s sched).
    Proof.
      induction sched as [|tc sched IH]; intros s; cbn [run fold_left]; [apply R_refl|].
      eapply R_trans; [apply R_step|apply IH].
    Qed.
  End Rel.

  (* ---------- enabledness, terminal states ---------- *)
  Definition enabled (s : sys) (t c : nat) : Prop :=
    exists l r, nth_error (thr s) t = Some l /\ tstep t c (gl s) l = Some r.
  Definition terminal (s : sys) : Prop := forall t c, ~ enabled s t c.

  (* nothing can move except by a spurious wake-up (choice 1): the state in
     which the fair tail of the correspondence runner reports "deadlock" *)
  Definition quiescent (s : sys) : Prop := forall t c, c <> 1 -> ~ enabled s t c.

  Lemma step_disabled s t c : ~ enabled s t c -> step s (t, c) = s.
  Proof.
    intros H. unfold step, sys_step.
    destruct (nth_error (thr s) t) as [l|] eqn:Hl; [|reflexivity].
    destruct (tstep t c (gl s) l) as [r|] eqn:Hs; [|reflexivity].
    exfalso. apply H. exists l, r. auto.
  Qed.

  Lemma terminal_run s sched : terminal s -> run s sched = s.
  Proof.
    intros H. induction sched as [|[t c] sc IH]; cbn [run fold_left]; [reflexivity|].
    rewrite step_disabled by apply H. exact IH.
  Qed.

  (* ---------- bounded work: a measure that every enabled step decreases ---------- *)
  Section Measure.
    Variable mu : sys -> nat.
    Variable Inv : G -> list L -> Prop.
    Hypothesis Inv_step : forall g ls t c l g' l' es,
        Inv g ls -> nth_error ls t = Some l -> tstep t c g l = Some (g', l', es) ->
        Inv g' (upd ls t l').
    (* [ok c] selects the choices counted as work (e.g. c = 0: no spurious
       wake-up / no retry); every enabled step under such a choice decreases mu *)
    Variable ok : nat -> bool.
    Hypothesis mu_dec : forall s t c, Inv (gl s) (thr s) -> ok c = true -> enabled s t c ->
        mu (step s (t, c)) < mu s.

    Definition sched_ok (sc : list (nat * nat)) := forallb (fun tc => ok (snd tc)) sc = true.

    (* number of non-stuttering steps of a schedule from s *)
    Fixpoint moves (s : sys) (sc : list (nat * nat)) : nat :=
      match sc with
      | [] => 0
      | tc :: r => (match snd (sys_step s tc) with Some _ => 1 | None => 0 end) + moves (step s tc) r
      end.

    Lemma moves_bound sc : forall s, Inv (gl s) (thr s) -> sched_ok sc ->
        moves s sc + mu (run s sc) <= mu s.
    Proof.
      induction sc as [|[t c] r IH]; intros s HI Hok; cbn [moves run fold_left]; [lia|].
      unfold sched_ok in Hok. cbn in Hok. apply andb_true_iff in Hok as [Hc Hr].
      specialize (IH (step s (t, c)) (step_inv Inv Inv_step s (t, c) HI) Hr).
      unfold run in IH.
      destruct (snd (sys_step s (t, c))) as [evs|] eqn:E.
      - assert (enabled s t c) as He.
        { unfold sys_step in E. destruct (nth_error (thr s) t) as [l0|] eqn:Hl; [|discriminate].
          destruct (tstep t c (gl s) l0) as [rr|] eqn:Hs; [|discriminate]. exists l0, rr; auto. }
        pose proof (mu_dec s t c HI Hc He). lia.
      - assert (step s (t, c) = s) as Heq.
        { unfold step. unfold sys_step in *. destruct (nth_error (thr s) t) as [l0|]; [|reflexivity].
          destruct (tstep t c (gl s) l0) as [[[? ?] ?]|]; [discriminate|reflexivity]. }
        rewrite Heq in *. exact IH.
    Qed.

    (* every schedule of work-choices makes at most [mu s] moves: runs cannot go
       on for ever except by retrying *)
    Corollary moves_le_mu s sc : Inv (gl s) (thr s) -> sched_ok sc -> moves s sc <= mu s.
    Proof. intros HI Hok. pose proof (moves_bound sc s HI Hok). lia. Qed.
  End Measure.

  (* ---------- executable runner used by the correspondence check ---------- *)
  Definition out_lines (t : nat) (r : option (list ev)) : list line :=
    match r with None => [skip_line t] | Some es => map (ev_line t) es end.

  Fixpoint run_lines (s : sys) (sched : list (nat * nat)) : sys * list line :=
    match sched with
    | [] => (s, [])
    | (t, c) :: r =>
      let '(s', o) := sys_step s (t, c) in
      let '(s'', ls) := run_lines s' r in (s'', out_lines t o ++ ls)
    end.

  (* one fair round with a fixed choice: every thread in turn; reports whether
     any step was taken.  Disabled threads emit nothing in the tail. *)
  Fixpoint round (c : nat) (ts : list nat) (s : sys) : sys * list line * bool :=
    match ts with
    | [] => (s, [], false)
    | t :: r =>
      let '(s', o) := sys_step s (t, c) in
      let '(s'', ls, any) := round c r s' in
      match o with
      | None => (s'', ls, any)
      | Some es => (s'', map (ev_line t) es ++ ls, true)
      end
    end.

  Variable fin : L -> bool.
  Definition all_fin (s : sys) := forallb fin (thr s).

  (* the fair tail: rounds with choice 0; when a whole round is disabled, one
     round with choice 2 (time-outs fire, no spurious wake-ups); when that is
     disabled too: deadlock.  Verdict 0 done, 1 deadlock, 2 fuel exhausted. *)
  Fixpoint tail (fuel : nat) (s : sys) : sys * list line * Z :=
    match fuel with
    | O => (s, [], 2%Z)
    | S f =>
      if all_fin s then (s, [], 0%Z) else
      let ts := seq 0 (length (thr s)) in
      let '(s1, l1, any1) := round 0 ts s in
      if any1 then let '(s2, l2, v) := tail f s1 in (s2, l1 ++ l2, v)
      else
        let '(s1', l1', any2) := round 2 ts s1 in
        if any2 then let '(s2, l2, v) := tail f s1' in (s2, l1' ++ l2, v)
        else (s1', [], 1%Z)
    end.

  Definition tail_fuel : nat := 4000.

  Definition run_case_gen (s0 : sys) (sched : list (Z * Z)) (final : sys -> list line) : list line :=
    let sc := map (fun tc => (Z.to_nat (fst tc), Z.to_nat (snd tc))) sched in
    let '(s1, l1) := run_lines s0 sc in
    let '(s2, l2, v) := tail tail_fuel s1 in
    l1 ++ l2 ++ [[(-1)%Z; v]] ++ final s2.

  Lemma run_lines_run sched : forall s, fst (run_lines s sched) = run s sched.
  Proof.
    induction sched as [|[t c] r IH]; intros s; cbn [run_lines run fold_left]; [reflexivity|].
    unfold step. destruct (sys_step s (t, c)) as [s' o] eqn:E. cbn [fst].
    specialize (IH s'). destruct (run_lines s' r) as [s'' ls]. cbn in *. exact IH.
  Qed.
End Sched.

Arguments Sys {G L}.
Arguments gl {G L}.
Arguments thr {G L}.
