(* From the observable trace of a model (the lines the correspondence check compares
   with the implementation) to the abstract actions of Common/Lockset.v.
   A component proves  trace_ok prot st0 (acts_of (trace of any run))  - its lock
   discipline, stated on the observable events - and obtains happens-before race
   freedom of every non-atomic access from Lockset.lockset_race_free. *)
From Coq Require Import List Arith ZArith Bool.
Import ListNotations.
From GV Require Import Sched Events Lockset.
Local Open Scope Z_scope.

Definition acts_of_line (l : line) : list act :=
  match l with
  | [t; k; o; v; _] =>
    let t := Z.to_nat t in let o := Z.to_nat o in
    if k =? K_LOCK then [Acq t o]
    else if k =? K_UNLOCK then [Rel t o]
    else if (k =? K_TRYLOCK) || (k =? K_TRYLOCK_FOR) then (if v =? 1 then [Acq t o] else [])
    else if k =? K_LOCK_SH then [AcqS t o]
    else if k =? K_UNLOCK_SH then [RelS t o]
    else if (k =? K_TRYLOCK_SH) || (k =? K_TRYLOCK_SH_FOR) then (if v =? 1 then [AcqS t o] else [])
    else if (k =? K_RD_BEGIN) || (k =? K_RD_END) then [Rd t o]
    else if (k =? K_WR_BEGIN) || (k =? K_WR_END) then [Wr t o]
    else []
  | _ => []
  end.

Definition acts_of (ls : list line) : list act := flat_map acts_of_line ls.

Lemma acts_of_app a b : acts_of (a ++ b) = acts_of a ++ acts_of b.
Proof. unfold acts_of. apply flat_map_app. Qed.

(* trace_ok / races distribute over concatenation *)
Fixpoint exec (prot : nat -> nat) (s : st) (tr : list act) : st :=
  match tr with [] => s | a :: r => exec prot (step s a) r end.

Lemma trace_ok_app prot tr1 : forall s tr2,
  trace_ok prot s (tr1 ++ tr2) <-> trace_ok prot s tr1 /\ trace_ok prot (exec prot s tr1) tr2.
Proof.
  induction tr1 as [|a r IH]; intros s tr2; cbn; [tauto|].
  rewrite IH. tauto.
Qed.

Lemma races_app prot tr1 : forall s tr2,
  races s (tr1 ++ tr2) <-> races s tr1 \/ races (exec prot s tr1) tr2.
Proof.
  induction tr1 as [|a r IH]; intros s tr2; cbn; [tauto|].
  rewrite IH. tauto.
Qed.
