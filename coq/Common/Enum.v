(* Enumeration of the schedules of a small program over the model's enabled sets,
   with a bound on the number of pre-emptions (context switches away from a thread
   that could still move) and spurious wake-ups.  Used by the thorough tier of the
   correspondence check: every enumerated schedule is replayed on the implementation
   (a search / validation engine, never a proof). *)
From Coq Require Import List Arith ZArith Bool.
Import ListNotations.
From GV Require Import Sched.

Section Enum.
  Variables (G L : Type).
  Variable tstep : nat -> nat -> G -> L -> option (G * L * list ev).
  Notation sysT := (sys G L).

  Definition can (s : sysT) (t c : nat) : bool :=
    match snd (sys_step G L tstep s (t, c)) with Some _ => true | None => false end.

  (* the moves offered in state s: (t,0) when enabled; otherwise (t,2) when a time-out
     enables it; and (t,1) when only a spurious wake-up enables it *)
  Definition moves_of (s : sysT) (t : nat) : list (nat * nat) :=
    if can s t 0 then [(t, 0)]
    else (if can s t 2 then [(t, 2)] else []) ++ (if can s t 1 then [(t, 1)] else []).

  Fixpoint enum (fuel : nat) (s : sysT) (cur : option nat) (budget : nat) : list (list (nat * nat)) :=
    match fuel with
    | O => [[]]
    | S f =>
      let n := length (thr s) in
      let ms := flat_map (moves_of s) (seq 0 n) in
      match ms with
      | [] => [[]]
      | _ =>
        let res :=
          flat_map (fun m : nat * nat =>
            let (t, c) := m in
            let switch := match cur with
                          | Some t' => if Nat.eqb t t' then 0 else if can s t' 0 then 1 else 0
                          | None => 0
                          end in
            let cost := switch + (if Nat.eqb c 1 then 1 else 0) in
            if cost <=? budget
            then map (cons m) (enum f (step G L tstep s m) (Some t) (budget - cost))
            else []) ms in
        match res with [] => [[]] | _ => res end
      end
    end.

  Definition enum_case_gen (s0 : sysT) (depth budget : Z) : list (list (Z * Z)) :=
    map (map (fun tc : nat * nat => (Z.of_nat (fst tc), Z.of_nat (snd tc))))
        (enum (Z.to_nat depth) s0 None (Z.to_nat budget)).
End Enum.
