(* Views layer (DESIGN 2.5): an operational fragment of the C++11 memory model for
   the few non-seq_cst atomic sites of the library.

   - vector clocks are total functions  nat -> nat  (thread id -> epoch);
   - memory orders are data ([mo], with the numeric code the instrumented build logs);
   - an atomic location is its message history, newest first; the initial value is
     the implicit oldest message (time stamp 0).  A message carries its value, the
     writer's epoch and, for a release-or-stronger store, the writer's clock;
   - a load chooses (schedule's choice) any message not excluded by coherence:
       * no newer message whose write happens-before the reader, and
       * not older than what the reader has already read of that location;
     an acquire-or-stronger load joins the message's released clock;
   - an RMW reads the newest message and continues its release sequence;
   - non-atomic cells carry FastTrack write epoch / read clock; an access that is
     not ordered after the conflicting ones by happens-before is a data race.

   This is an under-approximation of C++11 (no load buffering, no consume, no
   fences); sequential consistency is the special case "always read the newest". *)
From Coq Require Import List Arith ZArith Lia Bool.
Import ListNotations.
From GV Require Import Sched Events.

(* ---------- vector clocks ---------- *)
Definition vc := nat -> nat.
Definition vle (a b : vc) : Prop := forall i, a i <= b i.
Definition vjoin (a b : vc) : vc := fun i => Nat.max (a i) (b i).
Definition vinc (a : vc) (t : nat) : vc := fun i => if Nat.eqb i t then S (a i) else a i.
Definition vzero : vc := fun _ => 0.

(* pointwise function update (clock tables, per-location tables) *)
Definition fupd {A} (f : nat -> A) (i : nat) (x : A) : nat -> A := fun j => if Nat.eqb j i then x else f j.

Lemma fupd_eq {A} (f : nat -> A) i x : fupd f i x i = x.
Proof. unfold fupd. rewrite Nat.eqb_refl. reflexivity. Qed.
Lemma fupd_ne {A} (f : nat -> A) i j x : j <> i -> fupd f i x j = f j.
Proof. intros H. unfold fupd. destruct (Nat.eqb_spec j i); [contradiction|reflexivity]. Qed.

Lemma vle_refl a : vle a a.
Proof. intros i; lia. Qed.
Lemma vle_trans a b c : vle a b -> vle b c -> vle a c.
Proof. intros H1 H2 i. specialize (H1 i). specialize (H2 i). lia. Qed.
Lemma vle_join_l a b : vle a (vjoin a b).
Proof. intros i. unfold vjoin. lia. Qed.
Lemma vle_join_r a b : vle b (vjoin a b).
Proof. intros i. unfold vjoin. lia. Qed.
Lemma vle_inc a t : vle a (vinc a t).
Proof. intros i. unfold vinc. destruct (Nat.eqb i t); lia. Qed.
Lemma vinc_self a t : vinc a t t = S (a t).
Proof. unfold vinc. rewrite Nat.eqb_refl. reflexivity. Qed.
Lemma vinc_other a t i : i <> t -> vinc a t i = a i.
Proof. intros H. unfold vinc. destruct (Nat.eqb_spec i t); [contradiction|reflexivity]. Qed.

(* every thread starts in its own epoch 1; epoch 0 means "never" *)
Definition clk0 : nat -> vc := fun t => vinc vzero t.

(* ---------- memory orders as data ---------- *)
Inductive mo := Relaxed | Consume | Acquire | Release | AcqRel | SeqCst.
Definition mo_code (m : mo) : Z :=
  match m with
  | Relaxed => MO_RELAXED | Consume => MO_CONSUME | Acquire => MO_ACQUIRE
  | Release => MO_RELEASE | AcqRel => MO_ACQ_REL | SeqCst => MO_SEQ_CST
  end.
Definition is_rel (m : mo) : bool := match m with Release | AcqRel | SeqCst => true | _ => false end.
Definition is_acq (m : mo) : bool := match m with Acquire | AcqRel | SeqCst => true | _ => false end.

(* ---------- atomic locations ---------- *)
Record msg := Msg { mval : Z; mwho : nat; mwhen : nat; mrel : option vc }.
Definition hist := list msg.             (* newest first; [] = only the initial value *)

(* the message a store by thread t (clock c) appends; the caller then advances
   t's clock with [vinc c t] so that (t, c t) identifies this write *)
Definition store_msg (m : mo) (t : nat) (c : vc) (v : Z) : msg :=
  Msg v t (c t) (if is_rel m then Some c else None).

(* an RMW reads the newest message [prev] and continues its release sequence *)
Definition rmw_msg (m : mo) (t : nat) (c : vc) (prev : option msg) (v : Z) : msg :=
  let inherited := match prev with Some p => mrel p | None => None end in
  Msg v t (c t)
      (match (if is_rel m then Some c else None), inherited with
       | Some a, Some b => Some (vjoin a b)
       | Some a, None => Some a
       | None, r => r
       end).

(* m's write happens-before a reader whose clock is c *)
Definition known (c : vc) (m : msg) : bool := mwhen m <=? c (mwho m).

(* may a reader with clock c, which has already read time stamp sn of this
   location, read the message at index i (0 = newest, length h = the initial value)? *)
Definition allowed (h : hist) (c : vc) (sn : nat) (i : nat) : bool :=
  (i <=? length h) && (sn <=? length h - i) && forallb (fun m => negb (known c m)) (firstn i h).

(* the index actually read: the schedule's choice when the Views semantics is on and
   the choice is coherence-allowed, the newest message otherwise (sequential consistency) *)
Definition pick (views : bool) (h : hist) (c : vc) (sn : nat) (choice : nat) : nat :=
  if views && allowed h c sn choice then choice else 0.

Definition read_val (init : Z) (h : hist) (i : nat) : Z :=
  match nth_error h i with Some m => mval m | None => init end.
Definition read_stamp (h : hist) (i : nat) : nat := length h - i.
(* the reader's clock after the load *)
Definition read_clock (m : mo) (h : hist) (i : nat) (c : vc) : vc :=
  match nth_error h i with
  | Some x => match mrel x with Some v => if is_acq m then vjoin c v else c | None => c end
  | None => c
  end.

Lemma allowed_0 h c sn : sn <= length h -> allowed h c sn 0 = true.
Proof.
  intros H. unfold allowed. cbn. rewrite Nat.sub_0_r. apply Nat.leb_le in H. rewrite H. reflexivity.
Qed.

Lemma pick_bounds views h c sn ch : sn <= length h ->
  pick views h c sn ch <= length h /\ sn <= length h - pick views h c sn ch.
Proof.
  intros H. unfold pick. destruct (views && allowed h c sn ch) eqn:E.
  - apply andb_true_iff in E as [_ E]. unfold allowed in E.
    apply andb_true_iff in E as [E _]. apply andb_true_iff in E as [E1 E2].
    apply Nat.leb_le in E1. apply Nat.leb_le in E2. lia.
  - lia.
Qed.

(* coherence with happens-before: a message known to the reader hides everything older *)
Lemma pick_known views h c sn ch j m : sn <= length h ->
  nth_error h j = Some m -> known c m = true -> pick views h c sn ch <= j.
Proof.
  intros Hs Hn Hk. unfold pick. destruct (views && allowed h c sn ch) eqn:E; [|lia].
  apply andb_true_iff in E as [_ E]. unfold allowed in E. apply andb_true_iff in E as [_ E].
  destruct (le_lt_dec ch j) as [Hle|Hlt]; [exact Hle|exfalso].
  rewrite forallb_forall in E.
  assert (In m (firstn ch h)) as Hin.
  { assert (j < length (firstn ch h)) as Hl.
    { rewrite firstn_length. apply Nat.min_glb_lt; [exact Hlt|]. apply nth_error_Some. congruence. }
    rewrite <- (firstn_skipn ch h) in Hn.
    rewrite nth_error_app1 in Hn by exact Hl. eapply nth_error_In; eauto. }
  specialize (E m Hin). rewrite Hk in E. discriminate.
Qed.

Lemma read_clock_mono m h i c : vle c (read_clock m h i c).
Proof.
  unfold read_clock. destruct (nth_error h i) as [x|]; [|apply vle_refl].
  destruct (mrel x); [|apply vle_refl]. destruct (is_acq m); [apply vle_join_l|apply vle_refl].
Qed.

(* an acquiring load of a released message obtains the releaser's clock *)
Lemma read_clock_acq m h i c x v : is_acq m = true -> nth_error h i = Some x -> mrel x = Some v ->
  vle v (read_clock m h i c).
Proof. intros Ha Hn Hr. unfold read_clock. rewrite Hn, Hr, Ha. apply vle_join_r. Qed.

(* ---------- non-atomic cells: FastTrack epochs ---------- *)
Definition reads_ok (n : nat) (R c : vc) : bool := forallb (fun u => R u <=? c u) (seq 0 n).
Lemma reads_ok_spec n R c : reads_ok n R c = true <-> forall u, u < n -> R u <= c u.
Proof.
  unfold reads_ok. rewrite forallb_forall. split; intros H u Hu.
  - apply Nat.leb_le, H, in_seq; lia.
  - apply Nat.leb_le, H. apply in_seq in Hu; lia.
Qed.
Global Opaque reads_ok.

(* last write (thread, epoch; epoch 0 = never written) and read clock *)
Record ft := Ft { fwho : nat; fwhen : nat; fR : vc }.
Definition ft0 : ft := Ft 0 0 vzero.

(* n = number of threads.  Each returns the new epochs and whether the access was race-free *)
Definition ft_write (n t : nat) (c : vc) (f : ft) : ft * bool :=
  (Ft t (c t) vzero, (fwhen f <=? c (fwho f)) && reads_ok n (fR f) c).
Definition ft_read (t : nat) (c : vc) (f : ft) : ft * bool :=
  (Ft (fwho f) (fwhen f) (fupd (fR f) t (c t)), fwhen f <=? c (fwho f)).

Lemma ft_write_ok n t c f :
  fwhen f <= c (fwho f) -> (forall u, u < n -> fR f u <= c u) -> snd (ft_write n t c f) = true.
Proof.
  intros H1 H2. unfold ft_write. cbn [snd]. apply andb_true_iff. split.
  - apply Nat.leb_le. exact H1.
  - apply reads_ok_spec. exact H2.
Qed.
Lemma ft_read_ok t c f : fwhen f <= c (fwho f) -> snd (ft_read t c f) = true.
Proof. intros H. unfold ft_read. cbn [snd]. apply Nat.leb_le. exact H. Qed.
