(* Lock discipline implies happens-before race freedom  (used by C07, layer 1).

   Events of a program that synchronises only through (shared) mutexes; the
   happens-before relation of [intro.races] restricted to mutexes (an unlock
   synchronises with the later locks of the same mutex) is computed with vector
   clocks in the usual way (DJIT+/FastTrack); a non-atomic access is a race when
   the previous conflicting access does not happen-before it.

   Theorem [lockset_race_free]: if every read of location x is made while its
   protecting mutex prot(x) is held (shared or exclusively) by the reader and
   every write while it is held exclusively by the writer, then no access of
   any valid trace - any number of threads, locks, locations, any length - is a
   race.  No bound anywhere; proved by an invariant over the trace. *)
From Coq Require Import List Arith Lia Bool.
Import ListNotations.

Definition vc := nat -> nat.
Definition vle (a b : vc) : Prop := forall i, a i <= b i.
Definition vjoin (a b : vc) : vc := fun i => Nat.max (a i) (b i).
Definition vinc (a : vc) (t : nat) : vc := fun i => if Nat.eqb i t then S (a i) else a i.
Definition fupd {A} (f : nat -> A) (k : nat) (v : A) : nat -> A := fun i => if Nat.eqb i k then v else f i.

Lemma vle_refl a : vle a a. Proof. intros i; lia. Qed.
Lemma vle_trans a b c : vle a b -> vle b c -> vle a c.
Proof. intros H1 H2 i. specialize (H1 i); specialize (H2 i); lia. Qed.
Lemma vle_join_l a b : vle a (vjoin a b). Proof. intros i; unfold vjoin; lia. Qed.
Lemma vle_join_r a b : vle b (vjoin a b). Proof. intros i; unfold vjoin; lia. Qed.
Lemma vle_inc a t : vle a (vinc a t).
Proof. intros i; unfold vinc; destruct (Nat.eqb i t); lia. Qed.

Inductive act :=
| Acq (t m : nat) | Rel (t m : nat)          (* exclusive lock / unlock *)
| AcqS (t m : nat) | RelS (t m : nat)        (* shared lock / unlock *)
| Rd (t x : nat) | Wr (t x : nat).           (* non-atomic read / write of location x *)

Record st := St {
  clk : nat -> vc;            (* thread clocks *)
  lck : nat -> vc;            (* clock left in a mutex by its releases *)
  own : nat -> option nat;    (* exclusive owner *)
  shr : nat -> list nat;      (* shared holders *)
  wv : nat -> vc;             (* clock of the last write to x *)
  rv : nat -> vc              (* per thread: clock component of its last read of x *)
}.

Section Lockset.
  Variable prot : nat -> nat.   (* the mutex protecting each location *)

  (* validity of the mutex operations + the lock discipline on accesses *)
  Definition ok (s : st) (a : act) : Prop :=
    match a with
    | Acq t m => own s m = None /\ shr s m = []
    | Rel t m => own s m = Some t
    | AcqS t m => own s m = None        (* a thread may hold the shared lock several times (several handles) *)
    | RelS t m => In t (shr s m)
    | Rd t x => own s (prot x) = Some t \/ In t (shr s (prot x))
    | Wr t x => own s (prot x) = Some t
    end.

  (* remove ONE occurrence: the sharers are a multiset *)
  Fixpoint rm (t : nat) (l : list nat) : list nat :=
    match l with
    | [] => []
    | u :: r => if Nat.eqb u t then r else u :: rm t r
    end.

  Definition step (s : st) (a : act) : st :=
    match a with
    | Acq t m => St (fupd (clk s) t (vjoin (clk s t) (lck s m))) (lck s) (fupd (own s) m (Some t)) (shr s) (wv s) (rv s)
    | Rel t m => St (fupd (clk s) t (vinc (clk s t) t)) (fupd (lck s) m (vjoin (lck s m) (clk s t)))
                    (fupd (own s) m None) (shr s) (wv s) (rv s)
    | AcqS t m => St (fupd (clk s) t (vjoin (clk s t) (lck s m))) (lck s) (own s) (fupd (shr s) m (t :: shr s m)) (wv s) (rv s)
    | RelS t m => St (fupd (clk s) t (vinc (clk s t) t)) (fupd (lck s) m (vjoin (lck s m) (clk s t)))
                     (own s) (fupd (shr s) m (rm t (shr s m))) (wv s) (rv s)
    | Rd t x => St (clk s) (lck s) (own s) (shr s) (wv s) (fupd (rv s) x (fupd (rv s x) t (clk s t t)))
    | Wr t x => St (clk s) (lck s) (own s) (shr s) (fupd (wv s) x (clk s t)) (rv s)
    end.

  (* the access is not ordered after the previous conflicting access *)
  Definition racy (s : st) (a : act) : Prop :=
    match a with
    | Rd t x => ~ vle (wv s x) (clk s t)
    | Wr t x => ~ vle (wv s x) (clk s t) \/ ~ vle (rv s x) (clk s t)
    | _ => False
    end.

  Fixpoint trace_ok (s : st) (tr : list act) : Prop :=
    match tr with [] => True | a :: r => ok s a /\ trace_ok (step s a) r end.
  Fixpoint races (s : st) (tr : list act) : Prop :=
    match tr with [] => False | a :: r => racy s a \/ races (step s a) r end.

  Record Inv (s : st) : Prop := {
    I_wf   : forall m w, own s m = Some w -> shr s m = [];
    I_self : forall x u, rv s x u <= clk s u u;
    I_excl : forall x w, own s (prot x) = Some w -> vle (wv s x) (clk s w) /\ vle (rv s x) (clk s w);
    I_free : forall x, own s (prot x) = None ->
             vle (wv s x) (lck s (prot x)) /\
             (forall h, In h (shr s (prot x)) -> vle (wv s x) (clk s h)) /\
             (forall u, ~ In u (shr s (prot x)) -> rv s x u <= lck s (prot x) u)
  }.

  Lemma In_rm_in t u l : In u (rm t l) -> In u l.
  Proof.
    induction l as [|h r IH]; cbn; [tauto|]. destruct (Nat.eqb_spec h t); cbn; intuition.
  Qed.
  Lemma In_rm_ne t u l : u <> t -> In u l -> In u (rm t l).
  Proof.
    intros Hne. induction l as [|h r IH]; cbn; [tauto|]. destruct (Nat.eqb_spec h t); cbn; intros [->|H]; intuition congruence.
  Qed.

  Ltac eqd a b := destruct (Nat.eqb_spec a b); subst.
  Ltac pt i := repeat match goal with
                      | H : vle _ _ |- _ => specialize (H i)
                      end; unfold vjoin, vinc in *.

  Lemma Inv_step s a : Inv s -> ok s a -> Inv (step s a) /\ ~ racy s a.
  Proof.
    intros [Hwf Hself Hex Hfr] Hok. destruct a as [t m|t m|t m|t m|t x|t x]; cbn in Hok.
    - (* Acq *) destruct Hok as [Hfree Hns]. split; [|intros []].
      constructor; cbn; unfold fupd.
      + intros m' w. eqd m' m; intros H; auto. eapply Hwf; eauto.
      + intros x u. eqd u t; [|apply Hself]. specialize (Hself x t). unfold vjoin. lia.
      + intros x w. eqd (prot x) m; intros H.
        * inversion H; subst. rewrite Nat.eqb_refl.
          destruct (Hfr x Hfree) as (A & _ & C).
          split; intros i; unfold vjoin.
          -- specialize (A i). lia.
          -- assert (~ In i (shr s (prot x))) as Hn by (rewrite Hns; intros []). specialize (C i Hn). lia.
        * destruct (Hex x w H) as [A B]. eqd w t; auto.
          split; intros i; pt i; lia.
      + intros x. eqd (prot x) m; intros H; [discriminate|].
        destruct (Hfr x H) as (A & B & C). repeat split; auto.
        intros h Hh. specialize (B h Hh). eqd h t; auto. intros i; pt i; lia.
    - (* Rel *) split; [|intros []]. constructor; cbn; unfold fupd.
      + intros m' w. eqd m' m; intros H; [discriminate|]. eapply Hwf; eauto.
      + intros x u. eqd u t; [|apply Hself]. specialize (Hself x t). unfold vinc. rewrite Nat.eqb_refl. lia.
      + intros x w. eqd (prot x) m; intros H; [discriminate|].
        destruct (Hex x w H) as [A B]. eqd w t; auto.
        split; intros i; pt i; destruct (Nat.eqb i t); lia.
      + intros x. eqd (prot x) m; intros H.
        * destruct (Hex x t Hok) as [A B]. rewrite (Hwf _ _ Hok).
          repeat split.
          -- intros i; pt i; lia.
          -- intros h [].
          -- intros u _. pt u; lia.
        * destruct (Hfr x H) as (A & B & C). repeat split; auto.
          intros h Hh. specialize (B h Hh). eqd h t; auto. intros i; pt i; destruct (Nat.eqb i t); lia.
    - (* AcqS *) rename Hok into Hfree. split; [|intros []]. constructor; cbn; unfold fupd.
      + intros m' w H. eqd m' m; [congruence|]. eapply Hwf; eauto.
      + intros x u. eqd u t; [|apply Hself]. specialize (Hself x t). unfold vjoin. lia.
      + intros x w H. destruct (Hex x w H) as [A B]. eqd w t; auto.
        split; intros i; pt i; lia.
      + intros x H. destruct (Hfr x H) as (A & B & C). eqd (prot x) m.
        * repeat split; auto.
          -- intros h [<-|Hh].
             ++ rewrite Nat.eqb_refl. intros i; pt i; lia.
             ++ specialize (B h Hh). eqd h t; auto. intros i; pt i; lia.
          -- intros u Hu. apply C. intros Hin. apply Hu. right. exact Hin.
        * repeat split; auto.
          intros h Hh. specialize (B h Hh). eqd h t; auto. intros i; pt i; lia.
    - (* RelS *) split; [|intros []]. constructor; cbn; unfold fupd.
      + intros m' w H. eqd m' m.
        * rewrite (Hwf _ _ H) in Hok. destruct Hok.
        * eapply Hwf; eauto.
      + intros x u. eqd u t; [|apply Hself]. specialize (Hself x t). unfold vinc. rewrite Nat.eqb_refl. lia.
      + intros x w H. destruct (Hex x w H) as [A B]. eqd w t; auto.
        split; intros i; pt i; destruct (Nat.eqb i t); lia.
      + intros x H. destruct (Hfr x H) as (A & B & C). eqd (prot x) m.
        * repeat split.
          -- intros i; pt i; lia.
          -- intros h Hh. apply In_rm_in in Hh. specialize (B h Hh).
             eqd h t; auto. intros i; pt i; destruct (Nat.eqb i t); lia.
          -- intros u Hu. unfold vjoin.
             destruct (Nat.eq_dec u t) as [->|Hne].
             ++ specialize (Hself x t). lia.
             ++ assert (~ In u (shr s (prot x))) as Hn by (intros Hin; apply Hu; apply In_rm_ne; auto).
                specialize (C u Hn). lia.
        * repeat split; auto.
          intros h Hh. specialize (B h Hh). eqd h t; auto. intros i; pt i; destruct (Nat.eqb i t); lia.
    - (* Rd *) split.
      + constructor; cbn; unfold fupd; auto.
        * intros y u. eqd y x; [|apply Hself]. eqd u t; [lia|apply Hself].
        * intros y w H. destruct (Hex y w H) as [A B]. split; auto.
          eqd y x; auto. intros i. eqd i t; [|apply B].
          destruct Hok as [Ho|Hs]; [|rewrite (Hwf _ _ H) in Hs; destruct Hs].
          assert (w = t) by congruence. subst. lia.
        * intros y H. destruct (Hfr y H) as (A & B & C). repeat split; auto.
          intros u Hu. eqd y x; auto. eqd u t; auto.
          destruct Hok as [Ho|Hs]; [congruence|contradiction].
      + cbn. intros Hr. apply Hr. destruct Hok as [Ho|Hs].
        * apply (Hex x t Ho).
        * destruct (own s (prot x)) as [w|] eqn:E.
          -- rewrite (Hwf _ _ E) in Hs. destruct Hs.
          -- destruct (Hfr x E) as (_ & B & _). apply B; auto.
    - (* Wr *) split.
      + constructor; cbn; unfold fupd; auto.
        * intros y w H. destruct (Hex y w H) as [A B]. split; auto.
          eqd y x; auto; assert (w = t) by congruence; subst; apply vle_refl.
        * intros y H. eqd y x; [congruence|]. apply Hfr; auto.
      + cbn. destruct (Hex x t Hok) as [A B]. intros [Hr|Hr]; apply Hr; auto.
  Qed.

  Theorem lockset_race_free : forall tr s, Inv s -> trace_ok s tr -> ~ races s tr.
  Proof.
    induction tr as [|a r IH]; intros s HI Hok; cbn; [tauto|].
    destruct Hok as [Ha Hr]. destruct (Inv_step s a HI Ha) as [HI' Hnr].
    intros [H|H]; [exact (Hnr H)|exact (IH _ HI' Hr H)].
  Qed.

  (* the initial state: nothing held, nothing accessed *)
  Definition st0 : st :=
    St (fun t => vinc (fun _ => 0) t) (fun _ _ => 0) (fun _ => None) (fun _ => []) (fun _ _ => 0) (fun _ _ => 0).
  Lemma Inv_st0 : Inv st0.
  Proof.
    constructor; cbn; try discriminate.
    - intros; lia.
    - intros x _. repeat split; try (intros i; lia); intros; try contradiction; try lia.
  Qed.

  Corollary lockset_race_free_init tr : trace_ok st0 tr -> ~ races st0 tr.
  Proof. apply lockset_race_free, Inv_st0. Qed.
End Lockset.
